(* Model/XsdCheck.v — an executable validator for the subset of W3C XML Schema 1.0 that the shipped
   CommonRoad 2020a schema uses (DESIGN 5/C03).  The schema is DATA in the normal form produced by the
   fail-closed translator harness/props/c03_xsd.py (Gen/Xsd2020a.v):
     complex type  = attributes (name, simple type, required) + content model
     content model = CAlt [Seq; ...] | CAll [Group; ...] | CSimple simple-type,  Seq = [Group; ...]
     Group         = (elements tag -> type, minOccurs, maxOccurs): matches a RUN of children with these tags
     simple type   = primitive + enumeration + minExclusive / minInclusive / maxInclusive
     identity      = one key (child paths, @field) and one keyref (all descendants, @field).
   [validates] is total: matching of children against a Seq is greedy and deterministic (the translator
   checks that the tag sets of the groups of a Seq are disjoint, so greedy = exact); leaf text is decided by
   executable recognisers of the lexical spaces of xs:decimal / integer family / boolean / date / time over
   Coq strings.
   Second half: the bridge from the generic writer of Model/Codec.v — [render] turns a written [tree] into
   an [xtree] (attributes are the leaves whose tag starts with "@"), and the static comparison [conforms]
   of a writer table with a schema type / the value-level condition [expressible] used by the theorem
   conforms -> expressible -> valid (Proofs/XsdCheck.v). *)
From Coq Require Import QArith ZArith NArith String Ascii List Bool Decimal DecimalString DecimalZ.
From CR Require Import Model.Codec.
Import ListNotations.
Open Scope string_scope.
Open Scope list_scope.

(* ================================================================== schema as data *)
Inductive prim := PDecimal | PInteger | PNonNeg | PPos | PBoolean | PString | PDate | PTime.

Record stype := mk_stype {
  st_prim : prim;
  st_enum : option (list string);
  st_min_ex : option Q;
  st_min_in : option Q;
  st_max_in : option Q }.

Inductive tyref := TS (name : string) | TC (name : string).

Record group := mk_group {
  g_elems : list (string * tyref);
  g_min : nat;
  g_max : option nat }.

Inductive content :=
| CAlt (alts : list (list group))
| CAll (gs : list group)
| CSimple (st : string).

Record ctype := mk_ctype {
  c_attrs : list (string * string * bool);     (* name, simple type, required *)
  c_content : content }.

Record schema := mk_schema {
  s_root : string;
  s_root_type : tyref;
  s_simple : list (string * stype);
  s_complex : list (string * ctype);
  s_key : option (list (list string) * string);   (* selector paths ./a/b, field @name *)
  s_keyref : option string }.                      (* selector .//*, field @name, refers to the key *)

Fixpoint lookup {A} (k : string) (l : list (string * A)) : option A :=
  match l with
  | [] => None
  | (k', v) :: r => if String.eqb k k' then Some v else lookup k r
  end.

(* ================================================================== documents *)
Inductive xtree := XE (tag : string) (attrs : list (string * string)) (kids : list xtree) (text : string).
Definition xtag (t : xtree) : string := match t with XE g _ _ _ => g end.
Definition xattrs (t : xtree) := match t with XE _ a _ _ => a end.
Definition xkids (t : xtree) := match t with XE _ _ k _ => k end.

(* ================================================================== lexical spaces *)
Definition is_ws (c : ascii) : bool :=
  Ascii.eqb c " " || Ascii.eqb c "009" || Ascii.eqb c "010" || Ascii.eqb c "013".

Fixpoint ltrim (s : string) : string :=
  match s with
  | String c r => if is_ws c then ltrim r else s
  | EmptyString => EmptyString
  end.
Fixpoint rtrim (s : string) : string :=
  match s with
  | EmptyString => EmptyString
  | String c r => let r' := rtrim r in
                  if is_ws c && (match r' with EmptyString => true | _ => false end) then EmptyString
                  else String c r'
  end.
(* whiteSpace = collapse, for the types whose lexical space has no inner blanks *)
Definition trim (s : string) : string := rtrim (ltrim s).
Fixpoint all_ws (s : string) : bool :=
  match s with EmptyString => true | String c r => is_ws c && all_ws r end.

Definition is_nil {A} (l : list A) : bool := match l with [] => true | _ => false end.
Definition is_empty (s : string) : bool := match s with EmptyString => true | _ => false end.

(* xs:integer: optional sign, digits+.  Value through the standard library's decimal reader. *)
Definition strip_plus (s : string) : string :=
  match s with
  | String "+" (String c r) => if Ascii.eqb c "-" then s else String c r
  | _ => s
  end.
Definition int_value (s : string) : option Z :=
  option_map Z.of_int (NilZero.int_of_string (strip_plus s)).

(* xs:decimal: optional sign, digits* [ "." digits* ] with at least one digit; never an exponent *)
Fixpoint split_dot (s : string) : string * option string :=
  match s with
  | EmptyString => (EmptyString, None)
  | String c r => if Ascii.eqb c "." then (EmptyString, Some r)
                  else let (a, b) := split_dot r in (String c a, b)
  end.
Definition strip_sign (s : string) : bool * string :=
  match s with
  | String "-" r => (true, r)
  | String "+" r => (false, r)
  | _ => (false, s)
  end.
Definition pow10p (k : nat) : positive := Z.to_pos (10 ^ Z.of_nat k).
Definition dec_value (s : string) : option Q :=
  let (neg, body) := strip_sign s in
  let (ip, fpo) := split_dot body in
  let fp := match fpo with Some f => f | None => EmptyString end in
  if is_empty ip && is_empty fp then None else
  match NilEmpty.uint_of_string ip, NilEmpty.uint_of_string fp with
  | Some i, Some f =>
      let k := String.length fp in
      let n := (Z.of_uint i * 10 ^ Z.of_nat k + Z.of_uint f)%Z in
      let q := n # pow10p k in
      Some (if neg then Qopp q else q)
  | _, _ => None
  end.

Definition is_bool_text (s : string) : bool :=
  String.eqb s "true" || String.eqb s "false" || String.eqb s "1" || String.eqb s "0".

(* digits helpers for date / time *)
Definition digit_of (c : ascii) : option nat :=
  let n := nat_of_ascii c in
  if (48 <=? n)%nat && (n <=? 57)%nat then Some (n - 48)%nat else None.
Fixpoint take_digits (s : string) : list nat * string :=
  match s with
  | EmptyString => ([], EmptyString)
  | String c r => match digit_of c with
                  | Some d => let (ds, rest) := take_digits r in (d :: ds, rest)
                  | None => ([], s)
                  end
  end.
Definition num_of (ds : list nat) : N := fold_left (fun a d => (10 * a + N.of_nat d)%N) ds 0%N.
Definition two_digits (s : string) : option (nat * string) :=
  match s with
  | String a (String b r) => match digit_of a, digit_of b with
                             | Some x, Some y => Some ((10 * x + y)%nat, r)
                             | _, _ => None
                             end
  | _ => None
  end.
Definition expect (c : ascii) (s : string) : option string :=
  match s with String a r => if Ascii.eqb a c then Some r else None | _ => None end.
(* timezone: "" | "Z" | (+|-)hh:mm, at most 14:00 *)
Definition tz_ok (s : string) : bool :=
  match s with
  | EmptyString => true
  | String "Z" EmptyString => true
  | String sg r =>
      (Ascii.eqb sg "+" || Ascii.eqb sg "-") &&
      match two_digits r with
      | Some (h, r1) => match expect ":" r1 with
                        | Some r2 => match two_digits r2 with
                                     | Some (m, EmptyString) =>
                                         ((h <=? 13)%nat && (m <=? 59)%nat) || (Nat.eqb h 14 && Nat.eqb m 0)
                                     | _ => false
                                     end
                        | None => false
                        end
      | None => false
      end
  end.
Definition leap (y : N) : bool :=
  (N.eqb (y mod 4) 0 && negb (N.eqb (y mod 100) 0)) || N.eqb (y mod 400) 0.
Definition days_in (y : N) (m : nat) : nat :=
  match m with
  | 2 => if leap y then 29 else 28
  | 4 | 6 | 9 | 11 => 30
  | _ => 31
  end%nat.
(* xs:date: [-]yyyy-mm-dd[tz]; at least four year digits, no leading zero beyond four, year <> 0 *)
Definition is_date_text (s : string) : bool :=
  let body := match s with String "-" r => r | _ => s end in
  let (yd, r0) := take_digits body in
  let ny := List.length yd in
  (4 <=? ny)%nat && ((Nat.eqb ny 4) || negb (Nat.eqb (hd 0%nat yd) 0)) && negb (N.eqb (num_of yd) 0) &&
  match expect "-" r0 with
  | Some r1 => match two_digits r1 with
               | Some (m, r2) => match expect "-" r2 with
                                 | Some r3 => match two_digits r3 with
                                              | Some (d, r4) =>
                                                  (1 <=? m)%nat && (m <=? 12)%nat && (1 <=? d)%nat &&
                                                  (d <=? days_in (num_of yd) m)%nat && tz_ok r4
                                              | None => false
                                              end
                                 | None => false
                                 end
               | None => false
               end
  | None => false
  end.
(* xs:time: hh:mm:ss[.s+][tz]; 24:00:00 is the end of the day *)
Definition is_time_text (s : string) : bool :=
  match two_digits s with
  | Some (h, r0) =>
      match expect ":" r0 with
      | Some r1 =>
          match two_digits r1 with
          | Some (m, r2) =>
              match expect ":" r2 with
              | Some r3 =>
                  match two_digits r3 with
                  | Some (sec, r4) =>
                      let '(frac_ok, fzero, r5) :=
                        match r4 with
                        | String "." r =>
                            let (fd, rest) := take_digits r in
                            (negb (is_nil fd), forallb (Nat.eqb 0) fd, rest)
                        | _ => (true, true, r4)
                        end in
                      frac_ok && tz_ok r5 &&
                      (((h <=? 23)%nat && (m <=? 59)%nat && (sec <=? 59)%nat) ||
                       (Nat.eqb h 24 && Nat.eqb m 0 && Nat.eqb sec 0 && fzero))
                  | None => false
                  end
              | None => false
              end
          | None => false
          end
      | None => false
      end
  | None => false
  end.

Definition qle_opt (lo : option Q) (x : Q) : bool := match lo with Some m => Qle_bool m x | None => true end.
Definition qlt_opt (lo : option Q) (x : Q) : bool :=
  match lo with Some m => Qle_bool m x && negb (Qeq_bool m x) | None => true end.
Definition qge_opt (hi : option Q) (x : Q) : bool := match hi with Some m => Qle_bool x m | None => true end.
Definition facets_ok (st : stype) (x : Q) : bool :=
  qlt_opt (st_min_ex st) x && qle_opt (st_min_in st) x && qge_opt (st_max_in st) x.
Definition enum_ok (st : stype) (s : string) : bool :=
  match st_enum st with Some l => existsb (String.eqb s) l | None => true end.
Definition int_prim_ok (p : prim) (z : Z) : bool :=
  match p with PNonNeg => (0 <=? z)%Z | PPos => (1 <=? z)%Z | _ => true end.

(* does the simple type accept the text? *)
Definition accepts (st : stype) (text : string) : bool :=
  match st_prim st with
  | PString => enum_ok st text
  | PBoolean => is_bool_text (trim text)
  | PDecimal => match dec_value (trim text) with Some x => facets_ok st x | None => false end
  | PInteger | PNonNeg | PPos =>
      match int_value (trim text) with
      | Some z => int_prim_ok (st_prim st) z && facets_ok st (inject_Z z)
      | None => false
      end
  (* the arbiter of the property is lxml (libxml2): it is stricter than the W3C text here - no surrounding
     blanks for a date, leading blanks only for a time; the stricter reading is modelled *)
  | PDate => is_date_text text
  | PTime => is_time_text (ltrim text)
  end.

(* ================================================================== content models *)
Definition in_group (g : group) (t : string) : bool := existsb (fun e => String.eqb (fst e) t) (g_elems g).
Definition in_any (gs : list group) (t : string) : bool := existsb (fun g => in_group g t) gs.
Definition range_ok (g : group) (n : nat) : bool :=
  (g_min g <=? n)%nat && match g_max g with Some m => (n <=? m)%nat | None => true end.

(* the maximal run of leading tags that belong to the group *)
Fixpoint span_in (g : group) (tags : list string) : nat * list string :=
  match tags with
  | t :: r => if in_group g t then let (n, rest) := span_in g r in (S n, rest) else (O, tags)
  | [] => (O, [])
  end.
Fixpoint match_seq (gs : list group) (tags : list string) : bool :=
  match gs with
  | [] => is_nil tags
  | g :: gs' => let (n, rest) := span_in g tags in range_ok g n && match_seq gs' rest
  end.
Definition count_tags (g : group) (tags : list string) : nat := List.length (filter (in_group g) tags).
Definition match_all (gs : list group) (tags : list string) : bool :=
  forallb (in_any gs) tags && forallb (fun g => range_ok g (count_tags g tags)) gs.
Definition content_ok (c : content) (tags : list string) : bool :=
  match c with
  | CAlt alts => existsb (fun gs => match_seq gs tags) alts
  | CAll gs => match_all gs tags
  | CSimple _ => is_nil tags
  end.

(* the type of a child element: a tag has one type inside a complex type (checked by the translator) *)
Fixpoint elem_type (t : string) (es : list (string * tyref)) : option tyref :=
  match es with
  | [] => None
  | (t', ty) :: r => if String.eqb t' t then Some ty else elem_type t r
  end.
Fixpoint groups_type (t : string) (gs : list group) : option tyref :=
  match gs with
  | [] => None
  | g :: r => match elem_type t (g_elems g) with Some ty => Some ty | None => groups_type t r end
  end.
Fixpoint alts_type (t : string) (alts : list (list group)) : option tyref :=
  match alts with
  | [] => None
  | gs :: r => match groups_type t gs with Some ty => Some ty | None => alts_type t r end
  end.
Definition child_type (c : content) (t : string) : option tyref :=
  match c with
  | CAlt alts => alts_type t alts
  | CAll gs => groups_type t gs
  | CSimple _ => None
  end.

(* ================================================================== validation *)
Definition simple_accepts (S : schema) (name : string) (text : string) : bool :=
  match lookup name (s_simple S) with Some st => accepts st text | None => false end.

Fixpoint attr_decl (a : string) (decl : list (string * string * bool)) : option string :=
  match decl with
  | [] => None
  | (n, st, _) :: r => if String.eqb n a then Some st else attr_decl a r
  end.
Definition has_attr (a : string) (attrs : list (string * string)) : bool :=
  existsb (fun p => String.eqb (fst p) a) attrs.
Definition attrs_ok (S : schema) (decl : list (string * string * bool)) (attrs : list (string * string)) : bool :=
  forallb (fun p => match attr_decl (fst p) decl with
                    | Some st => simple_accepts S st (snd p)
                    | None => false
                    end) attrs &&
  forallb (fun d => match d with (n, _, req) => negb req || has_attr n attrs end) decl.

Fixpoint valid_el (S : schema) (ty : tyref) (t : xtree) {struct t} : bool :=
  match t with
  | XE _ attrs kids text =>
      match ty with
      | TS n => is_nil attrs && is_nil kids && simple_accepts S n text
      | TC n =>
          match lookup n (s_complex S) with
          | None => false
          | Some ct =>
              attrs_ok S (c_attrs ct) attrs &&
              match c_content ct with
              | CSimple sn => is_nil kids && simple_accepts S sn text
              | c => all_ws text && content_ok c (map xtag kids) &&
                     forallb (fun k => match child_type c (xtag k) with
                                       | Some ty' => valid_el S ty' k
                                       | None => false
                                       end) kids
              end
          end
      end
  end.

(* ---- identity constraints *)
Fixpoint get_attr (a : string) (attrs : list (string * string)) : option string :=
  match attrs with
  | [] => None
  | (n, v) :: r => if String.eqb n a then Some v else get_attr a r
  end.
(* values of integer type are compared in the value space ("07" = "7"), everything else as text *)
Definition key_norm (s : string) : string :=
  match int_value (trim s) with
  | Some z => NilZero.string_of_int (Z.to_int z)
  | None => s
  end.
Fixpoint select (path : list string) (t : xtree) : list xtree :=
  match path with
  | [] => [t]
  | p :: r => flat_map (select r) (filter (fun k => String.eqb (xtag k) p) (xkids t))
  end.
Fixpoint descendants (t : xtree) : list xtree :=
  match t with
  | XE _ _ kids _ => (fix go (ks : list xtree) : list xtree :=
                        match ks with [] => [] | k :: r => k :: descendants k ++ go r end) kids
  end.
Fixpoint all_some {A} (l : list (option A)) : option (list A) :=
  match l with
  | [] => Some []
  | Some x :: r => match all_some r with Some xs => Some (x :: xs) | None => None end
  | None :: _ => None
  end.
Fixpoint nodupb (l : list string) : bool :=
  match l with [] => true | x :: r => negb (existsb (String.eqb x) r) && nodupb r end.

Definition keys_ok (S : schema) (root : xtree) : bool :=
  match s_key S with
  | None => is_nil (match s_keyref S with Some _ => [tt] | None => [] end)
  | Some (paths, fld) =>
      let sel := flat_map (fun p => select p root) paths in
      match all_some (map (fun e => get_attr fld (xattrs e)) sel) with
      | None => false                                        (* a selected element lacks the key field *)
      | Some vals =>
          let ks := map key_norm vals in
          nodupb ks &&
          match s_keyref S with
          | None => true
          | Some rf => forallb (fun e => match get_attr rf (xattrs e) with
                                         | Some v => existsb (String.eqb (key_norm v)) ks
                                         | None => true
                                         end) (descendants root)
          end
      end
  end.

Definition validates (S : schema) (doc : xtree) : bool :=
  String.eqb (xtag doc) (s_root S) && valid_el S (s_root_type S) doc && keys_ok S doc.

(* the structural part (everything except the identity constraints) *)
Definition validates_structure (S : schema) (doc : xtree) : bool :=
  String.eqb (xtag doc) (s_root S) && valid_el S (s_root_type S) doc.

(* ================================================================== bridge from the generic writer *)
Definition Ztext (z : Z) : string := NilZero.string_of_int (Z.to_int z).

Definition attr_name (t : string) : string := match t with String _ r => r | EmptyString => EmptyString end.
Definition is_attr_tag (t : string) : bool := String.prefix "@" t.

Section Render.
Variable numtext : Q -> string.          (* how the writer prints a number *)

Definition atom_text (a : atom) : string :=
  match a with
  | ANum q => numtext q
  | AInt z => Ztext z
  | AStr s => s
  | ABool b => if b then "true" else "false"
  end.

(* attributes: the LEAVES whose tag starts with "@" *)
Fixpoint attr_pairs (ks : list tree) : list (string * string) :=
  match ks with
  | [] => []
  | Leaf g a :: r => if is_attr_tag g then (attr_name g, atom_text a) :: attr_pairs r else attr_pairs r
  | Node _ _ :: r => attr_pairs r
  end.
Definition is_attr_leaf (k : tree) : bool :=
  match k with Leaf g _ => is_attr_tag g | Node _ _ => false end.

Fixpoint render (t : tree) : xtree :=
  match t with
  | Leaf g a => XE g [] [] (atom_text a)
  | Node g ks =>
      XE g (attr_pairs ks)
         ((fix go (l : list tree) : list xtree :=
             match l with
             | [] => []
             | k :: r => if is_attr_leaf k then go r else render k :: go r
             end) ks) EmptyString
  end.
End Render.

(* attributes the writer adds outside the format table (the root's date) *)
Definition add_attrs (extra : list (string * string)) (t : xtree) : xtree :=
  match t with XE g a k x => XE g (a ++ extra) k x end.

(* ================================================================== static conformance of a writer table *)
Section Conform.
Variable sch : schema.

(* the simple type that decides the text of a leaf element of type ty *)
Definition leaf_type (ty : tyref) : option stype :=
  match ty with
  | TS n => lookup n (s_simple sch)
  | TC n => match lookup n (s_complex sch) with
            | Some ct => match c_attrs ct, c_content ct with
                         | [], CSimple sn => lookup sn (s_simple sch)
                         | _, _ => None
                         end
            | None => None
            end
  end.

Definition no_opt {A} (o : option A) : bool := match o with None => true | Some _ => false end.
Definition zero_or_none (o : option Q) : bool := match o with None => true | Some m => Qeq_bool m 0 end.
(* is the leaf kind admissible for the simple type?  (numbers: plain decimals, the only facet a printed
   number can be held to is "> 0"; integers: the integer family, facets judged on the value; strings: any
   type, membership is a condition on the value) *)
Definition leaf_ok (k : akind) (st : stype) : bool :=
  match k with
  | KNum => match st_prim st with PDecimal => true | _ => false end &&
            no_opt (st_enum st) && no_opt (st_min_in st) && no_opt (st_max_in st) && zero_or_none (st_min_ex st)
  | KInt => match st_prim st with PInteger | PNonNeg | PPos => true | _ => false end
  | KBool => match st_prim st with PBoolean => true | _ => false end
  | KStr => true
  end.

Fixpoint elem_tags (fs : fields) : list string :=
  match fs with
  | FNil => []
  | FCons t _ _ r => if is_attr_tag t then elem_tags r else t :: elem_tags r
  end.

(* order: the tags after the leading ones that belong to no later group contain no tag of the group *)
Fixpoint drop_until (p : string -> bool) (l : list string) : list string :=
  match l with
  | [] => []
  | x :: r => if p x then l else drop_until p r
  end.
Fixpoint order_ok (gs : list group) (tags : list string) : bool :=
  match gs with
  | [] => true
  | g :: gs' => let rest := drop_until (in_any gs') tags in
                forallb (fun t => negb (in_group g t)) rest && order_ok gs' rest
  end.
Definition order_conform (c : content) (tags : list string) : bool :=
  match c with
  | CAlt alts => forallb (fun gs => order_ok gs tags) alts
  | CAll _ => true
  | CSimple _ => false
  end.

(* attributes: every "@a" field is a leaf of a declared attribute with an admissible kind; every required
   attribute is a required field of the table or supplied outside it ([given]) *)
Fixpoint attr_fields_ok (decl : list (string * string * bool)) (fs : fields) : bool :=
  match fs with
  | FNil => true
  | FCons t _ f r =>
      (if is_attr_tag t then
         match f, attr_decl (attr_name t) decl with
         | FLeaf k, Some sn => match lookup sn (s_simple sch) with Some st => leaf_ok k st | None => false end
         | _, _ => false
         end
       else true) && attr_fields_ok decl r
  end.
Fixpoint has_req_field (a : string) (fs : fields) : bool :=
  match fs with
  | FNil => false
  | FCons t m _ r => (String.eqb t (String "@" a) && match m with MReq => true | _ => false end) || has_req_field a r
  end.
Definition req_attrs_ok (given : list string) (decl : list (string * string * bool)) (fs : fields) : bool :=
  forallb (fun d => match d with (n, _, req) => negb req || existsb (String.eqb n) given || has_req_field n fs end) decl.
Definition given_ok (given : list string) (decl : list (string * string * bool)) : bool :=
  forallb (fun n => match attr_decl n decl with Some _ => true | None => false end) given.

(* the non-recursive part of the comparison of a record with a complex type: its content model, if the
   attributes and the element order conform *)
Definition rec_content (given : list string) (ty : tyref) (fs : fields) : option content :=
  match ty with
  | TS _ => None
  | TC n => match lookup n (s_complex sch) with
            | None => None
            | Some ct =>
                match c_content ct with
                | CSimple _ => None
                | c => if attr_fields_ok (c_attrs ct) fs && req_attrs_ok given (c_attrs ct) fs &&
                          given_ok given (c_attrs ct) && order_conform c (elem_tags fs)
                       then Some c else None
                end
            end
  end.

Fixpoint conforms (ty : tyref) (f : fmt) {struct f} : bool :=
  match f with
  | FLeaf k => match leaf_type ty with Some st => leaf_ok k st | None => false end
  | FRec fs =>
      match ty with
      | TS n => match fs with FNil => simple_accepts sch n EmptyString | _ => false end
      | TC _ => match rec_content [] ty fs with Some c => conforms_fields c fs | None => false end
      end
  | FAny al =>
      match ty with
      | TC n => match lookup n (s_complex sch) with
                | Some ct => match c_attrs ct, c_content ct with
                             | [], CAlt [[g]] => conforms_alts g al
                             | _, _ => false
                             end
                | None => false
                end
      | TS _ => false
      end
  end
with conforms_fields (c : content) (fs : fields) {struct fs} : bool :=
  match fs with
  | FNil => true
  | FCons t _ f r =>
      (if is_attr_tag t then true
       else match child_type c t with Some ty' => conforms ty' f | None => true end) && conforms_fields c r
  end
with conforms_alts (g : group) (al : alts) {struct al} : bool :=
  match al with
  | ANil => true
  | ACons t f r => negb (is_attr_tag t) &&
                   match elem_type t (g_elems g) with Some ty' => conforms ty' f | None => false end &&
                   conforms_alts g r
  end.

(* the whole document: the root record, with the attributes the writer supplies outside the table *)
Definition conforms_doc (given : list string) (f : fmt) : bool :=
  match f with
  | FRec fs => match rec_content given (s_root_type sch) fs with Some c => conforms_fields c fs | None => false end
  | _ => false
  end.

(* ================================================================== value-level condition (DESIGN 2.7) *)
(* what a leaf VALUE must satisfy: positive where the schema says so, integer ranges, enumeration membership *)
Definition leaf_expr (st : stype) (a : atom) : bool :=
  match a with
  | ANum q => match st_min_ex st with Some _ => negb (Qle_bool q 0) | None => true end
  | AInt z => int_prim_ok (st_prim st) z && facets_ok st (inject_Z z)
  | AStr s => accepts st s
  | ABool _ => true
  end.

(* how many children each element field contributes *)
Definition count_of (m : mult) (v : val) : nat :=
  match m, v with
  | MReq, _ => 1
  | MOpt, VSome _ => 1
  | MMany, VList l => List.length l
  | _, _ => 0
  end.
Fixpoint blocks (fs : fields) (vs : list val) : list (string * nat) :=
  match fs, vs with
  | FCons t m _ r, v :: vs' => if is_attr_tag t then blocks r vs' else (t, count_of m v) :: blocks r vs'
  | _, _ => []
  end.
Definition count_in (g : group) (bs : list (string * nat)) : nat :=
  fold_right (fun b acc => if in_group g (fst b) then (snd b + acc)%nat else acc) 0%nat bs.
(* the counts fit a sequence / an all-group: every field that contributes children belongs to a group, and
   each group receives a number of children within its occurrence bounds *)
Definition counts_fit (gs : list group) (bs : list (string * nat)) : bool :=
  forallb (fun b => Nat.eqb (snd b) 0 || in_any gs (fst b)) bs &&
  forallb (fun g => range_ok g (count_in g bs)) gs.
Definition counts_ok (c : content) (bs : list (string * nat)) : bool :=
  match c with
  | CAlt alts => existsb (fun gs => counts_fit gs bs) alts
  | CAll gs => counts_fit gs bs
  | CSimple _ => false
  end.

Definition field_type (ct : ctype) (t : string) : option tyref :=
  if is_attr_tag t then option_map TS (attr_decl (attr_name t) (c_attrs ct)) else child_type (c_content ct) t.

Fixpoint expressible (ty : tyref) (f : fmt) (v : val) {struct f} : bool :=
  match f, v with
  | FLeaf _, VAtom a => match leaf_type ty with Some st => leaf_expr st a | None => false end
  | FRec fs, VRec vs =>
      match ty with
      | TS _ => true
      | TC n => match lookup n (s_complex sch) with
                | Some ct => counts_ok (c_content ct) (blocks fs vs) && expr_fields ct fs vs
                | None => false
                end
      end
  | FAny al, VList items =>
      match ty with
      | TC n => match lookup n (s_complex sch) with
                | Some ct => match c_content ct with
                             | CAlt [[g]] =>
                                 range_ok g (List.length items) &&
                                 forallb (fun it => match it with
                                                    | VAlt i v' => expr_alt g al i v'
                                                    | _ => false
                                                    end) items
                             | _ => false
                             end
                | None => false
                end
      | TS _ => false
      end
  | _, _ => false
  end
with expr_fields (ct : ctype) (fs : fields) (vs : list val) {struct fs} : bool :=
  match fs, vs with
  | FCons t m f r, v :: vs' =>
      match field_type ct t with
      | Some ty' => match m, v with
                    | MReq, _ => expressible ty' f v
                    | MOpt, VSome v' => expressible ty' f v'
                    | MMany, VList l => forallb (expressible ty' f) l
                    | _, _ => true
                    end
      | None => true
      end && expr_fields ct r vs'
  | _, _ => true
  end
with expr_alt (g : group) (al : alts) (i : nat) (v : val) {struct al} : bool :=
  match al, i with
  | ANil, _ => false
  | ACons t f _, O => match elem_type t (g_elems g) with Some ty' => expressible ty' f v | None => false end
  | ACons _ _ r, S j => expr_alt g r j v
  end.

End Conform.
