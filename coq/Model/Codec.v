(* Model/Codec.v — "the format as data" (DESIGN 3, 5/C01-C03): a generic writer / reader pair over a
   format description, used for the XML scenario format (tables generated into Gen/XmlFmt.v from the
   format description the harness also uses to extract values from the Python objects) and for
   protobuf message trees.
   - the writer emits the children of a record in table order; a field is required, optional or repeated;
   - the reader looks children up by tag (ElementTree find / findall; protobuf HasField / repeated);
   - an [FAny] element holds an ordered list of alternatives distinguished by tag (shape lists).
   Attributes of XML elements are children whose tag starts with "@".  Leaves carry typed atoms; the
   textual form of numbers is the subject of Model/DecStr.v. *)
From Coq Require Import QArith ZArith String List Bool.
Import ListNotations.
Open Scope string_scope.
Open Scope list_scope.

Inductive atom := ANum (q : Q) | AInt (z : Z) | AStr (s : string) | ABool (b : bool).
Inductive akind := KNum | KInt | KStr | KBool.

Definition kind_ok (k : akind) (a : atom) : bool :=
  match k, a with
  | KNum, ANum _ | KInt, AInt _ | KStr, AStr _ | KBool, ABool _ => true
  | _, _ => false
  end.

Inductive tree := Node (tag : string) (kids : list tree) | Leaf (tag : string) (a : atom).
Definition tag_of (t : tree) : string := match t with Node g _ => g | Leaf g _ => g end.

Inductive val :=
| VAtom (a : atom)
| VRec (vs : list val)
| VList (vs : list val)
| VNone
| VSome (v : val)
| VAlt (i : nat) (v : val).

Inductive mult := MReq | MOpt | MMany.

Inductive fmt :=
| FLeaf (k : akind)
| FRec (fs : fields)
| FAny (al : alts)
with fields := FNil | FCons (tag : string) (m : mult) (f : fmt) (rest : fields)
with alts := ANil | ACons (tag : string) (f : fmt) (rest : alts).

Fixpoint field_tags (fs : fields) : list string :=
  match fs with FNil => [] | FCons t _ _ r => t :: field_tags r end.
Fixpoint alt_tags (al : alts) : list string :=
  match al with ANil => [] | ACons t _ r => t :: alt_tags r end.
Fixpoint nth_alt (al : alts) (i : nat) : option (string * fmt) :=
  match al, i with
  | ANil, _ => None
  | ACons t f _, O => Some (t, f)
  | ACons _ _ r, S j => nth_alt r j
  end.

(* all-or-nothing map *)
Fixpoint mapM {A B} (f : A -> option B) (l : list A) : option (list B) :=
  match l with
  | [] => Some []
  | x :: r => match f x, mapM f r with Some y, Some ys => Some (y :: ys) | _, _ => None end
  end.

(* ------------------------------------------------------------------ writer *)
(* the items of an [FAny] element: each must be [VAlt i v], written by alternative i *)
Definition write_items (wa : nat -> val -> option tree) : list val -> option (list tree) :=
  fix go (its : list val) : option (list tree) :=
    match its with
    | [] => Some []
    | VAlt i v :: r => match wa i v, go r with Some x, Some xs => Some (x :: xs) | _, _ => None end
    | _ :: _ => None
    end.

Fixpoint write (f : fmt) (tag : string) (v : val) {struct f} : option tree :=
  match f, v with
  | FLeaf k, VAtom a => if kind_ok k a then Some (Leaf tag a) else None
  | FRec fs, VRec vs =>
      match write_fields fs vs with Some ks => Some (Node tag ks) | None => None end
  | FAny al, VList items =>
      (* every item is [VAlt i v]; it is written with the i-th alternative *)
      match write_items (write_alt al) items with
      | Some ks => Some (Node tag ks)
      | None => None
      end
  | _, _ => None
  end
with write_fields (fs : fields) (vs : list val) {struct fs} : option (list tree) :=
  match fs, vs with
  | FNil, [] => Some []
  | FCons t m f rest, v :: vs' =>
      let grp :=
        match m, v with
        | MReq, _ => match write f t v with Some x => Some [x] | None => None end
        | MOpt, VNone => Some []
        | MOpt, VSome v' => match write f t v' with Some x => Some [x] | None => None end
        | MMany, VList l => mapM (write f t) l
        | _, _ => None
        end in
      match grp, write_fields rest vs' with
      | Some g, Some ks => Some (g ++ ks)
      | _, _ => None
      end
  | _, _ => None
  end
with write_alt (al : alts) (i : nat) (v : val) {struct al} : option tree :=
  match al, i with
  | ANil, _ => None
  | ACons t f _, O => write f t v
  | ACons _ _ r, S j => write_alt r j v
  end.

(* ------------------------------------------------------------------ reader *)
Definition findall (t : string) (ks : list tree) : list tree :=
  filter (fun k => String.eqb (tag_of k) t) ks.

Fixpoint read (f : fmt) (x : tree) {struct f} : option val :=
  match f, x with
  | FLeaf k, Leaf _ a => if kind_ok k a then Some (VAtom a) else None
  | FRec fs, Node _ ks =>
      match read_fields fs ks with Some vs => Some (VRec vs) | None => None end
  | FAny al, Node _ ks =>
      match mapM (read_alt al O) ks with Some vs => Some (VList vs) | None => None end
  | _, _ => None
  end
with read_fields (fs : fields) (ks : list tree) {struct fs} : option (list val) :=
  match fs with
  | FNil => Some []
  | FCons t m f rest =>
      let found := findall t ks in
      let v :=
        match m with
        | MReq => match found with x :: _ => read f x | [] => None end               (* find(tag) *)
        | MOpt => match found with x :: _ => option_map VSome (read f x) | [] => Some VNone end
        | MMany => option_map VList (mapM (read f) found)                              (* findall(tag) *)
        end in
      match v, read_fields rest ks with
      | Some v', Some vs => Some (v' :: vs)
      | _, _ => None
      end
  end
with read_alt (al : alts) (i : nat) (x : tree) {struct al} : option val :=
  match al with
  | ANil => None
  | ACons t f r => if String.eqb (tag_of x) t then option_map (VAlt i) (read f x) else read_alt r (S i) x
  end.

(* ------------------------------------------------------------------ well-formedness of a table *)
Fixpoint distinct (l : list string) : bool :=
  match l with
  | [] => true
  | x :: r => negb (existsb (String.eqb x) r) && distinct r
  end.

Fixpoint wf (f : fmt) : bool :=
  match f with
  | FLeaf _ => true
  | FRec fs => distinct (field_tags fs) && wf_fields fs
  | FAny al => distinct (alt_tags al) && wf_alts al
  end
with wf_fields (fs : fields) : bool :=
  match fs with FNil => true | FCons _ _ f r => wf f && wf_fields r end
with wf_alts (al : alts) : bool :=
  match al with ANil => true | ACons _ f r => wf f && wf_alts r end.
