(* Model/CacheTable.v — a class that keeps values derived from its attributes, as a table of what its public setters
   do to those derived values.  Used for the setters of Rectangle / Circle / Polygon (C06), Lanelet, TrajectoryPrediction
   and Obstacle (C11); the tables are parsed from the source on every run (Gen/Src_cachetable.v,
   harness/props/cache_src.py), the dependency lists are derived from what the filling code reads.

     attribute a (a number)        a primary attribute: assigned by the constructor and by its setter
     cache k (a number)            a derived attribute; [deps k] = the attributes its value is computed from;
                                   None = not computed yet (filled by the first query)
     effect of a setter            EStore     self._a = <argument>
                                   EDrop k    self._k = None / del self.k (cached_property)
                                   ERebuild k self._k = <value computed from the current attributes>
     setter                        s_main: the effects that always happen, in order; s_tail: effects behind a
                                   condition or an early return (they happen or not: the Boolean of the operation)

   [compute k p] is what filling cache k gives when the attributes are p (abstract).  A state is coherent when every
   filled cache holds [compute k] of the current attributes — then every query answers what a freshly constructed
   object with the same attributes answers.  [setter_ok]: after the (single) store, every cache that depends on the
   stored attribute is dropped or rebuilt among the effects that always happen, and the tail stores nothing.
   [from_table T]: the operations whose setters are rows of the table T. *)
From Coq Require Import List Bool Arith.
Import ListNotations.

Inductive eff := EStore | EDrop (k : nat) | ERebuild (k : nat).
Record setter := { s_attr : nat; s_main : list eff; s_tail : list eff }.

Definition memn (x : nat) (l : list nat) : bool := existsb (Nat.eqb x) l.
Definition remn (x : nat) (l : list nat) : list nat := filter (fun y => negb (Nat.eqb x y)) l.

Section CacheTable.
  Variable val : Type.
  Variable caches : list nat.                         (* the cache numbers of the class *)
  Variable deps : nat -> list nat.
  Variable compute : nat -> (nat -> val) -> val.

  Definition prims := nat -> val.
  Definition cvals := nat -> option val.
  Definition st := (prims * cvals)%type.
  Definition upd {B} (f : nat -> B) (i : nat) (v : B) : nat -> B := fun j => if Nat.eqb j i then v else f j.

  Definition estep (a : nat) (x : val) (s : st) (e : eff) : st :=
    let (p, c) := s in
    match e with
    | EStore => (upd p a x, c)
    | EDrop k => (p, upd c k None)
    | ERebuild k => (p, upd c k (Some (compute k p)))
    end.
  Definition erun (a : nat) (x : val) (l : list eff) (s : st) : st := fold_left (estep a x) l s.

  Inductive op := OSet (s : setter) (x : val) (tail : bool) | OQuery (k : nat).
  (* a query fills the cache if it is empty and answers its content *)
  Definition query (k : nat) (s : st) : st * val :=
    let (p, c) := s in
    match c k with
    | Some v => (s, v)
    | None => let v := compute k p in ((p, upd c k (Some v)), v)
    end.
  Definition step (s : st) (o : op) : st :=
    match o with
    | OSet t x tail => let s1 := erun (s_attr t) x (s_main t) s in
                       if tail then erun (s_attr t) x (s_tail t) s1 else s1
    | OQuery k => fst (query k s)
    end.
  Definition run (s : st) (ops : list op) : st := fold_left step ops s.

  Definition coherent (s : st) : Prop := forall k v, In k caches -> snd s k = Some v -> v = compute k (fst s).
  (* the freshly constructed object with the same attributes: nothing computed yet *)
  Definition rebuilt (s : st) : st := (fst s, fun _ => None).

  (* ---- the check on a setter: [stale] = the caches that may hold a value of the attributes before the store *)
  Definition stale_step (a : nat) (acc : option (list nat)) (e : eff) : option (list nat) :=
    match e, acc with
    | EStore, None => Some (filter (fun k => memn a (deps k)) caches)
    | EStore, Some l => Some (filter (fun k => memn a (deps k)) caches ++ l)
    | EDrop k, Some l | ERebuild k, Some l => Some (remn k l)
    | _, None => None
    end.
  Definition is_store (e : eff) : bool := match e with EStore => true | _ => false end.
  Definition setter_ok (t : setter) : bool :=
    match fold_left (stale_step (s_attr t)) (s_main t) None with
    | Some [] | None => forallb (fun e => negb (is_store e)) (s_tail t)     (* None: the setter stores nothing *)
    | _ => false
    end.
  Definition op_ok (o : op) : bool := match o with OSet t _ _ => setter_ok t | OQuery _ => true end.
  Definition from_table (T : list setter) (o : op) : Prop := match o with OSet t _ _ => In t T | OQuery _ => True end.
End CacheTable.

Arguments OSet {val}. Arguments OQuery {val}.
