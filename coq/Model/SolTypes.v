(* Model/SolTypes.v — data types shared by the generated tables (Gen/Tables_C14.v, Gen/Xsd_solution.v) and
   the solution-format model (Model/SolutionFmt.v).  Types only. *)
From Coq Require Import String List ZArith.
Import ListNotations.

(* one entry of an XMLStateFields list: a plain name, or a tuple of names (("x","y") for position) *)
Inductive xml_entry := XName (s : string) | XTuple (l : list string).

(* the tables of commonroad/common/solution.py, keyed by enum member *name* as the code does
   (StateFields[self.name], XMLStateFields[self.name], StateType[self.name], SupportedCostFunctions[vm.name]) *)
Record tables := {
  t_fields : list (string * list string);         (* StateFields *)
  t_xml : list (string * list xml_entry);         (* XMLStateFields *)
  t_stype : list (string * string);               (* StateType: name -> tag of a state node *)
  t_ttype : list (string * string);               (* TrajectoryType: name -> tag of a trajectory node *)
  t_vmodel : list (string * Z);                   (* VehicleModel *)
  t_vtype : list (string * Z);                    (* VehicleType *)
  t_cost : list (string * Z);                     (* CostFunction *)
  t_supported : list (string * list string);      (* SupportedCostFunctions: vehicle model name -> cost names *)
  t_valid_vm : list (string * list string);       (* TrajectoryType.valid_vehicle_model, tabulated *)
  t_reader : list (string * (string * list string)) (* reader's state_types: StateType name -> class, attributes *)
}.

(* element trees as ElementTree holds them: tag, attributes in insertion order, children, text *)
Inductive xml := Node (tag : string) (attrs : list (string * string)) (kids : list xml) (text : string).
Definition tag_of (x : xml) : string := match x with Node t _ _ _ => t end.
Definition attrs_of (x : xml) := match x with Node _ a _ _ => a end.
Definition kids_of (x : xml) := match x with Node _ _ k _ => k end.
Definition text_of (x : xml) := match x with Node _ _ _ t => t end.

(* the XSD subset the solution schema uses *)
Inductive stype := TFloat | TInt | TString | TDateTime.
Inductive ckind := KSeq | KAll.
Record xattr := mk_xattr { xa_name : string; xa_type : stype; xa_required : bool }.
Inductive xtype :=
| XSimple (t : stype)
| XComplex (k : ckind) (els : xelems) (attrs : list xattr)
with xelems :=
| XNil
| XCons (name : string) (mn : nat) (mx : option nat) (t : xtype) (rest : xelems).
