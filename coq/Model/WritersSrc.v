(* Model/WritersSrc.v — the step language into which harness/props/c15_src.py parses, on every run, the bodies of
   XMLFileWriter.write_to_file / write_scenario_to_file (common/writer/file_writer_xml.py) and
   ProtobufFileWriter.write_to_file / write_scenario_to_file (file_writer_protobuf.py) (Gen/Src_writers.v):

     filename = self._handle_file_path(filename, overwrite_existing_file); if not filename: return       WPolicy
        (or the same policy written out in the method; _handle_file_path itself is compared with its expected text)
     self._root_node = etree.Element("commonRoad")  |  self._commonroad_msg = commonroad_pb2.CommonRoad()  WReset
     precision.decimals = self._decimal_precision                                                          WSetPrec
     self._write_header()                                                                                   WHeader
     self._add_all_objects_from_scenario()                                                                  WObjects
     self._add_all_planning_problems_from_planning_problem_set()                                            WProblems
     if check_validity: <reads only>                                                                        WValidate
     tree = etree.ElementTree(self._root_node); tree.write(filename, ...)  |  self._serialize_write_msg(filename)   WEmit

   Meaning: the steps run in order on the tree / message the writer holds and on the global precision; WPolicy ends the
   call when the file exists and the mode says so; WEmit serialises what the writer holds at that moment.
   Proofs/SrcWriters.v proves that the parsed step lists compute [step repaired] of Model/Writers.v for Write /
   WriteScenario (hence the C15 theorems, which are about [repaired], are about the source). *)
From Coq Require Import List Bool Arith.
Import ListNotations.
From CR Require Import Model.Writers.

Inductive wstep := WPolicy | WReset | WSetPrec | WHeader | WObjects | WProblems | WValidate | WEmit.
Inductive init_form := InitSetsPrecision.          (* FileWriter.__init__: precision.decimals = decimal_precision *)
Inductive policy_form := PolicyStd.                (* _handle_file_path *)

Section WritersSrc.
  Variable A : Type.
  Variables key value node bytes : Type.
  Variable key_eqb : key -> key -> bool.
  Variable header : A -> list (key * value).
  Variable objects : A -> nat -> list node.
  Variable problems : A -> nat -> list node.
  Variable ser_xml : list (key * value) -> list node -> bytes.
  Variable pb_header pb_objects pb_problems : A -> list node.
  Variable ser_pb : list node -> bytes.

  (* what a write call has in hand while it runs *)
  Record wrun := { r_attrs : list (key * value); r_kids : list node; r_g : nat;
                   r_out : option bytes; r_done : bool }.

  Definition wstep_apply (f : fmt) (prec : nat) (a : A) (skip : bool) (r : wrun) (st : wstep) : wrun :=
    if r_done r then r else
    match st with
    | WPolicy => if skip then {| r_attrs := r_attrs r; r_kids := r_kids r; r_g := r_g r; r_out := None; r_done := true |}
                 else r
    | WReset => {| r_attrs := []; r_kids := []; r_g := r_g r; r_out := r_out r; r_done := false |}
    | WSetPrec => {| r_attrs := r_attrs r; r_kids := r_kids r; r_g := prec; r_out := r_out r; r_done := false |}
    | WHeader =>
        match f with
        | XML => {| r_attrs := set_attrs key value key_eqb (header a) (r_attrs r); r_kids := r_kids r; r_g := r_g r;
                    r_out := r_out r; r_done := false |}
        | PB => {| r_attrs := r_attrs r; r_kids := r_kids r ++ pb_header a; r_g := r_g r; r_out := r_out r; r_done := false |}
        end
    | WObjects =>
        {| r_attrs := r_attrs r;
           r_kids := r_kids r ++ (match f with XML => objects a (r_g r) | PB => pb_objects a end);
           r_g := r_g r; r_out := r_out r; r_done := false |}
    | WProblems =>
        {| r_attrs := r_attrs r;
           r_kids := r_kids r ++ (match f with XML => problems a (r_g r) | PB => pb_problems a end);
           r_g := r_g r; r_out := r_out r; r_done := false |}
    | WValidate => r
    | WEmit => {| r_attrs := r_attrs r; r_kids := r_kids r; r_g := r_g r;
                  r_out := Some (match f with XML => ser_xml (r_attrs r) (r_kids r) | PB => ser_pb (r_kids r) end);
                  r_done := true |}
    end.

  Notation world := (world A key value node bytes).
  Notation wstate := (wstate A key value node).

  (* a write call of writer w (in state ws) that runs the step list prog *)
  Definition exec_write (prog : list wstep) (s : world) (w : nat) (ws : wstate) (path : nat) (m : mode)
    : world * out bytes :=
    let skip := skips (file_exists A key value node bytes path s) m in
    let r0 := {| r_attrs := w_attrs A key value node ws; r_kids := w_kids A key value node ws;
                 r_g := gprec A key value node bytes s; r_out := None; r_done := false |} in
    let r := fold_left (wstep_apply (w_fmt A key value node ws) (w_prec A key value node ws) (w_args A key value node ws) skip)
                       prog r0 in
    match r_out r with
    | None => (s, OSkipped)
    | Some b =>
        let ws' := {| w_fmt := w_fmt A key value node ws; w_prec := w_prec A key value node ws;
                      w_args := w_args A key value node ws;
                      w_attrs := r_attrs r; w_kids := r_kids r |} in
        ({| gprec := r_g r; writers := update w ws' (writers A key value node bytes s);
            files := update path b (files A key value node bytes s) |}, OWritten path b)
    end.
End WritersSrc.
