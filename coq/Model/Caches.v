(* Model/Caches.v — C11: primary data + caches, every public mutator with exactly the caches the code
   invalidates or rebuilds (after the repairs of fix-g5), queries filling the lazily computed caches.

   Transcribed from (line numbers of the repaired tree):
     commonroad/prediction/prediction.py   TrajectoryPrediction: occupancy_set cached_property (290-298),
                                           shape / trajectory setters (305-328), translate_rotate (372-388),
                                           Prediction.occupancy_at_time_step (121-138)
     commonroad/scenario/obstacle.py       initial_state setter (240-255), occupancy_at_time / state_at_time
                                           (612-642), translate_rotate (644-663), update_initial_state (665-712),
                                           update_prediction (714-725), StaticObstacle (401-435)
     commonroad/scenario/lanelet.py        Lanelet: _distance/_inner_distance/_polygon (147-150, 293-314),
                                           translate_rotate (603-643), convert_to_2d (645-662);
                                           LaneletNetwork: _create_strtree (1571-1601), remove_lanelet (1603-1616),
                                           add_lanelet (1789-1811), add_lanelets_from_network (1923-1937),
                                           translate_rotate (1939-1969), find_lanelet_by_position / _by_shape
     commonroad/scenario/traffic_light.py  TrafficLightCycle setters (141-158), cycle_init_timesteps (168-180),
                                           get_state_at_time_step (182-187)
     commonroad/scenario/scenario.py       translate_rotate (1297-1314), add_objects(lanelet), remove_lanelet (943-968),
                                           occupancies_at_time_step (1046-1071)

   The recomputation functions (what a cache holds when it is filled) and the geometry are abstract:
   they are the fields of a [world], a Section variable.  The theorems are about invalidation logic only. *)
From Coq Require Import List ZArith Bool Arith.
Import ListNotations.

Record world := {
  (* primary data *)
  shape : Type; traj : Type; state : Type; setpred : Type; sigst : Type; ids : Type; sigser : Type;
  motion : Type; verts : Type; colour : Type;
  (* derived data and answers *)
  oshape : Type; occ : Type; occs : Type; ring : Type; dists : Type; geom : Type; cum : Type;
  qarg : Type; ans : Type;
  (* recomputation *)
  occ_of : shape -> traj -> occs;            (* TrajectoryPrediction._create_occupancy_set *)
  oshape_of : shape -> state -> oshape;      (* occupancy_shape_from_state *)
  poly_of : verts -> ring;                   (* Polygon(concatenate(right, flip(left))) *)
  dist_of : verts -> dists;                  (* _compute_polyline_cumsum_dist([center]) *)
  inner_of : verts -> dists;                 (* _compute_polyline_cumsum_dist([left, right]) *)
  geom_of : ring -> geom;                    (* polygon.shapely_object *)
  cum_of : list (colour * Z) -> Z -> cum;    (* insert(cumsum(durations) + offset, 0, offset) *)
  (* mutation of primary data *)
  move_traj : motion -> traj -> traj;
  move_state : motion -> state -> state;
  move_set : motion -> setpred -> setpred;
  move_verts : motion -> verts -> verts;
  to2d : verts -> verts;
  (* reading *)
  time_of : state -> Z;
  mk_occ : Z -> oshape -> occ;               (* Occupancy(t, shape) *)
  occ_lookup : occs -> Z -> option occ;      (* Prediction.occupancy_at_time_step over a list of occupancies *)
  set_lookup : setpred -> Z -> option occ;
  traj_state : traj -> Z -> option state;    (* Trajectory.state_at_time_step *)
  interp_of : dists -> verts -> qarg -> ans; (* Lanelet.interpolate_position *)
  contains_of : ring -> qarg -> ans;         (* Lanelet.contains_points *)
  hit_pt : geom -> qarg -> bool;             (* STRtree dwithin for one point *)
  hit_shape : geom -> qarg -> bool;          (* STRtree query + intersects *)
  light_state : list (colour * Z) -> Z -> cum -> Z -> option colour   (* get_state_at_time_step body *)
}.

Inductive exn := AssertionError | AttributeError.

(* Python l[-m:] for m > 0 *)
Definition lastn {A} (m : nat) (l : list A) : list A := skipn (length l - m) l.

Section Caches.
  Variable W : world.

  (* ================================================================ TrajectoryPrediction *)
  Record pred := { p_shape : shape W; p_traj : traj W; p_occ : option (occs W) }.

  Inductive pop :=
  | PSetShape (s : shape W) | PSetTraj (t : traj W) | PMove (m : motion W)
  | PQOccSet | PQOccAt (t : Z).
  Inductive pres := PRUnit | PROccs (c : occs W) | PROcc (o : option (occ W)).

  Definition p_fresh (s : shape W) (t : traj W) : pred := {| p_shape := s; p_traj := t; p_occ := None |}.
  (* _invalidate_occupancy_set: delete the cached attribute if present *)
  Definition p_invalidate (p : pred) : pred := {| p_shape := p_shape p; p_traj := p_traj p; p_occ := None |}.
  (* functools.cached_property occupancy_set *)
  Definition p_fill (p : pred) : pred * occs W :=
    match p_occ p with
    | Some c => (p, c)
    | None => let c := occ_of W (p_shape p) (p_traj p) in
              ({| p_shape := p_shape p; p_traj := p_traj p; p_occ := Some c |}, c)
    end.

  Definition pstep (p : pred) (o : pop) : pred * pres :=
    match o with
    | PSetShape s => (p_invalidate {| p_shape := s; p_traj := p_traj p; p_occ := p_occ p |}, PRUnit)
    | PSetTraj t => (p_invalidate {| p_shape := p_shape p; p_traj := t; p_occ := p_occ p |}, PRUnit)
    | PMove m => (p_invalidate {| p_shape := p_shape p; p_traj := move_traj W m (p_traj p); p_occ := p_occ p |},
                  PRUnit)
    | PQOccSet => let (p', c) := p_fill p in (p', PROccs c)
    | PQOccAt t => let (p', c) := p_fill p in (p', PROcc (occ_lookup W c t))
    end.

  Definition p_prim (p : pred) : shape W * traj W := (p_shape p, p_traj p).
  Definition p_build (x : shape W * traj W) : pred := p_fresh (fst x) (snd x).
  Definition PCoh (p : pred) : Prop := forall c, p_occ p = Some c -> c = occ_of W (p_shape p) (p_traj p).

  (* ================================================================ obstacles *)
  Inductive prediction := PTraj (p : pred) | PSet (sp : setpred W) | PNone.
  Inductive pprim := PPTraj (s : shape W) (t : traj W) | PPSet (sp : setpred W) | PPNone.
  Definition pred_prim (p : prediction) : pprim :=
    match p with PTraj q => PPTraj (p_shape q) (p_traj q) | PSet sp => PPSet sp | PNone => PPNone end.
  Definition pred_build (p : pprim) : prediction :=
    match p with PPTraj s t => PTraj (p_fresh s t) | PPSet sp => PSet sp | PPNone => PNone end.

  (* the stored data of an obstacle other than its prediction; none of it is derived *)
  Record odata := {
    d_static : bool;                                              (* StaticObstacle / DynamicObstacle *)
    d_shape : shape W; d_init : state W;
    d_sig : option (sigst W); d_cen : option (ids W); d_shp : option (ids W); d_series : option (sigser W);
    d_hist : list (state W); d_sighist : list (option (sigst W));
    d_cenhist : list (option (ids W)); d_shphist : list (option (ids W)) }.
  Record obst := { o_data : odata;
                   o_init_occ : oshape W;        (* _initial_occupancy_shape, always filled *)
                   o_pred : prediction }.

  Inductive oop :=
  | OSetInit (st : state W)
  | OMove (m : motion W)
  | OUpdateInit (cur : state W) (sg : option (sigst W)) (cen shp : option (ids W)) (maxlen : nat)
  | OUpdatePred (p : pprim) (ser : option (sigser W))   (* the argument is an object the caller has just built *)
  | OSetPred (p : pprim)
  | OPred (o : pop)                 (* an operation on obstacle.prediction, a TrajectoryPrediction *)
  | OQOcc (t : Z) | OQState (t : Z).
  Inductive ores := ORUnit | ORErr (e : exn) | OROcc (o : option (occ W)) | ORState (s : option (state W))
                  | ORPred (r : pres).

  Definition d_set_init (d : odata) (st : state W) : odata :=
    {| d_static := d_static d; d_shape := d_shape d; d_init := st;
       d_sig := d_sig d; d_cen := d_cen d; d_shp := d_shp d; d_series := d_series d;
       d_hist := d_hist d; d_sighist := d_sighist d; d_cenhist := d_cenhist d; d_shphist := d_shphist d |}.
  Definition d_set_series (d : odata) (ser : option (sigser W)) : odata :=
    {| d_static := d_static d; d_shape := d_shape d; d_init := d_init d;
       d_sig := d_sig d; d_cen := d_cen d; d_shp := d_shp d; d_series := ser;
       d_hist := d_hist d; d_sighist := d_sighist d; d_cenhist := d_cenhist d; d_shphist := d_shphist d |}.
  (* update_initial_state, statement by statement: append the current initial values to the four histories,
     install the new ones, drop the signal series, truncate all four when len(history) > max_history_length *)
  Definition d_update_init (d : odata) cur sg cen shp (m : nat) : odata :=
    let h := d_hist d ++ [d_init d] in
    let sh := d_sighist d ++ [d_sig d] in
    let ch := d_cenhist d ++ [d_cen d] in
    let ph := d_shphist d ++ [d_shp d] in
    let trunc := Nat.ltb m (length h) in
    {| d_static := d_static d; d_shape := d_shape d; d_init := cur;
       d_sig := sg; d_cen := cen; d_shp := shp; d_series := None;
       d_hist := if trunc then lastn m h else h;
       d_sighist := if trunc then lastn m sh else sh;
       d_cenhist := if trunc then lastn m ch else ch;
       d_shphist := if trunc then lastn m ph else ph |}.

  (* initial_state setter: stores the state and recomputes the initial occupancy shape *)
  Definition o_set_init (o : obst) (st : state W) : obst :=
    {| o_data := d_set_init (o_data o) st; o_init_occ := oshape_of W (d_shape (o_data o)) st; o_pred := o_pred o |}.
  Definition o_with_pred (o : obst) (p : prediction) : obst :=
    {| o_data := o_data o; o_init_occ := o_init_occ o; o_pred := p |}.

  Definition pred_move (m : motion W) (p : prediction) : prediction :=
    match p with
    | PTraj q => PTraj (fst (pstep q (PMove m)))
    | PSet sp => PSet (move_set W m sp)
    | PNone => PNone
    end.

  Definition o_time (o : obst) : Z := time_of W (d_init (o_data o)).

  Definition ostep (o : obst) (op : oop) : obst * ores :=
    match op with
    | OSetInit st => (o_set_init o st, ORUnit)
    | OMove m =>
        (* prediction first, then the initial state through its setter *)
        let o1 := o_with_pred o (pred_move m (o_pred o)) in
        (o_set_init o1 (move_state W m (d_init (o_data o1))), ORUnit)
    | OUpdateInit cur sg cen shp m =>
        if Nat.ltb 0 m
        then ({| o_data := d_update_init (o_data o) cur sg cen shp m;
                 o_init_occ := oshape_of W (d_shape (o_data o)) cur; o_pred := PNone |}, ORUnit)
        else (o, ORErr AssertionError)
    | OUpdatePred p ser =>
        ({| o_data := d_set_series (o_data o) ser; o_init_occ := o_init_occ o; o_pred := pred_build p |}, ORUnit)
    | OSetPred p => (o_with_pred o (pred_build p), ORUnit)
    | OPred po =>
        match o_pred o with
        | PTraj q => let (q', r) := pstep q po in (o_with_pred o (PTraj q'), ORPred r)
        | _ => (o, ORErr AttributeError)
        end
    | OQOcc t =>
        if d_static (o_data o) then (o, OROcc (Some (mk_occ W t (o_init_occ o))))   (* StaticObstacle.occupancy_at_time *)
        else if Z.eqb t (o_time o) then (o, OROcc (Some (mk_occ W t (o_init_occ o))))
        else if Z.ltb (o_time o) t then
          match o_pred o with
          | PTraj q => let (q', r) := pstep q (PQOccAt t) in
                       (o_with_pred o (PTraj q'), OROcc (match r with PROcc x => x | _ => None end))
          | PSet sp => (o, OROcc (set_lookup W sp t))
          | PNone => (o, OROcc None)
          end
        else (o, OROcc None)
    | OQState t =>
        if d_static (o_data o) then (o, ORState (Some (d_init (o_data o))))
        else if Z.eqb t (o_time o) then (o, ORState (Some (d_init (o_data o))))
        else match o_pred o with
             | PSet _ => (o, ORState None)
             | PTraj q => if Z.ltb (o_time o) t then (o, ORState (traj_state W (p_traj q) t))
                          else (o, ORState None)
             | PNone => (o, ORState None)
             end
    end.

  (* primary data of an obstacle: everything but the two caches *)
  Definition o_prim (o : obst) : odata * pprim := (o_data o, pred_prim (o_pred o)).
  (* the constructor: Obstacle.__init__ runs the initial_state setter *)
  Definition o_build (x : odata * pprim) : obst :=
    {| o_data := fst x; o_init_occ := oshape_of W (d_shape (fst x)) (d_init (fst x)); o_pred := pred_build (snd x) |}.

  Definition PredCoh (p : prediction) : Prop := match p with PTraj q => PCoh q | _ => True end.
  Definition OCoh (o : obst) : Prop :=
    o_init_occ o = oshape_of W (d_shape (o_data o)) (d_init (o_data o)) /\ PredCoh (o_pred o).
  (* admissible: prediction-level operations need a trajectory prediction; a static obstacle has no prediction and
     no history operations *)
  Definition o_ok (o : obst) (op : oop) : bool :=
    match op with
    | OPred _ => negb (d_static (o_data o)) && match o_pred o with PTraj _ => true | _ => false end
    | OUpdateInit _ _ _ _ _ | OUpdatePred _ _ | OSetPred _ => negb (d_static (o_data o))
    | _ => true
    end.
  Definition OInv (o : obst) : Prop := OCoh o /\ (d_static (o_data o) = true -> o_pred o = PNone).

  (* ================================================================ Lanelet *)
  Record lanelet := { l_id : Z; l_verts : verts W; l_poly : ring W;      (* _polygon: always filled *)
                      l_dist : option (dists W); l_inner : option (dists W) }.
  Inductive lop := LMove (m : motion W) | LConv2d
                 | LSetVerts (v : verts W)     (* left_vertices / right_vertices / center_vertices setters (fix 5260073) *)
                 | LQPoly | LQDist | LQInner | LQInterp (x : qarg W) | LQContains (x : qarg W).
  Inductive lres := LRUnit | LRRing (r : ring W) | LRDists (d : dists W) | LRAns (a : ans W).

  Definition l_build (x : Z * verts W) : lanelet :=
    {| l_id := fst x; l_verts := snd x; l_poly := poly_of W (snd x); l_dist := None; l_inner := None |}.
  Definition l_prim (l : lanelet) : Z * verts W := (l_id l, l_verts l).
  (* translate_rotate / convert_to_2d: new vertices, polygon rebuilt, cached distances dropped *)
  Definition l_set_verts (l : lanelet) (v : verts W) : lanelet :=
    {| l_id := l_id l; l_verts := v; l_poly := poly_of W v; l_dist := None; l_inner := None |}.
  Definition l_fill_dist (l : lanelet) : lanelet * dists W :=
    match l_dist l with
    | Some d => (l, d)
    | None => let d := dist_of W (l_verts l) in
              ({| l_id := l_id l; l_verts := l_verts l; l_poly := l_poly l; l_dist := Some d;
                  l_inner := l_inner l |}, d)
    end.
  Definition l_fill_inner (l : lanelet) : lanelet * dists W :=
    match l_inner l with
    | Some d => (l, d)
    | None => let d := inner_of W (l_verts l) in
              ({| l_id := l_id l; l_verts := l_verts l; l_poly := l_poly l; l_dist := l_dist l;
                  l_inner := Some d |}, d)
    end.
  Definition lstep (l : lanelet) (o : lop) : lanelet * lres :=
    match o with
    | LMove m => (l_set_verts l (move_verts W m (l_verts l)), LRUnit)
    | LConv2d => (l_set_verts l (to2d W (l_verts l)), LRUnit)
    | LSetVerts v => (l_set_verts l v, LRUnit)
    | LQPoly => (l, LRRing (l_poly l))
    | LQDist => let (l', d) := l_fill_dist l in (l', LRDists d)
    | LQInner => let (l', d) := l_fill_inner l in (l', LRDists d)
    | LQInterp x => let (l', d) := l_fill_dist l in (l', LRAns (interp_of W d (l_verts l) x))
    | LQContains x => (l, LRAns (contains_of W (l_poly l) x))
    end.
  Definition LCoh (l : lanelet) : Prop :=
    l_poly l = poly_of W (l_verts l) /\
    (forall d, l_dist l = Some d -> d = dist_of W (l_verts l)) /\
    (forall d, l_inner l = Some d -> d = inner_of W (l_verts l)).
  Definition l_is_query (o : lop) : bool := match o with LMove _ | LConv2d | LSetVerts _ => false | _ => true end.

  (* ================================================================ TrafficLightCycle (and the light holding it) *)
  Record cycle := { c_elems : list (colour W * Z); c_off : Z; c_active : bool; c_cum : option (cum W) }.
  Inductive cop := CSetElems (e : list (colour W * Z)) | CSetOffset (k : Z) | CSetActive (b : bool)
                 | CReplace (e : list (colour W * Z)) (k : Z) (b : bool)   (* light.traffic_light_cycle = new cycle *)
                 | CQInit | CQState (t : Z).
  Inductive cres := CRUnit | CRCum (c : cum W) | CRState (s : option (colour W)).
  Definition c_build (x : list (colour W * Z) * Z * bool) : cycle :=
    {| c_elems := fst (fst x); c_off := snd (fst x); c_active := snd x; c_cum := None |}.
  Definition c_prim (c : cycle) := (c_elems c, c_off c, c_active c).
  (* cycle_init_timesteps: computed when the attribute does not exist yet *)
  Definition c_fill (c : cycle) : cycle * cum W :=
    match c_cum c with
    | Some x => (c, x)
    | None => let x := cum_of W (c_elems c) (c_off c) in
              ({| c_elems := c_elems c; c_off := c_off c; c_active := c_active c; c_cum := Some x |}, x)
    end.
  Definition cstep (c : cycle) (o : cop) : cycle * cres :=
    match o with
    | CSetElems e => ({| c_elems := e; c_off := c_off c; c_active := c_active c; c_cum := None |}, CRUnit)
    | CSetOffset k => ({| c_elems := c_elems c; c_off := k; c_active := c_active c; c_cum := None |}, CRUnit)
    | CSetActive b => ({| c_elems := c_elems c; c_off := c_off c; c_active := b; c_cum := c_cum c |}, CRUnit)
    | CReplace e k b => (c_build (e, k, b), CRUnit)
    | CQInit => let (c', x) := c_fill c in (c', CRCum x)
    | CQState t => let (c', x) := c_fill c in (c', CRState (light_state W (c_elems c) (c_off c) x t))
    end.
  Definition CCoh (c : cycle) : Prop := forall x, c_cum c = Some x -> x = cum_of W (c_elems c) (c_off c).

  (* ================================================================ LaneletNetwork *)
  Record net := { n_lanelets : list lanelet;                (* _lanelets, insertion order *)
                  n_buffered : list (Z * geom W);           (* _buffered_polygons *)
                  n_tree : option (list (Z * geom W));      (* _strtee + _lanelet_id_index_by_id *)
                  n_lights : list cycle }.
  Inductive nop :=
  | NAdd (l : Z * verts W) (rtree : bool)
  | NRemove (i : Z) (rtree : bool)
  | NAddFrom (ls : list (Z * verts W))
  | NMove (m : motion W)
  | NLanelet (k : nat) (o : lop)       (* an operation on the k-th member lanelet *)
  | NLight (k : nat) (o : cop)         (* an operation on the cycle of the k-th traffic light *)
  | NQPos (x : qarg W) | NQShape (x : qarg W).
  Inductive nres := NRUnit | NRBool (b : bool) | NRErr (e : exn) | NRIds (l : list Z)
                  | NRLanelet (r : option lres) | NRLight (r : option cres).

  Definition entry (l : lanelet) : Z * geom W := (l_id l, geom_of W (l_poly l)).
  Definition has_id (i : Z) (ls : list lanelet) : bool := existsb (fun l => Z.eqb (l_id l) i) ls.
  (* _create_strtree: the index is rebuilt from the buffered polygons *)
  Definition create_tree (n : net) : net :=
    {| n_lanelets := n_lanelets n; n_buffered := n_buffered n; n_tree := Some (n_buffered n);
       n_lights := n_lights n |}.
  Definition n_add (n : net) (x : Z * verts W) (rtree : bool) : net * bool :=
    if has_id (fst x) (n_lanelets n) then (n, false)
    else let l := l_build x in
         let n1 := {| n_lanelets := n_lanelets n ++ [l]; n_buffered := n_buffered n ++ [entry l];
                      n_tree := n_tree n; n_lights := n_lights n |} in
         (if rtree then create_tree n1 else n1, true).
  Definition n_remove (n : net) (i : Z) (rtree : bool) : net :=
    let n1 := if has_id i (n_lanelets n)
              then {| n_lanelets := filter (fun l => negb (Z.eqb (l_id l) i)) (n_lanelets n);
                      n_buffered := filter (fun e => negb (Z.eqb (fst e) i)) (n_buffered n);
                      n_tree := n_tree n; n_lights := n_lights n |}
              else n in
    if rtree then create_tree n1 else n1.
  (* add_lanelets_from_network: flag = flag and self.add_lanelet(la, rtree=False) — once the flag is False the
     right operand is no longer evaluated, i.e. the remaining lanelets are skipped *)
  Fixpoint n_add_all (n : net) (ls : list (Z * verts W)) (flag : bool) : net * bool :=
    match ls with
    | [] => (n, flag)
    | x :: r => if flag then let (n', b) := n_add n x false in n_add_all n' r b else n_add_all n r false
    end.
  Definition n_move (n : net) (m : motion W) : net :=
    let ls := map (fun l => fst (lstep l (LMove m))) (n_lanelets n) in
    create_tree {| n_lanelets := ls; n_buffered := map entry ls; n_tree := n_tree n; n_lights := n_lights n |}.

  Fixpoint drop_nth {A} (k : nat) (l : list A) : list A :=
    match l, k with
    | [], _ => []
    | _ :: r, O => r
    | x :: r, S k' => x :: drop_nth k' r
    end.
  (* Scenario.remove_traffic_light for each index in turn *)
  Definition n_drop_lights (n : net) (ks : list nat) : net :=
    {| n_lanelets := n_lanelets n; n_buffered := n_buffered n; n_tree := n_tree n;
       n_lights := fold_left (fun l k => drop_nth k l) ks (n_lights n) |}.

  Fixpoint upd_nth {A} (k : nat) (f : A -> A) (l : list A) : list A :=
    match l, k with
    | [], _ => []
    | x :: r, O => f x :: r
    | x :: r, S k' => x :: upd_nth k' f r
    end.

  Definition nstep (n : net) (o : nop) : net * nres :=
    match o with
    | NAdd x rtree => let (n', b) := n_add n x rtree in (n', NRBool b)
    | NRemove i rtree => (n_remove n i rtree, NRUnit)
    | NAddFrom ls => let (n', b) := n_add_all n ls true in (create_tree n', NRBool b)
    | NMove m => (n_move n m, NRUnit)
    | NLanelet k lo =>
        ({| n_lanelets := upd_nth k (fun l => fst (lstep l lo)) (n_lanelets n); n_buffered := n_buffered n;
            n_tree := n_tree n; n_lights := n_lights n |},
         NRLanelet (option_map (fun l => snd (lstep l lo)) (nth_error (n_lanelets n) k)))
    | NLight k co =>
        ({| n_lanelets := n_lanelets n; n_buffered := n_buffered n; n_tree := n_tree n;
            n_lights := upd_nth k (fun c => fst (cstep c co)) (n_lights n) |},
         NRLight (option_map (fun c => snd (cstep c co)) (nth_error (n_lights n) k)))
    | NQPos x => match n_tree n with
                 | None => (n, NRErr AttributeError)
                 | Some t => (n, NRIds (map fst (filter (fun e => hit_pt W (snd e) x) t)))
                 end
    | NQShape x => match n_tree n with
                   | None => (n, NRErr AttributeError)
                   | Some t => (n, NRIds (map fst (filter (fun e => hit_shape W (snd e) x) t)))
                   end
    end.

  Record nprim := { np_lanelets : list (Z * verts W); np_lights : list (list (colour W * Z) * Z * bool) }.
  Definition n_prim (n : net) : nprim :=
    {| np_lanelets := map l_prim (n_lanelets n); np_lights := map c_prim (n_lights n) |}.
  (* LaneletNetwork() followed by add_lanelet for every lanelet *)
  Definition n_empty (lights : list cycle) : net :=
    {| n_lanelets := []; n_buffered := []; n_tree := None; n_lights := lights |}.
  Definition n_build (p : nprim) : net :=
    fold_left (fun n x => fst (n_add n x true)) (np_lanelets p) (n_empty (map c_build (np_lights p))).

  Definition NCoh (n : net) : Prop :=
    Forall LCoh (n_lanelets n) /\ Forall CCoh (n_lights n) /\
    NoDup (map l_id (n_lanelets n)) /\
    n_buffered n = map entry (n_lanelets n) /\
    (forall t, n_tree n = Some t -> t = n_buffered n) /\
    (n_tree n = None -> n_lanelets n = []).
  (* admissible (DESIGN 2.7): index-deferring calls (rtree=False) only inside add_lanelets_from_network; a member
     lanelet is only queried, never moved behind the network's back; lookups on a network that has lanelets *)
  Definition n_ok (n : net) (o : nop) : bool :=
    match o with
    | NAdd _ rtree | NRemove _ rtree => rtree
    | NLanelet _ lo => l_is_query lo
    | NQPos _ | NQShape _ => negb (match n_lanelets n with [] => true | _ => false end)
    | _ => true
    end.

  (* ================================================================ Scenario *)
  Record scen := { s_net : net; s_obst : list obst }.
  Inductive sop :=
  | SMove (m : motion W)
  | SAddLanelet (x : Z * verts W)
  | SRemoveLanelet (i : Z) (drop : list nat)   (* drop: indices of the traffic lights no other lanelet references,
                                                  removed first by remove_hanging_lanelet_members (an oracle input:
                                                  the lanelet-to-light references are not part of this model) *)
  | SNet (o : nop)                     (* scenario.lanelet_network.<op> *)
  | SObst (k : nat) (o : oop)          (* an operation on the k-th obstacle *)
  | SQOccs (t : Z).
  Inductive sres := SRUnit | SRNet (r : nres) | SRObst (r : option ores) | SROccs (l : list (occ W)).

  Fixpoint occs_at (os : list obst) (t : Z) : list obst * list (occ W) :=
    match os with
    | [] => ([], [])
    | o :: r =>
        (* occupancy_at_time is called twice per obstacle; the second call finds the cache filled *)
        let (o1, a1) := ostep o (OQOcc t) in
        let (o2, a2) := ostep o1 (OQOcc t) in
        let (r', l) := occs_at r t in
        (o2 :: r', match a1, a2 with OROcc (Some _), OROcc (Some x) => x :: l | _, _ => l end)
    end.

  Definition sstep (s : scen) (o : sop) : scen * sres :=
    match o with
    | SMove m => ({| s_net := n_move (s_net s) m; s_obst := map (fun ob => fst (ostep ob (OMove m))) (s_obst s) |},
                  SRUnit)
    | SAddLanelet x => let (n', r) := nstep (s_net s) (NAdd x true) in ({| s_net := n'; s_obst := s_obst s |}, SRNet r)
    | SRemoveLanelet i drop =>
        let (n', r) := nstep (n_drop_lights (s_net s) drop) (NRemove i true) in
        ({| s_net := n'; s_obst := s_obst s |}, SRNet r)
    | SNet no => let (n', r) := nstep (s_net s) no in ({| s_net := n'; s_obst := s_obst s |}, SRNet r)
    | SObst k oo => ({| s_net := s_net s; s_obst := upd_nth k (fun ob => fst (ostep ob oo)) (s_obst s) |},
                     SRObst (option_map (fun ob => snd (ostep ob oo)) (nth_error (s_obst s) k)))
    | SQOccs t => let (os, l) := occs_at (s_obst s) t in ({| s_net := s_net s; s_obst := os |}, SROccs l)
    end.

  Definition s_prim (s : scen) : nprim * list (odata * pprim) := (n_prim (s_net s), map o_prim (s_obst s)).
  Definition s_build (p : nprim * list (odata * pprim)) : scen := {| s_net := n_build (fst p); s_obst := map o_build (snd p) |}.
  Definition SCoh (s : scen) : Prop := NCoh (s_net s) /\ Forall OInv (s_obst s).
  Definition s_ok (s : scen) (o : sop) : bool :=
    match o with
    | SNet no => n_ok (s_net s) no
    | SObst k oo => match nth_error (s_obst s) k with Some ob => o_ok ob oo | None => true end
    | _ => true
    end.
End Caches.
