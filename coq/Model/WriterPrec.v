(* Model/WriterPrec.v — C01: which decimal precision is in force while a writer builds its file.
   commonroad/common/writer/file_writer_interface.py 10-14  DecimalPrecision / precision: ONE process-global setting;
     56-57  FileWriter.__init__ (XML and protobuf writers alike, reached through CommonRoadFileWriter or directly)
            stores self._decimal_precision and assigns the global;
   commonroad/common/writer/file_writer_xml.py 62-74  float_to_str reads the global when a numeric leaf is written;
     236-243 XMLFileWriter.write_to_file and 279-285 write_scenario_to_file: new root node, then
            precision.decimals = self._decimal_precision, then header / objects (/ planning problems);
   file_writer_protobuf.py: write methods do not consult the setting.
   A world is the global and, per writer object, the format and the precision of its (latest) construction.  The
   observable of a write step is the precision float_to_str will see, i.e. the global AFTER the statements that
   precede tree construction.  [reassert] says for which write method the re-assertion statement is present
   (the code as it is: both; the code as found before df37eef: neither), so the defect stays expressible. *)
From Coq Require Import Arith List Bool.
From CR Require Import Model.DecStr.
Import ListNotations.

Inductive kind := KXml | KPb.
Inductive api := ToFile | ScenarioOnly.

Inductive step :=
| New (w : nat) (k : kind) (d : nat)      (* construct writer object w: format k, decimal_precision d *)
| Write (w : nat) (a : api).              (* w.write_to_file(..) / w.write_scenario_to_file(..) *)

Record world := { glob : nat; objs : list (nat * (kind * nat)) }.

Fixpoint lookup (w : nat) (l : list (nat * (kind * nat))) : option (kind * nat) :=
  match l with
  | [] => None
  | (v, x) :: r => if Nat.eqb v w then Some x else lookup w r
  end.

Inductive out :=
| ONew
| OWrote (d : nat)     (* an XML file was built with float_to_str cutting at d decimals *)
| OWrotePb
| ONoWriter.

Definition set_glob (d : nat) (s : world) : world := {| glob := d; objs := objs s |}.

Definition exec_gen (reassert : api -> bool) (s : world) (st : step) : world * out :=
  match st with
  | New w k d => ({| glob := d; objs := (w, (k, d)) :: objs s |}, ONew)
  | Write w a =>
      match lookup w (objs s) with
      | None => (s, ONoWriter)
      | Some (KPb, _) => (s, OWrotePb)
      | Some (KXml, d) =>
          let s1 := if reassert a then set_glob d s else s in
          (s1, OWrote (glob s1))           (* the tree is built now: every float_to_str call reads glob s1 *)
      end
  end.

Definition as_is : api -> bool := fun _ => true.
Definition as_found : api -> bool := fun _ => false.
Definition exec := exec_gen as_is.

Fixpoint run_gen (re : api -> bool) (s : world) (h : list step) : world :=
  match h with [] => s | st :: r => run_gen re (fst (exec_gen re s st)) r end.
Definition run := run_gen as_is.

(* per step: (global after the step, outcome) — what the harness observes *)
Fixpoint trace_gen (re : api -> bool) (s : world) (h : list step) : list (nat * out) :=
  match h with
  | [] => []
  | st :: r => let (s1, o) := exec_gen re s st in (glob s1, o) :: trace_gen re s1 r
  end.
Definition trace := trace_gen as_is.

(* the text of a numeric leaf whose str() is x, written by a step with outcome o *)
Definition leaf (o : out) (x : dec) : option dec :=
  match o with OWrote d => Some (float_to_str d x) | _ => None end.

Definition world0 (g : nat) : world := {| glob := g; objs := [] |}.
