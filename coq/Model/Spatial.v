(* Model/Spatial.v — C06: spatial lookups of commonroad/scenario/lanelet.py and the point tests /
   exported geometry of commonroad/geometry/shape.py, over Q.

   Part 1  planar predicates: exact boundary-inclusive point-in-polygon (crossing number with the
           half-open rule + on-segment test), the convex half-plane test, bounding box.
           [pip] stands for GEOS' Polygon.intersects(Point) / dwithin(.., 1e-15); that it agrees with
           GEOS on simple rings is correspondence only (Corr/C06.v), nothing is proved about GEOS.
   Part 2  shapes: Rectangle (shape.py:27-243), Circle (246-351), Polygon (354-455),
           ShapeGroup (459-558): contains_point and the geometry exported by shapely_object.
           cos / sin of the rectangle orientation are oracles (extra fields [rcs], [rsn]).
   Part 3  the spatial index of LaneletNetwork (lanelet.py:1277-1315, 1432-1460, 1565-1610,
           1783-1805, 1917-1931, 1971-2010): _lanelets, _buffered_polygons, _strtee (its
           .geometries array) and _lanelet_id_index_by_id (id(polygon) -> lanelet id), maintained by
           the construction routes; object identity of a shapely polygon is a handle [ph : N].
   A Python exception is the value [Raise e]. *)
From Coq Require Import QArith ZArith NArith Bool List Qminmax.
From CR Require Import Base.QMod.
Import ListNotations.
Open Scope Q_scope.

Inductive exn := AttributeError | KeyError | AssertionError.
Inductive result (A : Type) : Type := Ret (a : A) | Raise (e : exn).
Arguments Ret {A} a.
Arguments Raise {A} e.

(* ------------------------------------------------------------------ Part 1: planar predicates *)
Definition pt := (Q * Q)%type.
Definition ring := list pt.          (* vertex list; the closing edge last -> first is implicit *)
Definition px (p : pt) : Q := fst p.
Definition py (p : pt) : Q := snd p.

(* (b - a) x (p - a): > 0 iff p is to the left of the directed line a -> b *)
Definition cross (a b p : pt) : Q :=
  (px b - px a) * (py p - py a) - (py b - py a) * (px p - px a).
(* (a - p) . (b - p): <= 0 for a point of the line ab iff it lies between a and b *)
Definition dotp (a b p : pt) : Q :=
  (px a - px p) * (px b - px p) + (py a - py p) * (py b - py p).

Definition on_seg (a b p : pt) : bool := if Qeq_bool (cross a b p) 0 then Qle_bool (dotp a b p) 0 else false.

(* the ray from p in direction +x crosses the edge a -> b (half-open rule: an edge contains its
   lower end point and not its upper one, horizontal edges never cross) *)
Definition crosses (a b p : pt) : bool :=
  let ya := Qlt_bool (py p) (py a) in
  let yb := Qlt_bool (py p) (py b) in
  if xorb ya yb then (if yb then Qlt_bool 0 (cross a b p) else Qlt_bool (cross a b p) 0) else false.

Fixpoint edges_from (first : pt) (l : list pt) : list (pt * pt) :=
  match l with
  | [] => []
  | a :: r => match r with
              | [] => [(a, first)]
              | b :: _ => (a, b) :: edges_from first r
              end
  end.
Definition edges (r : ring) : list (pt * pt) :=
  match r with [] => [] | a :: _ => edges_from a r end.

Definition on_boundary (r : ring) (p : pt) : bool :=
  existsb (fun e => on_seg (fst e) (snd e) p) (edges r).
Definition odd_crossings (r : ring) (p : pt) : bool :=
  fold_right (fun e acc => xorb (crosses (fst e) (snd e) p) acc) false (edges r).
(* point in closed polygon *)
Definition pip (r : ring) (p : pt) : bool := on_boundary r p || odd_crossings r p.

(* convex test for a clockwise ring: p is on the right of / on every edge *)
Definition inside_cw (r : ring) (p : pt) : bool :=
  forallb (fun e => Qle_bool (cross (fst e) (snd e) p) 0) (edges r).

(* axis-aligned bounding box of the vertices (Polygon._min / _max) *)
Definition in_bbox (r : ring) (p : pt) : bool :=
  match r with
  | [] => false
  | a :: t =>
      let xmin := fold_right (fun v m => Qmin (px v) m) (px a) t in
      let xmax := fold_right (fun v m => Qmax (px v) m) (px a) t in
      let ymin := fold_right (fun v m => Qmin (py v) m) (py a) t in
      let ymax := fold_right (fun v m => Qmax (py v) m) (py a) t in
      Qle_bool xmin (px p) && Qle_bool (px p) xmax && Qle_bool ymin (py p) && Qle_bool (py p) ymax
  end.

(* ------------------------------------------------------------------ Part 2: shapes *)
(* Rectangle(length, width, center, orientation); rcs / rsn = cos / sin of the orientation as
   returned by libm (rotation_translation_matrix uses exactly 1.0 / 0.0 when the angle is 0) *)
Record rect := { rl : Q; rw : Q; rcx : Q; rcy : Q; rcs : Q; rsn : Q }.
Record circ := { cr : Q; ccx : Q; ccy : Q }.

(* geometry/transform.py rotate_translate: first rotate about the origin, then translate *)
Definition rot_trans (cs sn tx ty : Q) (v : pt) : pt :=
  (cs * px v - sn * py v + tx, sn * px v + cs * py v + ty).
(* Rectangle._compute_vertices: five vertices, clockwise, closed *)
Definition local_corners (l w : Q) : ring :=
  [ (-(1#2) * l, -(1#2) * w); (-(1#2) * l, (1#2) * w); ((1#2) * l, (1#2) * w);
    ((1#2) * l, -(1#2) * w); (-(1#2) * l, -(1#2) * w) ].
Definition corners (R : rect) : ring :=
  map (rot_trans (rcs R) (rsn R) (rcx R) (rcy R)) (local_corners (rl R) (rw R)).

(* Rectangle.shapely_object = shapely Polygon(self.vertices); contains_point = that polygon
   .intersects(Point) *)
Definition rect_export (R : rect) : ring := corners R.
Definition rect_contains (R : rect) (p : pt) : bool := pip (rect_export R) p.

(* the set the property speaks about: the l-by-w box at the pose *)
Definition to_local (R : rect) (p : pt) : pt :=
  (rcs R * (px p - rcx R) + rsn R * (py p - rcy R),
   - rsn R * (px p - rcx R) + rcs R * (py p - rcy R)).
Definition in_box (R : rect) (p : pt) : Prop :=
  let q := to_local R p in
  -(1#2) * rl R <= px q /\ px q <= (1#2) * rl R /\ -(1#2) * rw R <= py q /\ py q <= (1#2) * rw R.

(* Circle.contains_point: radius >= norm(p - c).  With the exact square root this is
   0 <= r /\ |p - c|^2 <= r^2 (sqrt is the oracle; no rounding modelled). *)
Definition dist2 (cx cy : Q) (p : pt) : Q := (px p - cx) * (px p - cx) + (py p - cy) * (py p - cy).
Definition circ_contains (C : circ) (p : pt) : bool :=
  Qle_bool 0 (cr C) && Qle_bool (dist2 (ccx C) (ccy C) p) (cr C * cr C).
(* Circle.shapely_object = Point(center).buffer(radius / 2) (shape.py:241-243): the polygonal disc whose
   vertices lie on the circle of HALF the radius about the centre.  This is the code as it is: the defect is
   the recorded finding "Circle.shapely_object:radius" (its repair makes tests/common/test_file_reader.py::
   test_open_all fail, which pins the lanelet set {100} of a circular obstacle), see C06_circle_export_refuted *)
Definition circ_export_radius (C : circ) : Q := (1 # 2) * cr C.
Definition circ_exported (C : circ) : circ := {| cr := circ_export_radius C; ccx := ccx C; ccy := ccy C |}.
Definition in_disc (cx cy r : Q) (p : pt) : Prop := 0 <= r /\ dist2 cx cy p <= r * r.

(* Polygon.contains_point: bounding-box pre-test and shapely intersects *)
Definition poly_contains (r : ring) (p : pt) : bool := in_bbox r p && pip r p.

Inductive prim := PRect (R : rect) | PCirc (C : circ) | PPoly (r : ring).
Inductive shape := Prim (s : prim) | Group (ss : list prim).

Definition prim_contains (s : prim) (p : pt) : bool :=
  match s with
  | PRect R => rect_contains R p
  | PCirc C => circ_contains C p
  | PPoly r => poly_contains r p
  end.
(* ShapeGroup.contains_point: any member *)
Definition shape_contains (s : shape) (p : pt) : bool :=
  match s with
  | Prim s => prim_contains s p
  | Group ss => existsb (fun s => prim_contains s p) ss
  end.

(* the planar set denoted by the exported geometry *)
Definition prim_denotes (s : prim) (p : pt) : Prop :=
  match s with
  | PRect R => pip (rect_export R) p = true
  | PCirc C => in_disc (ccx C) (ccy C) (circ_export_radius C) p
  | PPoly r => pip r p = true
  end.
Definition shape_denotes (s : shape) (p : pt) : Prop :=
  match s with
  | Prim s => prim_denotes s p
  | Group ss => exists s, In s ss /\ prim_denotes s p   (* [sh.shapely_object for sh in shapes] *)
  end.

(* ---- executable intersection tests (closed sets).  They stand for GEOS' polygon.intersects(shape
   geometry); validated against GEOS by the correspondence only — no set-theoretic theorem is
   proved about them (the polygon/polygon part of C06 is an oracle as far as the proofs go). *)
Definition seg_meets (a b c d : pt) : bool :=
  let d1 := cross c d a in let d2 := cross c d b in
  let d3 := cross a b c in let d4 := cross a b d in
  if (Qlt_bool 0 d1 && Qlt_bool d2 0 || Qlt_bool d1 0 && Qlt_bool 0 d2) &&
     (Qlt_bool 0 d3 && Qlt_bool d4 0 || Qlt_bool d3 0 && Qlt_bool 0 d4) then true
  else if on_seg c d a then true else if on_seg c d b then true
  else if on_seg a b c then true else on_seg a b d.
(* bounding boxes (xmin, xmax, ymin, ymax): two closed sets can only meet if their boxes do; used to
   skip the exact tests for far-apart edges, as the STRtree query does for whole polygons *)
Definition box := (Q * Q * Q * Q)%type.
Definition box_of_seg (a b : pt) : box :=
  (Qmin (px a) (px b), Qmax (px a) (px b), Qmin (py a) (py b), Qmax (py a) (py b)).
Definition box_of_ring (r : ring) : option box :=
  match r with
  | [] => None
  | a :: t => Some (fold_right (fun v m => Qmin (px v) m) (px a) t, fold_right (fun v m => Qmax (px v) m) (px a) t,
                    fold_right (fun v m => Qmin (py v) m) (py a) t, fold_right (fun v m => Qmax (py v) m) (py a) t)
  end.
Definition boxes_meet (b1 b2 : box) : bool :=
  match b1, b2 with
  | (x0, x1, y0, y1), (u0, u1, v0, v1) =>
      if Qle_bool x0 u1 then if Qle_bool u0 x1 then if Qle_bool y0 v1 then Qle_bool v0 y1 else false else false else false
  end.
Definition ring_meets (r1 r2 : ring) : bool :=
  match box_of_ring r1, box_of_ring r2 with
  | Some b1, Some b2 =>
      if boxes_meet b1 b2 then
        if existsb (fun e1 =>
             let be1 := box_of_seg (fst e1) (snd e1) in
             if boxes_meet be1 b2 then
               existsb (fun e2 => if boxes_meet be1 (box_of_seg (fst e2) (snd e2))
                                  then seg_meets (fst e1) (snd e1) (fst e2) (snd e2) else false) (edges r2)
             else false) (edges r1) then true
        else if match r1 with [] => false | v :: _ => pip r2 v end then true
        else match r2 with [] => false | v :: _ => pip r1 v end
      else false
  | _, _ => false
  end.
(* squared distance from c to the segment ab, as a fraction-free comparison with r^2 *)
Definition seg_within (a b c : pt) (r2 : Q) : bool :=
  let ux := px b - px a in let uy := py b - py a in
  let wx := px c - px a in let wy := py c - py a in
  let uu := ux * ux + uy * uy in
  let t := wx * ux + wy * uy in
  if Qle_bool t 0 then Qle_bool (wx * wx + wy * wy) r2
  else if Qle_bool uu t then Qle_bool ((px c - px b) * (px c - px b) + (py c - py b) * (py c - py b)) r2
  else (* foot inside: dist^2 = |w|^2 - t^2/uu *) Qle_bool ((wx * wx + wy * wy) * uu - t * t) (r2 * uu).
Definition disc_meets_ring (C : circ) (r : ring) : bool :=
  if Qle_bool 0 (cr C) then
    let bc := (ccx C - cr C, ccx C + cr C, ccy C - cr C, ccy C + cr C) in
    match box_of_ring r with
    | None => false
    | Some br =>
        if boxes_meet bc br then
          if pip r (ccx C, ccy C) then true
          else existsb (fun e => if boxes_meet bc (box_of_seg (fst e) (snd e))
                                 then seg_within (fst e) (snd e) (ccx C, ccy C) (cr C * cr C) else false) (edges r)
        else false
    end
  else false.
Definition prim_meets_ring (s : prim) (r : ring) : bool :=
  match s with
  | PRect R => ring_meets (rect_export R) r
  | PCirc C => disc_meets_ring (circ_exported C) r   (* the lookups intersect with shape.shapely_object *)
  | PPoly q => ring_meets q r
  end.

(* ------------------------------------------------------------------ Part 3: the index *)
Record poly := { ph : N; pr : ring }.            (* a shapely polygon object: identity, coordinates *)
Record lanelet := { lid : Z; lpoly : poly }.     (* lanelet.polygon.shapely_object *)

Record net := {
  lanelets : list lanelet;        (* _lanelets : dict id -> Lanelet, insertion ordered *)
  buffered : list (Z * poly);     (* _buffered_polygons : dict id -> shapely polygon *)
  tree : option (list poly);      (* _strtee.geometries; None = attribute unset / None *)
  idmap : list (N * Z)            (* _lanelet_id_index_by_id : id(polygon) -> lanelet id *)
}.

(* LaneletNetwork.__init__ (the tree over no geometries) *)
Definition empty : net := {| lanelets := []; buffered := []; tree := Some []; idmap := [] |}.

Definition has_id (i : Z) (s : net) : bool := existsb (fun la => Z.eqb (lid la) i) (lanelets s).

(* dict[k] = v : replace in place or append *)
Fixpoint dict_set {V : Type} (k : Z) (v : V) (d : list (Z * V)) : list (Z * V) :=
  match d with
  | [] => [(k, v)]
  | (k', v') :: r => if Z.eqb k' k then (k, v) :: r else (k', v') :: dict_set k v r
  end.
Definition dict_has {V : Type} (k : Z) (d : list (Z * V)) : bool := existsb (fun e => Z.eqb (fst e) k) d.
Definition dict_del {V : Type} (k : Z) (d : list (Z * V)) : list (Z * V) :=
  filter (fun e => negb (Z.eqb (fst e) k)) d.

(* _create_strtree (every polygon is a shapely Polygon, so the isinstance filter keeps all) *)
Definition create_strtree (s : net) : net :=
  {| lanelets := lanelets s; buffered := buffered s;
     tree := Some (map snd (buffered s));
     idmap := map (fun e => (ph (snd e), fst e)) (buffered s) |}.

(* add_lanelet(lanelet, rtree) *)
Definition add_lanelet (la : lanelet) (rtree : bool) (s : net) : net * bool :=
  if has_id (lid la) s then (s, false)
  else
    let s1 := {| lanelets := lanelets s ++ [la];
                 buffered := dict_set (lid la) (lpoly la) (buffered s);
                 tree := tree s; idmap := idmap s |} in
    (if rtree then create_strtree s1 else s1, true).

(* remove_lanelet(lanelet_id, rtree); del d[k] on an absent key is a KeyError *)
Definition remove_lanelet (i : Z) (rtree : bool) (s : net) : net * result unit :=
  if has_id i s then
    let s1 := {| lanelets := filter (fun la => negb (Z.eqb (lid la) i)) (lanelets s);
                 buffered := buffered s; tree := tree s; idmap := idmap s |} in
    if dict_has i (buffered s) then
      let s2 := {| lanelets := lanelets s1; buffered := dict_del i (buffered s);
                   tree := tree s; idmap := idmap s |} in
      (if rtree then create_strtree s2 else s2, Ret tt)
    else (s1, Raise KeyError)
  else (if rtree then create_strtree s else s, Ret tt).

Definition add_all (ls : list lanelet) (s : net) : net :=
  fold_left (fun s la => fst (add_lanelet la false s)) ls s.

(* add_lanelets_from_network: every lanelet with rtree=False, one rebuild at the end *)
Definition add_from_network (ls : list lanelet) (s : net) : net := create_strtree (add_all ls s).

(* create_from_lanelet_list (also the XML / protobuf readers and create_from_lanelet_network):
   cls(), add_lanelet(copy, rtree=False) for each, _create_strtree().  The copies are the
   argument (fresh objects). *)
Definition from_list (ls : list lanelet) : net := create_strtree (add_all ls empty).

Definition rehandle_poly (f : N -> N) (p : poly) : poly := {| ph := f (ph p); pr := pr p |}.
Definition rehandle_lanelet (f : N -> N) (la : lanelet) : lanelet :=
  {| lid := lid la; lpoly := rehandle_poly f (lpoly la) |}.

(* __deepcopy__: every attribute copied (the copies are new objects: handles renamed by f; the id
   map is copied verbatim, i.e. stale; _strtee was set to None before), then
   result._create_strtree() and self._create_strtree() *)
Definition deepcopy_result (f : N -> N) (s : net) : net :=
  create_strtree {| lanelets := map (rehandle_lanelet f) (lanelets s);
                    buffered := map (fun e => (fst e, rehandle_poly f (snd e))) (buffered s);
                    tree := None; idmap := idmap s |}.
Definition deepcopy_self (s : net) : net :=
  create_strtree {| lanelets := lanelets s; buffered := buffered s; tree := None; idmap := idmap s |}.

(* pickle: __getstate__ drops _strtee; __setstate__ restores the dict (new objects, sharing kept,
   id map stale) and calls _create_strtree() *)
Definition unpickle (f : N -> N) (s : net) : net := deepcopy_result f s.

Inductive op :=
| OAdd (la : lanelet)                 (* add_lanelet(la) / Scenario.add_objects(lanelet) *)
| ORemove (i : Z)                     (* remove_lanelet(i) / Scenario.remove_lanelet *)
| OAddFrom (ls : list lanelet)        (* add_lanelets_from_network *)
| OFromList (ls : list lanelet)       (* create_from_lanelet_list, readers, cut-out: a fresh network *)
| ODeepcopy (f : N -> N)              (* copy.deepcopy, continue with the copy *)
| ODeepcopySelf                       (* copy.deepcopy, continue with the original *)
| OPickle (f : N -> N).               (* pickle.loads(pickle.dumps(.)) *)

Definition step (s : net) (o : op) : net :=
  match o with
  | OAdd la => fst (add_lanelet la true s)
  | ORemove i => fst (remove_lanelet i true s)
  | OAddFrom ls => add_from_network ls s
  | OFromList ls => from_list ls
  | ODeepcopy f => deepcopy_result f s
  | ODeepcopySelf => deepcopy_self s
  | OPickle f => unpickle f s
  end.
Definition run (ops : list op) (s : net) : net := fold_left step ops s.

(* admissibility: distinct live Python objects have distinct identities *)
Definition handles (s : net) : list N := map (fun la => ph (lpoly la)) (lanelets s).
Definition memN (h : N) (l : list N) : bool := existsb (N.eqb h) l.
Fixpoint nodupN (l : list N) : bool :=
  match l with [] => true | h :: r => negb (memN h r) && nodupN r end.
Definition fresh_list (ls : list lanelet) (old : list N) : bool :=
  nodupN (map (fun la => ph (lpoly la)) ls ++ old).
Definition ok (s : net) (o : op) : bool :=
  match o with
  | OAdd la => fresh_list [la] (handles s)
  | ORemove _ => true
  | OAddFrom ls => fresh_list ls (handles s)
  | OFromList ls => fresh_list ls []
  | ODeepcopy f | OPickle f => nodupN (map f (handles s))
  | ODeepcopySelf => true
  end.
Fixpoint all_ok (ops : list op) (s : net) : bool :=
  match ops with
  | [] => true
  | o :: r => ok s o && all_ok r (step s o)
  end.

(* ---- lookups *)
Fixpoint assocN (h : N) (m : list (N * Z)) : option Z :=
  match m with
  | [] => None
  | (h', i) :: r => if N.eqb h' h then Some i else assocN h r
  end.
(* the last binding wins in a Python dict comprehension; with distinct keys first = last *)

(* candidates in tree order; for each geometry satisfying the predicate the id map is consulted
   (_get_lanelet_id_by_shapely_polygon: KeyError if the object is unknown) *)
Fixpoint collect (m : list (N * Z)) (pred : ring -> bool) (geoms : list poly) : result (list Z) :=
  match geoms with
  | [] => Ret []
  | g :: r =>
      if pred (pr g) then
        match assocN (ph g) m with
        | None => Raise KeyError
        | Some i => match collect m pred r with
                    | Ret l => Ret (i :: l)
                    | Raise e => Raise e
                    end
        end
      else collect m pred r
  end.
Definition find_by (s : net) (pred : ring -> bool) : result (list Z) :=
  match tree s with
  | None => Raise AttributeError
  | Some g => collect (idmap s) pred g
  end.

(* find_lanelet_by_position for one point: STRtree.query(predicate="dwithin", distance=1e-15) *)
Definition find_by_position (s : net) (p : pt) : result (list Z) := find_by s (fun r => pip r p).
(* find_lanelet_by_shape: tree query + polygon.intersects(shape.shapely_object); the
   polygon / shape intersection test [meets] is GEOS, an oracle here *)
Definition find_by_shape (s : net) (meets : ring -> bool) : result (list Z) := find_by s meets.

(* the specification: brute-force scan over the current lanelets *)
Definition scan (s : net) (pred : ring -> bool) : list Z :=
  map lid (filter (fun la => pred (pr (lpoly la))) (lanelets s)).

(* Lanelet.contains_points = Polygon.contains_point of the lanelet polygon *)
Definition lanelet_contains (la : lanelet) (p : pt) : bool := poly_contains (pr (lpoly la)) p.
