(* Model/IdRemoveSrc.v — the statement language into which harness/props/c09_src.py parses, on every run, the removal
   methods of Scenario (remove_obstacle, remove_lanelet, remove_traffic_sign, remove_traffic_light, remove_intersection,
   erase_lanelet_network, replace_lanelet_network; commonroad/scenario/scenario.py), and its interpreter over the state of
   Model/IdPool.v.  Proofs/SrcIdRemove.v proves the parsed programs (Gen/Src_idremove.v) to compute the removal steps of
   Model/IdPool.v, which the C09 theorems are about.

   An element is seen through its id z and, for an intersection, the ids of its incoming elements:
     self.lanelet_network.remove_K(e.K_id)                          QNet K
     self._id_set.remove(e.K_id)                                    QId        (KeyError when absent)
     for inc in e.incomings: self._id_set.remove(inc.incoming_id)   QIncs
     del self._D[e.obstacle_id]                                     QDel role-of-D
     self._remove_*_obstacle_from_lanelets(...)                     QSkip      (lanelet registries: C07)
   A method handles a list argument either by calling itself for every element (LRecurse) or by a loop with its own
   statements (LInline b); remove_obstacle is a chain of `elif e.obstacle_id in self._D` branches, the last else only
   warns; remove_lanelet wraps a single lanelet into a list, removes the hanging signs / lights first when
   referenced_elements is set (remove_hanging of Model/IdPool.v: not parsed) and then loops.
   erase_lanelet_network is a list of loops over the network's element lists, as they are when each loop starts, followed
   by the assignment of an empty network; replace_lanelet_network is erase followed by add_objects. *)
From Coq Require Import ZArith List Bool.
Import ListNotations.
From CR Require Import Model.IdPool.
Open Scope Z_scope.

Inductive nkind := KLanelet | KSign | KLight | KInter.
Inductive rstmt := QNet (k : nkind) | QId | QIncs | QDel (r : role) | QSkip.
Inductive listmode := LRecurse | LInline (b : list rstmt).
Record rmeth := { rm_list : listmode; rm_body : list rstmt }.
Record ometh := { om_list : listmode; om_branches : list (role * list rstmt) }.
Record lmeth := { lm_default_refs : bool; lm_hanging_first : bool; lm_body : list rstmt }.
Inductive estmt := ELoop (k : nkind) | EReset.
Inductive pstmt := PErase | PAddNet.

Definition net_remove (k : nkind) (z : Z) : net -> net :=
  match k with
  | KLanelet => net_remove_lanelet z | KSign => net_remove_sign z
  | KLight => net_remove_light z | KInter => net_remove_inter z
  end.

Definition rstmt_run (z : Z) (incs : list Z) (st : rstmt) : M :=
  match st with
  | QNet k => on_net (net_remove k z)
  | QId => id_remove z
  | QIncs => loop id_remove incs
  | QDel r => pure (fun s => set_obst r s (sdel z (obst r s)))
  | QSkip => ret
  end.
Fixpoint rstmts_run (z : Z) (incs : list Z) (l : list rstmt) : M :=
  match l with [] => ret | a :: r => rstmt_run z incs a ;; rstmts_run z incs r end.

(* remove_traffic_sign / remove_traffic_light / remove_intersection *)
Definition run_single (m : rmeth) (z : Z) (incs : list Z) : M := rstmts_run z incs (rm_body m).
Definition run_list (m : rmeth) (l : list (Z * list Z)) : M :=
  match rm_list m with
  | LRecurse => loop (fun e => run_single m (fst e) (snd e)) l
  | LInline b => loop (fun e => rstmts_run (fst e) (snd e) b) l
  end.

(* remove_obstacle *)
Fixpoint run_branches (z : Z) (bs : list (role * list rstmt)) : M := fun s =>
  match bs with
  | [] => (s, None)                                             (* warning only *)
  | (r, body) :: rest => if mem z (obst r s) then rstmts_run z [] body s else run_branches z rest s
  end.
Definition run_obstacle (m : ometh) (z : Z) : M := run_branches z (om_branches m).
Definition run_obstacles (m : ometh) (l : list Z) : M :=
  match om_list m with
  | LRecurse => loop (run_obstacle m) l
  | LInline b => loop (fun z => rstmts_run z [] b) l
  end.

(* remove_lanelet *)
Definition run_lanelets (m : lmeth) (ls : list lanelet) (refs : bool) : M :=
  (if refs && lm_hanging_first m then remove_hanging ls else ret) ;;
  loop (fun l => rstmts_run (l_id l) [] (lm_body m)) ls.

(* erase_lanelet_network *)
Section Erase.
  Variables (rl : lmeth) (rs rt rx : rmeth).
  Definition erun (e : estmt) : M := fun s =>
    match e with
    | ELoop KLanelet =>
        loop (fun l s1 => run_lanelets rl [current_lanelet l s1] (lm_default_refs rl) s1) (n_lanelets (network s)) s
    | ELoop KSign => loop (fun z => run_single rs z []) (n_signs (network s)) s
    | ELoop KLight => loop (fun z => run_single rt z []) (n_lights (network s)) s
    | ELoop KInter => loop (fun x => run_single rx (x_id x) (x_incs x)) (n_inters (network s)) s
    | EReset => (set_network s empty_net, None)
    end.
  Fixpoint eruns (l : list estmt) : M :=
    match l with [] => ret | e :: r => erun e ;; eruns r end.

  (* replace_lanelet_network(n) *)
  Definition prun (erase_prog : list estmt) (n : net) (p : pstmt) : M :=
    match p with PErase => eruns erase_prog | PAddNet => add_one (ANet n) [] end.
  Fixpoint pruns (erase_prog : list estmt) (n : net) (l : list pstmt) : M :=
    match l with [] => ret | p :: r => prun erase_prog n p ;; pruns erase_prog n r end.
End Erase.

(* every removal operation and Replace, executed by parsed programs; the other operations as the model has them *)
Record removal_src := {
  rs_obstacle : ometh; rs_lanelet : lmeth; rs_sign : rmeth; rs_light : rmeth; rs_inter : rmeth;
  rs_erase : list estmt; rs_replace : list pstmt }.
Definition inter_view (x : inter) : Z * list Z := (x_id x, x_incs x).
Definition src_exec (P : removal_src) (o : op) : M :=
  match o with
  | RemoveObstacle z => run_obstacle (rs_obstacle P) z
  | RemoveObstacles l => run_obstacles (rs_obstacle P) l
  | RemoveLanelet l refs => run_lanelets (rs_lanelet P) [l] refs
  | RemoveLanelets l refs => run_lanelets (rs_lanelet P) l refs
  | RemoveSign z => run_single (rs_sign P) z []
  | RemoveSigns l => run_list (rs_sign P) (map (fun z => (z, [])) l)
  | RemoveLight z => run_single (rs_light P) z []
  | RemoveLights l => run_list (rs_light P) (map (fun z => (z, [])) l)
  | RemoveInter x => run_single (rs_inter P) (x_id x) (x_incs x)
  | RemoveInters l => run_list (rs_inter P) (map inter_view l)
  | Replace n => pruns (rs_lanelet P) (rs_sign P) (rs_light P) (rs_inter P) (rs_erase P) n (rs_replace P)
  | _ => exec o
  end.
Definition src_step (P : removal_src) (s : st) (o : op) : st * res :=
  match o with
  | Generate => step s o
  | _ => match src_exec P o s with (s1, None) => (s1, RUnit) | (s1, Some e) => (s1, RErr e) end
  end.

Definition canon_removal : removal_src := {|
  rs_obstacle := {| om_list := LRecurse;
                    om_branches := [(Static, [QSkip; QDel Static; QId]); (Dynamic, [QSkip; QDel Dynamic; QId]);
                                    (Env, [QDel Env; QId]); (Phantom, [QDel Phantom; QId])] |};
  rs_lanelet := {| lm_default_refs := true; lm_hanging_first := true; lm_body := [QNet KLanelet; QId] |};
  rs_sign := {| rm_list := LInline [QNet KSign; QId]; rm_body := [QNet KSign; QId] |};
  rs_light := {| rm_list := LInline [QNet KLight; QId]; rm_body := [QNet KLight; QId] |};
  rs_inter := {| rm_list := LRecurse; rm_body := [QNet KInter; QId; QIncs] |};
  rs_erase := [ELoop KLanelet; ELoop KSign; ELoop KLight; ELoop KInter; EReset];
  rs_replace := [PErase; PAddNet] |}.
