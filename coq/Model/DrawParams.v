(* Model/DrawParams.v — the draw-parameter trees of commonroad/visualization/draw_params.py as data, and the
   assignment semantics of BaseParam.__setattr__ (draw_params.py:26-52).

   A parameter group (an instance of a dataclass deriving from BaseParam) is a [node]: its class name and its
   declared fields in declaration order, each with its current value; a field whose value is itself a parameter
   group holds a [VNode].  The concrete trees (class table, the tree MPDrawParams() constructs) are NOT written
   here: they are regenerated from the source into Gen/Tables_C19.v on every run.

   BaseParam.__setattr__(self, name, value):
       if name in {f.name for f in dataclasses.fields(self)}:  super().__setattr__(name, value)
       if self.__initialized:
           for k, v in self.__dict__.items():
               if isinstance(v, BaseParam):  v.__setattr__(name, value)
   i.e. the value is stored in the group itself iff the group declares [name], and then handed to every nested
   group (whatever the name of the field that holds it), recursively.  [set] below is that function.  When the
   assigned value is itself a parameter group that (somewhere inside) declares [name], the implementation
   assigns into the argument while it walks it (and can recurse without bound); that is outside the model:
   [set_attr] answers [None] ([admissible] = false).  No value of a declared type has this shape (table
   obligation [no_self_nesting] in Proofs/DrawParams.v).
   The model is by value: after a parameter group has been assigned, the implementation holds the *same* object
   in every slot of that name; later assignments through one of these slots are therefore not covered (the
   correspondence uses group-valued assignments only as the last operation of a sequence). *)
From Coq Require Import ZArith QArith String List Bool.
Import ListNotations.
Open Scope string_scope.
Open Scope list_scope.

Inductive val :=
| VZ (z : Z)              (* int *)
| VB (b : bool)           (* bool *)
| VQ (q : Q)              (* float (exact value of the double) *)
| VS (s : string)         (* str *)
| VNone                   (* None *)
| VLZ (l : list Z)        (* list of ints (draw_ids, show_traffic_signs) *)
| VOpaque (tag : string)  (* any other value, compared by its printed form (kwargs dict) *)
| VNode (n : node)        (* nested parameter group *)
with node := Node (cls : string) (fs : list (string * val)).

Definition cls_of (n : node) : string := match n with Node c _ => c end.
Definition fields (n : node) : list (string * val) := match n with Node _ fs => fs end.

Fixpoint assoc {A : Type} (k : string) (l : list (string * A)) : option A :=
  match l with
  | [] => None
  | (k', x) :: r => if String.eqb k' k then Some x else assoc k r
  end.

Definition field (n : node) (k : string) : option val := assoc k (fields n).
Definition declares (n : node) (k : string) : bool := match field n k with Some _ => true | None => false end.

(* ---------------------------------------------------------------- assignment *)
Fixpoint set (name : string) (v : val) (n : node) {struct n} : node :=
  match n with
  | Node c fs =>
      Node c ((fix go (l : list (string * val)) : list (string * val) :=
                 match l with
                 | [] => []
                 | (k, x) :: r =>
                     (if String.eqb k name then (k, v)
                      else (k, match x with VNode m => VNode (set name v m) | _ => x end)) :: go r
                 end) fs)
  end.

(* what the assignment does to a field value that is not the assigned one: a nested group receives the
   assignment itself, anything else is left alone *)
Definition push (name : string) (v : val) (x : val) : val :=
  match x with VNode m => VNode (set name v m) | _ => x end.
Definition upd (name : string) (v : val) (kv : string * val) : string * val :=
  if String.eqb (fst kv) name then (fst kv, v) else (fst kv, push name v (snd kv)).

Fixpoint deep_declares (name : string) (n : node) {struct n} : bool :=
  match n with
  | Node _ fs =>
      (fix go (l : list (string * val)) : bool :=
         match l with
         | [] => false
         | (k, x) :: r =>
             String.eqb k name || match x with VNode m => deep_declares name m | _ => false end || go r
         end) fs
  end.

Definition admissible (name : string) (v : val) : bool :=
  match v with VNode m => negb (deep_declares name m) | _ => true end.

(* group.name = v *)
Definition set_attr (name : string) (v : val) (n : node) : option node :=
  if admissible name v then Some (set name v n) else None.

(* ---------------------------------------------------------------- reading along a path of nested groups *)
(* root.p1.p2...pn.k  : follow the group-valued fields p, then read field k *)
Fixpoint lookup (n : node) (p : list string) (k : string) : option val :=
  match p with
  | [] => field n k
  | c :: r => match field n c with Some (VNode m) => lookup m r k | _ => None end
  end.

Fixpoint subnode (n : node) (p : list string) : option node :=
  match p with
  | [] => Some n
  | c :: r => match field n c with Some (VNode m) => subnode m r | _ => None end
  end.

Definition descend (f : node -> node) (x : val) : val := match x with VNode m => VNode (f m) | _ => x end.

(* root.q1...qn.name = v  (the assignment is made on a nested group) *)
Fixpoint set_at (q : list string) (name : string) (v : val) (n : node) : node :=
  match q with
  | [] => set name v n
  | c :: r =>
      match n with
      | Node cl fs =>
          Node cl (map (fun kv : string * val =>
                          if String.eqb (fst kv) c
                          then (fst kv, descend (set_at r name v) (snd kv))
                          else kv) fs)
      end
  end.

Definition set_attr_at (q : list string) (name : string) (v : val) (n : node) : option node :=
  match subnode n q with
  | None => None                                   (* AttributeError: no such group *)
  | Some _ => if admissible name v then Some (set_at q name v n) else None
  end.

(* is the field  p.k  outside the group q and not on the way to it?  (then an assignment on q leaves it alone) *)
Fixpoint untouched (q p : list string) (k : string) : bool :=
  match q, p with
  | [], _ => false
  | c :: _, [] => negb (String.eqb k c)
  | c :: r, d :: s => if String.eqb c d then untouched r s k else true
  end.

(* ---------------------------------------------------------------- operation sequences *)
Record op := mkOp { op_path : list string; op_name : string; op_val : val }.

Fixpoint run (ops : list op) (n : node) : option node :=
  match ops with
  | [] => Some n
  | o :: r => match set_attr_at (op_path o) (op_name o) (op_val o) n with
              | Some n' => run r n'
              | None => None
              end
  end.

(* __post_init__: the three base fields of the new group are re-assigned so that they reach the nested groups *)
Definition post_init (n : node) : node :=
  let re (k : string) (m : node) := match field m k with Some x => set k x m | None => m end in
  re "antialiased" (re "time_end" (re "time_begin" n)).

(* MPDrawParams(k1=v1, ...): the generated __init__ stores the keyword arguments in the new group only (the flag
   __initialized is still False), the nested groups are built from their own defaults, then __post_init__ runs.
   [dflt] is the tree the class constructs without arguments. *)
Definition set_own (name : string) (v : val) (n : node) : node :=
  match n with
  | Node c fs => Node c (map (fun kv : string * val => if String.eqb (fst kv) name then (fst kv, v) else kv) fs)
  end.
Definition construct (kw : list (string * val)) (dflt : node) : node :=
  post_init (fold_left (fun n kv => set_own (fst kv) (snd kv) n) kw dflt).

(* ---------------------------------------------------------------- enumeration of the groups of a tree *)
Fixpoint all_paths (n : node) {struct n} : list (list string) :=
  match n with
  | Node _ fs =>
      [] :: (fix go (l : list (string * val)) : list (list string) :=
               match l with
               | [] => []
               | (k, x) :: r =>
                   match x with VNode m => map (cons k) (all_paths m) | _ => [] end ++ go r
               end) fs
  end.

(* ---------------------------------------------------------------- decidable equality (exact) *)
Fixpoint list_eqb {A : Type} (e : A -> A -> bool) (a b : list A) : bool :=
  match a, b with
  | [], [] => true
  | x :: r, y :: s => e x y && list_eqb e r s
  | _, _ => false
  end.

Fixpoint val_eqb (a b : val) {struct a} : bool :=
  match a, b with
  | VZ x, VZ y => Z.eqb x y
  | VB x, VB y => Bool.eqb x y
  | VQ x, VQ y => Qeq_bool x y
  | VS x, VS y => String.eqb x y
  | VNone, VNone => true
  | VLZ x, VLZ y => list_eqb Z.eqb x y
  | VOpaque x, VOpaque y => String.eqb x y
  | VNode n, VNode m => node_eqb n m
  | _, _ => false
  end
with node_eqb (n m : node) {struct n} : bool :=
  match n, m with
  | Node c fs, Node d gs =>
      String.eqb c d &&
      (fix go (l : list (string * val)) (g : list (string * val)) : bool :=
         match l, g with
         | [], [] => true
         | (k, x) :: r, (k', y) :: s => String.eqb k k' && val_eqb x y && go r s
         | _, _ => false
         end) fs gs
  end.

(* ---------------------------------------------------------------- class tables (generated) and conformance *)
Inductive fkind :=
| KInt | KBool | KFloat | KStr | KOptFloat | KOptStr | KOptIntList | KDict | KNode (cls : string).

Definition kind_ok (k : fkind) (v : val) : bool :=
  match k, v with
  | KInt, VZ _ => true
  | KBool, VB _ => true
  | KFloat, VQ _ | KFloat, VZ _ => true                   (* an int literal as the default of a float field *)
  | KStr, VS _ => true
  | KOptFloat, VQ _ | KOptFloat, VZ _ | KOptFloat, VNone => true
  | KOptStr, VS _ | KOptStr, VNone => true
  | KOptIntList, VLZ _ | KOptIntList, VNone => true
  | KDict, VOpaque _ => true
  | KNode c, VNode n => String.eqb c (cls_of n)
  | _, _ => false
  end.

Definition class_table := list (string * list (string * fkind)).

(* the group has exactly the fields its class declares, in order, with values of the declared kinds;
   nested groups likewise *)
Fixpoint conforms (T : class_table) (n : node) {struct n} : bool :=
  match n with
  | Node c fs =>
      match assoc c T with
      | None => false
      | Some decl =>
          (fix go (l : list (string * val)) (d : list (string * fkind)) : bool :=
             match l, d with
             | [], [] => true
             | (k, x) :: r, (k', kd) :: s =>
                 String.eqb k k' && kind_ok kd x &&
                 match x with VNode m => conforms T m | _ => true end && go r s
             | _, _ => false
             end) fs decl
      end
  end.

Fixpoint nodup_keys {A : Type} (l : list (string * A)) : bool :=
  match l with
  | [] => true
  | (k, _) :: r => match assoc k r with Some _ => false | None => nodup_keys r end
  end.

(* does class c, or a class reachable from it through group-valued fields, declare [name]? *)
Fixpoint cls_deep_declares (T : class_table) (fuel : nat) (name : string) (c : string) : bool :=
  match fuel with
  | O => true                                             (* out of fuel: answer conservatively *)
  | S f =>
      match assoc c T with
      | None => true
      | Some decl =>
          existsb (fun kd : string * fkind =>
                     String.eqb (fst kd) name ||
                     match snd kd with KNode d => cls_deep_declares T f name d | _ => false end) decl
      end
  end.

(* no group-valued field k of any class has a declared class that (deeply) declares k again: assigning a value of
   a declared type is always admissible *)
Definition no_self_nesting (T : class_table) : bool :=
  forallb (fun cd : string * list (string * fkind) =>
             forallb (fun kd : string * fkind =>
                        match snd kd with
                        | KNode d => negb (cls_deep_declares T (length T) (fst kd) d)
                        | _ => true
                        end) (snd cd)) T.
