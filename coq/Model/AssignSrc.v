(* Model/AssignSrc.v — the table into which harness/props/c07_src.py parses, on every run, the four registry helpers of
   commonroad.scenario.scenario.Scenario (Gen/Src_assign.v):

     _add_static_obstacle_to_lanelets(obstacle_id, lanelet_ids)        for which id sets the obstacle is ADDED to
     _remove_static_obstacle_from_lanelets(obstacle_id, lanelet_ids)   static_obstacles_on_lanelet / DISCARDED from it
     _add_dynamic_obstacle_to_lanelets(obstacle)                       the same for dynamic_obstacles_on_lanelet: at the
     _remove_dynamic_obstacle_from_lanelets(obstacle)                  initial time step, and per entry of an assignment dict

   An id set is initial_shape_lanelet_ids (IShape; also the lanelet_ids parameter: every call site passes
   <obstacle>.initial_shape_lanelet_ids, checked) or initial_center_lanelet_ids (ICenter); an assignment dict is
   prediction.shape_lanelet_assignment (DShape) or prediction.center_lanelet_assignment (DCenter).  The parser follows
   the loops, the tuples of sources, the local helper function and the None guards; the entries appear in execution
   order.  The parts about the prediction stand under `obstacle.prediction is not None` (the model's [tf W o]).
   Proofs/SrcAssign.v proves that the parsed table, interpreted, is add_static_to_lanelets / remove_static_from_lanelets /
   add_dynamic_to_lanelets / remove_dynamic_from_lanelets of Model/Assign.v, and that whatever is added is discarded. *)
From Coq Require Import ZArith Bool List.
Import ListNotations.
From CR Require Import Model.Assign.
Open Scope Z_scope.

Inductive isrc := IShape | ICenter.
Inductive dsrc := DShape | DCenter.
Record reg_prog := { rp_add_static : list isrc; rp_remove_static : list isrc;
                     rp_add_dyn_init : list isrc; rp_add_dyn_pred : list dsrc;
                     rp_remove_dyn_init : list isrc; rp_remove_dyn_pred : list dsrc }.

Definition isrc_eqb (a b : isrc) : bool := match a, b with IShape, IShape | ICenter, ICenter => true | _, _ => false end.
Definition dsrc_eqb (a b : dsrc) : bool := match a, b with DShape, DShape | DCenter, DCenter => true | _, _ => false end.

Section Run.
  Variable W : world.
  Definition ids_of (s : st) (o : Z) (x : isrc) : list Z :=
    opt_ids (match x with IShape => ish s o | ICenter => ic s o end).
  Definition dict_of (s : st) (o : Z) (x : dsrc) : dict :=
    opt_dict (match x with DShape => sa s o | DCenter => ca s o end).

  Definition run_add_static (p : reg_prog) (o : Z) (s : st) : st :=
    with_regs s (fold_left (fun sr x => sreg_add_all o (ids_of s o x) sr) (rp_add_static p) (sreg s)) (dreg s).
  Definition run_remove_static (p : reg_prog) (o : Z) (s : st) : st :=
    with_regs s (fold_left (fun sr x => sreg_discard_all o (ids_of s o x) sr) (rp_remove_static p) (sreg s)) (dreg s).
  Definition run_add_dynamic (p : reg_prog) (o : Z) (s : st) : st :=
    let dr1 := fold_left (fun dr x => dreg_add_all o (t0 W o) (ids_of s o x) dr) (rp_add_dyn_init p) (dreg s) in
    let dr2 := match tf W o with
               | Some _ => fold_left (fun dr x => dreg_add_dict o (dict_of s o x) dr) (rp_add_dyn_pred p) dr1
               | None => dr1
               end in
    with_regs s (sreg s) dr2.
  Definition run_remove_dynamic (p : reg_prog) (o : Z) (s : st) : st :=
    let dr1 := fold_left (fun dr x => dreg_discard_all o (t0 W o) (ids_of s o x) dr) (rp_remove_dyn_init p) (dreg s) in
    let dr2 := match tf W o with
               | Some _ => fold_left (fun dr x => dreg_discard_dict o (dict_of s o x) dr) (rp_remove_dyn_pred p) dr1
               | None => dr1
               end in
    with_regs s (sreg s) dr2.
End Run.

(* every set the obstacle is added for is a set it is discarded for *)
Definition covered (p : reg_prog) : bool :=
  forallb (fun x => existsb (isrc_eqb x) (rp_remove_static p)) (rp_add_static p) &&
  forallb (fun x => existsb (isrc_eqb x) (rp_remove_dyn_init p)) (rp_add_dyn_init p) &&
  forallb (fun x => existsb (dsrc_eqb x) (rp_remove_dyn_pred p)) (rp_add_dyn_pred p).
