(* Model/PbDesc.v — protobuf descriptors as data (property C02): the label and type of every field of a
   message type, as read from the *_pb2 modules, and the boolean judgement "a record table of the codec
   (Model/Codec.v) is a legal use of a message type":
   - every field of the table exists in the descriptor,
   - repeated <-> MMany; a field the .proto requires is MReq in the table (proto2 serialisation rejects a
     message with a required field unset, so such a field cannot be optional data),
   - the leaf kind fits the scalar type (double / integer family / bool / string; enums travel as names),
     a nested table stands at a message-typed field and equals one of the tables listed for that type,
   - every field the .proto requires is in the table (or explicitly ignored).
   [wire_ok] is what the protobuf runtime demands of a message tree: only known fields, a singular field at
   most once, every required field present. *)
From Coq Require Import String List Bool.
From CR Require Import Model.Codec.
Import ListNotations.
Open Scope string_scope.
Open Scope list_scope.

Inductive plabel := LOptional | LRequired | LRepeated.
Inductive ptype := PDouble | PInt | PBool | PString | PEnum (name : string) | PMsg (name : string) | POther.

Definition pfield : Type := (string * plabel * ptype)%type.
Definition pf_name (p : pfield) : string := fst (fst p).
Definition pf_label (p : pfield) : plabel := snd (fst p).
Definition pf_type (p : pfield) : ptype := snd p.
Definition pdesc : Type := list (string * list pfield).

Definition lookup {A} (k : string) (l : list (string * A)) : option A :=
  match find (fun r => String.eqb (fst r) k) l with Some r => Some (snd r) | None => None end.

Definition find_field (n : string) (fs : list pfield) : option pfield :=
  find (fun p => String.eqb (pf_name p) n) fs.

Definition mem (x : string) (l : list string) : bool := existsb (String.eqb x) l.

(* structural equality of tables *)
Definition akind_eqb (a b : akind) : bool :=
  match a, b with KNum, KNum | KInt, KInt | KStr, KStr | KBool, KBool => true | _, _ => false end.
Definition mult_eqb (a b : mult) : bool :=
  match a, b with MReq, MReq | MOpt, MOpt | MMany, MMany => true | _, _ => false end.

Fixpoint fmt_eqb (a b : fmt) {struct a} : bool :=
  match a, b with
  | FLeaf k, FLeaf k' => akind_eqb k k'
  | FRec fs, FRec fs' => fields_eqb fs fs'
  | FAny al, FAny al' => alts_eqb al al'
  | _, _ => false
  end
with fields_eqb (a b : fields) {struct a} : bool :=
  match a, b with
  | FNil, FNil => true
  | FCons t m f r, FCons t' m' f' r' => String.eqb t t' && mult_eqb m m' && fmt_eqb f f' && fields_eqb r r'
  | _, _ => false
  end
with alts_eqb (a b : alts) {struct a} : bool :=
  match a, b with
  | ANil, ANil => true
  | ACons t f r, ACons t' f' r' => String.eqb t t' && fmt_eqb f f' && alts_eqb r r'
  | _, _ => false
  end.

Definition label_ok (m : mult) (l : plabel) : bool :=
  match m, l with
  | MMany, LRepeated => true
  | MReq, LRequired | MReq, LOptional => true   (* a field the writer always sets may be optional in the .proto *)
  | MOpt, LOptional => true
  | _, _ => false
  end.

Definition type_ok (records : list (string * fmt)) (f : fmt) (t : ptype) : bool :=
  match f, t with
  | FLeaf KNum, PDouble | FLeaf KInt, PInt | FLeaf KBool, PBool | FLeaf KStr, PString | FLeaf KStr, PEnum _ => true
  | FRec _, PMsg n => existsb (fun r => String.eqb (fst r) n && fmt_eqb (snd r) f) records
  | _, _ => false
  end.

Fixpoint fields_ok (records : list (string * fmt)) (dfs : list pfield) (fs : fields) : bool :=
  match fs with
  | FNil => true
  | FCons t m f r =>
      match find_field t dfs with
      | Some p => label_ok m (pf_label p) && type_ok records f (pf_type p)
      | None => false
      end && fields_ok records dfs r
  end.

Fixpoint mult_of (t : string) (fs : fields) : option mult :=
  match fs with
  | FNil => None
  | FCons t' m _ r => if String.eqb t t' then Some m else mult_of t r
  end.

Definition required_covered (ignored : list (string * string)) (mname : string) (dfs : list pfield) (fs : fields) : bool :=
  forallb (fun p => match pf_label p with
                    | LRequired => match mult_of (pf_name p) fs with
                                   | Some MReq => true
                                   | Some _ => false
                                   | None => existsb (fun i => String.eqb (fst i) mname && String.eqb (snd i) (pf_name p)) ignored
                                   end
                    | _ => true
                    end) dfs.

Definition conforms_rec (d : pdesc) (ignored : list (string * string)) (records : list (string * fmt))
           (r : string * fmt) : bool :=
  match lookup (fst r) d, snd r with
  | Some dfs, FRec fs => distinct (field_tags fs) && distinct (map pf_name dfs) && fields_ok records dfs fs &&
                         required_covered ignored (fst r) dfs fs
  | _, _ => false
  end.

Definition conforms (d : pdesc) (ignored : list (string * string)) (records : list (string * fmt)) : bool :=
  forallb (conforms_rec d ignored records) records.

(* ---- what the runtime demands of one message tree (one level) *)
Definition count_tag (t : string) (ks : list tree) : nat := length (findall t ks).

Definition wire_ok (ignored : list (string * string)) (mname : string) (dfs : list pfield) (ks : list tree) : bool :=
  forallb (fun k => match find_field (tag_of k) dfs with Some _ => true | None => false end) ks &&
  forallb (fun p => match pf_label p with
                    | LRepeated => true
                    | LOptional => Nat.leb (count_tag (pf_name p) ks) 1
                    | LRequired => Nat.eqb (count_tag (pf_name p) ks) 1 ||
                                   existsb (fun i => String.eqb (fst i) mname && String.eqb (snd i) (pf_name p)) ignored
                    end) dfs.
