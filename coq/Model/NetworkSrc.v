(* Model/NetworkSrc.v — the rule language into which harness/props/c10_src.py parses, on every run, the three
   cleanup_*_references methods and the four remove_* methods of commonroad.scenario.lanelet.LaneletNetwork
   (Gen/Src_network.v):

     cleanup_X_references(self):   existing_ids = set(self._D.keys())                     the universe: ULanelets | USigns | ULights
                                   for la in self.lanelets: <lanelet rules>
                                   for inter in self.intersections:                        (cleanup_lanelet_references only)
                                       for inc in inter.incomings: <incoming rules>
                                       <intersection rules>
       lanelet rules      la._F = list(set(la.F).intersection(existing_ids))               RList F      F = predecessor | successor
                          la._F = la.F.intersection(existing_ids)                           RSet F       F = traffic_signs | traffic_lights
                          la._A = None if la.A is None or la.A not in existing_ids else la.A            RAdj side
                          la._A_same_direction = None if la.A_same_direction is None
                                                         or la.A not in existing_ids else la.A_same_direction   RDir side
                          if la.stop_line is not None and la.stop_line.R is not None:
                              la.stop_line._R = la.stop_line.R.intersection(existing_ids)    RStop which
       incoming rules     inc._F = set(inc.F).intersection(existing_ids)                    RInc F
       intersection rule  inter._crossings = set(inter.crossings).intersection(existing_ids) RCross
     remove_X(self, id):  if id in self._D.keys(): del self._D[id] [; del self._buffered_polygons[id]] [; self.cleanup()]
                          [self.cleanup()]  [if rtree: self._create_strtree()]
                          -> which dict, and whether the cleanup runs inside the `if`, after it, or not at all

   Meaning: rules are applied one after the other to every lanelet / incoming element / intersection (so a rule reads
   what the rules before it wrote: the direction flag is cleared by looking at the adjacency as it is at that moment).
   Proofs/SrcNetwork.v proves that the parsed rule lists compute cleanup_lanelets / cleanup_signs / cleanup_lights and
   that the parsed remove frames compute net_remove_* of Model/Network.v. *)
From Coq Require Import ZArith List Bool.
Import ListNotations.
From CR Require Import Model.Network.
Open Scope Z_scope.

Inductive universe := ULanelets | USigns | ULights | UInters.
Inductive lfield := FPred | FSucc.
Inductive sfield := FSigns | FLights.
Inductive side := SLeft | SRight.
Inductive ifield := FIncoming | FRight | FStraight | FLeft.
Inductive lrule := RList (f : lfield) | RSet (f : sfield) | RAdj (s : side) | RDir (s : side) | RStop (f : sfield).
Inductive irule := RInc (f : ifield).
Inductive xrule := RCross.
Record cleanup_prog := { cp_universe : universe; cp_lanelet : list lrule; cp_incoming : list irule; cp_inter : list xrule }.
(* where the cleanup call stands in a remove method *)
Inductive cleanup_pos := CleanupInside | CleanupAfter | CleanupNone.
Record remove_prog := { rp_dict : universe; rp_cleanup : cleanup_pos }.

Definition ids_of (u : universe) (n : network) : list Z :=
  match u with ULanelets => lanelet_ids n | USigns => sign_ids n | ULights => light_ids n | UInters => inter_ids n end.

Definition lrule_apply (k : Z -> bool) (l : lanelet) (r : lrule) : lanelet :=
  match r with
  | RList FPred => mkL (l_id l) (keepl k (l_pred l)) (l_succ l) (l_adjL l) (l_adjL_dir l) (l_adjR l) (l_adjR_dir l)
                       (l_signs l) (l_lights l) (l_stop l) (l_types l) (l_payload l)
  | RList FSucc => mkL (l_id l) (l_pred l) (keepl k (l_succ l)) (l_adjL l) (l_adjL_dir l) (l_adjR l) (l_adjR_dir l)
                       (l_signs l) (l_lights l) (l_stop l) (l_types l) (l_payload l)
  | RSet FSigns => mkL (l_id l) (l_pred l) (l_succ l) (l_adjL l) (l_adjL_dir l) (l_adjR l) (l_adjR_dir l)
                       (keepl k (l_signs l)) (l_lights l) (l_stop l) (l_types l) (l_payload l)
  | RSet FLights => mkL (l_id l) (l_pred l) (l_succ l) (l_adjL l) (l_adjL_dir l) (l_adjR l) (l_adjR_dir l)
                        (l_signs l) (keepl k (l_lights l)) (l_stop l) (l_types l) (l_payload l)
  | RAdj SLeft => mkL (l_id l) (l_pred l) (l_succ l) (keepo k (l_adjL l)) (l_adjL_dir l) (l_adjR l) (l_adjR_dir l)
                      (l_signs l) (l_lights l) (l_stop l) (l_types l) (l_payload l)
  | RAdj SRight => mkL (l_id l) (l_pred l) (l_succ l) (l_adjL l) (l_adjL_dir l) (keepo k (l_adjR l)) (l_adjR_dir l)
                       (l_signs l) (l_lights l) (l_stop l) (l_types l) (l_payload l)
  (* None if the flag is None or the adjacency (as it is now) is not an existing id: `None not in existing_ids` *)
  | RDir SLeft => mkL (l_id l) (l_pred l) (l_succ l) (l_adjL l) (keepd k (l_adjL l) (l_adjL_dir l)) (l_adjR l) (l_adjR_dir l)
                      (l_signs l) (l_lights l) (l_stop l) (l_types l) (l_payload l)
  | RDir SRight => mkL (l_id l) (l_pred l) (l_succ l) (l_adjL l) (l_adjL_dir l) (l_adjR l) (keepd k (l_adjR l) (l_adjR_dir l))
                       (l_signs l) (l_lights l) (l_stop l) (l_types l) (l_payload l)
  | RStop FSigns => mkL (l_id l) (l_pred l) (l_succ l) (l_adjL l) (l_adjL_dir l) (l_adjR l) (l_adjR_dir l)
                        (l_signs l) (l_lights l)
                        (match l_stop l with Some (s, t) => Some (keepl k s, t) | None => None end) (l_types l) (l_payload l)
  | RStop FLights => mkL (l_id l) (l_pred l) (l_succ l) (l_adjL l) (l_adjL_dir l) (l_adjR l) (l_adjR_dir l)
                         (l_signs l) (l_lights l)
                         (match l_stop l with Some (s, t) => Some (s, keepl k t) | None => None end) (l_types l) (l_payload l)
  end.
Definition irule_apply (k : Z -> bool) (i : incoming) (r : irule) : incoming :=
  match r with
  | RInc FIncoming => mkI (i_id i) (keepl k (i_lanelets i)) (i_right i) (i_straight i) (i_left i) (i_leftof i)
  | RInc FRight => mkI (i_id i) (i_lanelets i) (keepl k (i_right i)) (i_straight i) (i_left i) (i_leftof i)
  | RInc FStraight => mkI (i_id i) (i_lanelets i) (i_right i) (keepl k (i_straight i)) (i_left i) (i_leftof i)
  | RInc FLeft => mkI (i_id i) (i_lanelets i) (i_right i) (i_straight i) (keepl k (i_left i)) (i_leftof i)
  end.
Definition xrule_apply (k : Z -> bool) (x : inter) (r : xrule) : inter :=
  match r with RCross => mkX (x_id x) (x_incs x) (keepl k (x_cross x)) end.

Definition run_cleanup (p : cleanup_prog) (n : network) : network :=
  let k := fun z => mem z (ids_of (cp_universe p) n) in
  mkN (map (fun l => fold_left (lrule_apply k) (cp_lanelet p) l) (lanelets n)) (signs n) (lights n)
      (map (fun x => fold_left (xrule_apply k) (cp_inter p)
                       (mkX (x_id x) (map (fun i => fold_left (irule_apply k) (cp_incoming p) i) (x_incs x)) (x_cross x)))
           (inters n)).

(* del self._D[id] *)
Definition del_from (u : universe) (i : Z) (n : network) : network :=
  match u with
  | ULanelets => mkN (filter (fun l => negb (l_id l =? i)) (lanelets n)) (signs n) (lights n) (inters n)
  | USigns => mkN (lanelets n) (filter (fun s => negb (fst s =? i)) (signs n)) (lights n) (inters n)
  | ULights => mkN (lanelets n) (signs n) (filter (fun s => negb (fst s =? i)) (lights n)) (inters n)
  | UInters => mkN (lanelets n) (signs n) (lights n) (filter (fun x => negb (x_id x =? i)) (inters n))
  end.
Definition run_remove (p : remove_prog) (cleanup : network -> network) (i : Z) (n : network) : network :=
  match rp_cleanup p with
  | CleanupInside => if mem i (ids_of (rp_dict p) n) then cleanup (del_from (rp_dict p) i n) else n
  | CleanupAfter => cleanup (if mem i (ids_of (rp_dict p) n) then del_from (rp_dict p) i n else n)
  | CleanupNone => if mem i (ids_of (rp_dict p) n) then del_from (rp_dict p) i n else n
  end.

(* ---- LaneletNetwork.create_from_lanelet_list(lanelets, cleanup_ids) as parsed: a new network receives a deep copy of
   every listed lanelet (a network made from a list of lanelets holds lanelets only); when cleanup_ids is set the
   cleanup methods named in fl_cleanups run on it in that order; the spatial index is outside this model (C06). *)
Inductive ckind := CkLanelets | CkSigns | CkLights.
Record fromlist_prog := { fl_deepcopy : bool; fl_cleanups : list ckind }.
Definition run_from_list (p : fromlist_prog) (clean : ckind -> network -> network) (cleanup_ids : bool)
                         (ls : list Z) (n : network) : network :=
  let base := mkN (filter (fun l => mem (l_id l) ls) (lanelets n)) [] [] [] in
  if cleanup_ids then fold_left (fun m k => clean k m) (fl_cleanups p) base else base.

