(* Model/GoalSrc.v — the statement language into which harness/props/c08_src.py parses, on every run, the methods of
   commonroad/planning/goal.py and planning_problem.py that decide whether a goal is reached (Gen/Src_goal.v):

     GoalRegion._harmonize_state_types(state, goal_state, state_fields, goal_state_fields)       -> src_harmonize
         state_new = copy.deepcopy(state)
         if <hcond>: <hstmt>*                      conditions: {"a", ..}.issubset(state_fields | goal_state_fields)
         return state_new, state_fields, goal_state, goal_state_fields                         and / or / not
       statements:
         if "A" not in state_fields: state_fields.add("A"); attributes = {all attributes of state_new};
             attributes["A"] = math.atan2(state_new.Y, state_new.X); state_new = CustomState(attributes)
                                                                                  HDeriveIfMissing A Y X
         state_new.D = np.linalg.norm(np.array([state_new.A, state_new.B]))       HNorm D A B
         state_fields.remove("F")                                                  HRemove F
         state_fields.discard("F")                                                 HDiscard F
     GoalRegion.is_reached(self, state)                                                         -> src_checks
         the frame (list, loop over self.state_list, deep copy, the two field sets, the call of
         _harmonize_state_types, the subset test that raises ValueError, is_reached = True, ..., append, np.any) is
         compared with the expected text up to the names of locals                 PrologueStd, LoopAppendAny
         the checks between `is_reached = True` and the append, in their order:
         if goal_state.A is not None: is_reached = is_reached and <test>           GGoalNotNone
         if goal_state.has_value("A") and state_new.has_value("A"): is_reached = is_reached and <test>   GBothHave
           <test> = self._check_value_in_interval(state_new.A, goal_state.A)       TInterval
                    goal_state.A.contains_point(state_new.A)                       TContainsPoint
     GoalRegion._check_value_in_interval: desired_interval.contains(value) for an Interval / AngleInterval,
         ValueError otherwise                                                      CivContains
     PlanningProblem.goal_reached: for i, state in reversed(list(enumerate(state_list))): if is_reached: return True, i
         return False, -1                                                          ScanReversedFirstHit

   Meaning.  A state is the record of Model/Goal.v, state_fields / goal_state_fields are explicit sets of field names
   ([fset]); a run that would raise anything but the ValueError of the subset test is [None].  Proofs/SrcGoal.v proves
   that the parsed programs compute [reached1] of Model/Goal.v (hence is_reached and goal_reached, whose frames are
   the model's list recursion and reversed scan). *)
From Coq Require Import QArith ZArith Bool List.
From CR Require Import Base.QMod Model.Interval Model.Goal.
Import ListNotations.
Open Scope Q_scope.

Inductive fld := FTime | FPos | FOrient | FVel | FVelY.
Inductive who := WState | WGoal.
Inductive qf := QOrient | QVel | QVelY.
Inductive test := TInterval | TContainsPoint.
Inductive guard := GGoalNotNone | GBothHave.
Record check := { c_fld : fld; c_guard : guard; c_test : test }.
Inductive hcond := HSub (fs : list fld) (w : who) | HAnd (a b : hcond) | HOr (a b : hcond) | HNot (a : hcond).
Inductive hstmt := HDeriveIfMissing (q y x : qf) | HNorm (d a b : qf) | HRemove (f : fld) | HDiscard (f : fld).
Record hprog := { h_cond : hcond; h_body : list hstmt }.
Inductive prologue_form := PrologueStd.
Inductive loop_form := LoopAppendAny.
Inductive civ_form := CivContains.
Inductive scan_form := ScanReversedFirstHit.

Definition fld_eqb (a b : fld) : bool :=
  match a, b with FTime, FTime | FPos, FPos | FOrient, FOrient | FVel, FVel | FVelY, FVelY => true | _, _ => false end.
Definition fld_of (q : qf) : fld := match q with QOrient => FOrient | QVel => FVel | QVelY => FVelY end.
Definition all_flds : list fld := [FTime; FPos; FOrient; FVel; FVelY].

Section GoalSrc.
  Variable tau : Q.
  Variables pos shape : Type.
  Variable inside : shape -> pos -> bool.
  Variable hypot : Q -> Q -> Q.
  Variable atan2 : Q -> Q -> Q.
  Notation state := (state pos).
  Notation gstate := (gstate shape).

  Definition fset := fld -> bool.
  (* set(state.used_attributes): the attributes that are not None *)
  Definition fields_of (s : state) : fset := fun f =>
    match f with FTime => has (s_time s) | FPos => has (s_pos s) | FOrient => has (s_orient s)
    | FVel => has (s_vel s) | FVelY => has (s_vely s) end.
  (* a validated goal state has no velocity_y *)
  Definition gfields_of (g : gstate) : fset := fun f =>
    match f with FTime => has (g_time g) | FPos => has (g_pos g) | FOrient => has (g_orient g)
    | FVel => has (g_vel g) | FVelY => false end.
  Definition fadd (f : fld) (F : fset) : fset := fun x => if fld_eqb x f then true else F x.
  Definition fremove (f : fld) (F : fset) : fset := fun x => if fld_eqb x f then false else F x.

  Definition getq (s : state) (q : qf) : option Q :=
    match q with QOrient => s_orient s | QVel => s_vel s | QVelY => s_vely s end.
  Definition setq (s : state) (q : qf) (v : Q) : state :=
    match q with
    | QOrient => {| s_time := s_time s; s_pos := s_pos s; s_orient := Some v; s_vel := s_vel s; s_vely := s_vely s |}
    | QVel => {| s_time := s_time s; s_pos := s_pos s; s_orient := s_orient s; s_vel := Some v; s_vely := s_vely s |}
    | QVelY => {| s_time := s_time s; s_pos := s_pos s; s_orient := s_orient s; s_vel := s_vel s; s_vely := Some v |}
    end.

  Fixpoint ceval (c : hcond) (sf gf : fset) : bool :=
    match c with
    | HSub fs WState => forallb sf fs
    | HSub fs WGoal => forallb gf fs
    | HAnd a b => ceval a sf gf && ceval b sf gf
    | HOr a b => ceval a sf gf || ceval b sf gf
    | HNot a => negb (ceval a sf gf)
    end.

  Definition hstep (x : option (state * fset)) (st : hstmt) : option (state * fset) :=
    match x with
    | None => None
    | Some (s, sf) =>
        match st with
        | HDeriveIfMissing q y x0 =>
            if sf (fld_of q) then Some (s, sf)
            else match getq s y, getq s x0 with
                 | Some vy, Some vx => Some (setq s q (atan2 vy vx), fadd (fld_of q) sf)
                 | _, _ => None              (* atan2(None, .) raises TypeError *)
                 end
        | HNorm d a b =>
            match getq s a, getq s b with
            | Some va, Some vb => Some (setq s d (hypot va vb), sf)
            | _, _ => None
            end
        | HRemove f => if sf f then Some (s, fremove f sf) else None    (* set.remove of an absent element: KeyError *)
        | HDiscard f => Some (s, fremove f sf)
        end
    end.
  Definition hrun (p : hprog) (gf : fset) (s : state) (sf : fset) : option (state * fset) :=
    if ceval (h_cond p) sf gf then fold_left hstep (h_body p) (Some (s, sf)) else Some (s, sf).

  Definition cguard (c : check) (g : gstate) (s : state) : bool :=
    match c_guard c with
    | GGoalNotNone => gfields_of g (c_fld c)
    | GBothHave => gfields_of g (c_fld c) && fields_of s (c_fld c)
    end.
  (* the test of a check whose guard holds; None: an exception the model does not describe (an attribute that is
     None handed to contains, contains_point of something that is not a shape) *)
  Definition ctest (c : check) (g : gstate) (s : state) : option bool :=
    match c_fld c, c_test c with
    | FTime, TInterval => match g_time g, s_time s with Some a, Some b => Some (contains_pt a b) | _, _ => None end
    | FPos, TContainsPoint => match g_pos g, s_pos s with Some a, Some b => Some (inside a b) | _, _ => None end
    | FOrient, TInterval => match g_orient g, s_orient s with Some a, Some b => Some (acontains tau a b) | _, _ => None end
    | FVel, TInterval => match g_vel g, s_vel s with Some a, Some b => Some (contains_pt a b) | _, _ => None end
    | _, _ => None
    end.
  (* `is_reached = is_reached and <test>`: the test is not evaluated once is_reached is False *)
  Fixpoint crun (cs : list check) (g : gstate) (s : state) (acc : bool) : option bool :=
    match cs with
    | [] => Some acc
    | c :: r =>
        if cguard c g s then
          if acc then match ctest c g s with Some b => crun r g s b | None => None end
          else crun r g s false
        else crun r g s acc
    end.

  (* one turn of the loop of is_reached *)
  Definition run_reached1 (hp : hprog) (cs : list check) (g : gstate) (s : state) : option (res bool) :=
    match hrun hp (gfields_of g) s (fields_of s) with
    | None => None
    | Some (s', sf) =>
        if forallb (fun f => implb (gfields_of g f) (sf f)) all_flds
        then match crun cs g s' true with Some b => Some (Ok b) | None => None end
        else Some Err
    end.
End GoalSrc.

(* the programs the unchanged source parses to *)
Definition canon_harmonize : hprog :=
  {| h_cond := HAnd (HAnd (HSub [FVel; FVelY] WState) (HOr (HSub [FOrient] WGoal) (HSub [FVel] WGoal)))
                    (HNot (HSub [FVel; FVelY] WGoal));
     h_body := [HDeriveIfMissing QOrient QVelY QVel; HNorm QVel QVel QVelY; HRemove FVelY] |}.
Definition canon_checks : list check :=
  [ {| c_fld := FTime; c_guard := GGoalNotNone; c_test := TInterval |};
    {| c_fld := FPos; c_guard := GBothHave; c_test := TContainsPoint |};
    {| c_fld := FOrient; c_guard := GBothHave; c_test := TInterval |};
    {| c_fld := FVel; c_guard := GBothHave; c_test := TInterval |} ].
