(* Model/RenderParams.v — which parameter each drawing function of MPRenderer reads from which parameter group
   (mp_renderer.py: draw_scenario 460-472 hands draw_params.dynamic_obstacle / static_obstacle /
   environment_obstacle / phantom_obstacle / lanelet_network to the obstacles' draw functions; 487, 518-532,
   658-668, 692, 978 and 1487-1491 read the fields).  Joins Model/DrawParams.v (parameter trees) and
   Model/RenderSel.v (selection). *)
From Coq Require Import ZArith String List Bool.
Import ListNotations.
From CR Require Import Model.DrawParams Model.RenderSel.
Open Scope string_scope.

Definition getZ (n : node) (p : list string) (k : string) : option Z :=
  match lookup n p k with Some (VZ z) => Some z | _ => None end.
Definition getB (n : node) (p : list string) (k : string) : option bool :=
  match lookup n p k with Some (VB b) => Some b | _ => None end.
(* Optional[List[int]] *)
Definition getIds (n : node) (p : list string) (k : string) : option (option (list Z)) :=
  match lookup n p k with Some VNone => Some None | Some (VLZ l) => Some (Some l) | _ => None end.

Definition bind {X Y : Type} (x : option X) (f : X -> option Y) : option Y :=
  match x with Some a => f a | None => None end.

(* None: a field is missing or holds a value that is not of the declared type (outside the model) *)
Definition rparams_of (n : node) : option rparams :=
  let D := ["dynamic_obstacle"] in
  let P := ["phantom_obstacle"] in
  bind (getZ n D "time_begin") (fun dtb =>
  bind (getZ n D "time_end") (fun dte =>
  bind (getB n D "draw_shape") (fun dsh =>
  bind (getB n D "draw_icon") (fun dic =>
  bind (getB n ["dynamic_obstacle"; "occupancy"] "draw_occupancies") (fun doc =>
  bind (getB n ["dynamic_obstacle"; "history"] "draw_history") (fun dhi =>
  bind (getZ n ["dynamic_obstacle"; "history"] "steps") (fun dhs =>
  bind (getZ n ["dynamic_obstacle"; "history"] "step_size") (fun dhz =>
  bind (getZ n ["static_obstacle"] "time_begin") (fun stb =>
  bind (getZ n P "time_begin") (fun ptb =>
  bind (getZ n P "time_end") (fun pte =>
  bind (getB n P "draw_shape") (fun psh =>
  bind (getB n ["phantom_obstacle"; "occupancy"] "draw_occupancies") (fun poc =>
  bind (getZ n ["environment_obstacle"] "time_begin") (fun etb =>
  bind (getIds n ["lanelet_network"] "draw_ids") (fun lids =>
  bind (getIds n ["planning_problem_set"] "draw_ids") (fun pids =>
  Some (mkR (mkD dtb dte dsh dic doc dhi dhs dhz) stb (mkP ptb pte psh poc) etb lids pids))))))))))))))))).
