(* Model/RenderSel.v — which occupancies MPRenderer puts into the figure (visualization/mp_renderer.py):
     draw_scenario 454-472, draw_static_obstacle 474-489, _draw_occupancy 491-503, draw_dynamic_obstacle 505-643
     (time-window guards 534-543, icon decision 549-585, shape 588-594, occupancy loop 604-616, history
     695-720), draw_phantom_obstacle 645-677, draw_environment_obstacle 679-693, the id filter of
     draw_lanelet_network (1047-1049) and of draw_planning_problem_set (1490-1492).
   The model lists the calls that draw an occupancy (occ.draw / _draw_occupancy with an occupancy) and the
   regions of uncertain positions that _draw_occupancy adds, in drawing order.  Everything else the renderer may
   add to obstacle_patches (icons, signal lights, direction triangle, trajectory lines, state markers, labels) is
   NOT modelled; the correspondence compares exactly when those are switched off and by inclusion otherwise.
   An obstacle is abstract data: what Obstacle.occupancy_at_time needs (role, initial time step, kind of
   prediction, the prediction's occupancies as a table, its final time step) and what the icon decision needs.
   [A] is the type of shapes (the correspondence instantiates it with lists of shape ids). *)
From Coq Require Import ZArith List Bool.
Import ListNotations.
Open Scope Z_scope.

Inductive role := RStatic | RDynamic | RPhantom | REnv.
Inductive pkind := PNone | PTraj | PSet.       (* prediction: None / TrajectoryPrediction / SetBasedPrediction *)

Section Sel.
Variable A : Type.

Record obst := mkObst {
  o_id : Z;
  o_role : role;
  o_t0 : Z;                      (* initial_state.time_step (dynamic obstacles) *)
  o_pk : pkind;
  o_final : Z;                   (* prediction.final_time_step *)
  o_shape : A;                   (* occupancy at the initial state / the obstacle shape (static, environment) *)
  o_pred : list (Z * A);         (* prediction.occupancy_at_time_step as a table *)
  o_unc : option A;              (* region of the initial state's position if that is uncertain *)
  o_punc : list (Z * A);         (* the same for the states of the predicted trajectory *)
  o_icon : bool;                 (* obstacle_type in supported_icons() *)
  o_lw : bool                    (* obstacle_shape has length and width *)
}.

Fixpoint zassoc (t : Z) (l : list (Z * A)) : option A :=
  match l with
  | [] => None
  | (t', a) :: r => if t' =? t then Some a else zassoc t r
  end.

Definition has_pred (o : obst) : bool := match o_pk o with PNone => false | _ => true end.

(* Obstacle.occupancy_at_time (scenario/obstacle.py: 419-426 static, 612-625 dynamic, 797-810 phantom,
   954-961 environment) *)
Definition occ_at (o : obst) (t : Z) : option A :=
  match o_role o with
  | RStatic | REnv => Some (o_shape o)
  | RDynamic =>
      if t =? o_t0 o then Some (o_shape o)
      else if (o_t0 o <? t) && has_pred o then zassoc t (o_pred o) else None
  | RPhantom => zassoc t (o_pred o)
  end.

(* range(a, b) *)
Definition zrange (a b : Z) : list Z := map (fun i => a + Z.of_nat i) (seq 0 (Z.to_nat (b - a))).

Inductive item :=
| IOcc (o : Z) (t : Z)       (* the occupancy of obstacle o at time step t *)
| IHist (o : Z) (t : Z)      (* the same, drawn as history *)
| IUnc (o : Z)               (* region of the uncertain initial position of o *)
| IUncAt (o : Z) (t : Z).    (* region of the uncertain position of o's trajectory state at t *)

Definition opt_item (i : item) (x : option A) : list (item * A) :=
  match x with Some a => [(i, a)] | None => [] end.

(* parameters read by the four drawing functions (each from its own parameter group) *)
Record dparams := mkD {
  d_tb : Z; d_te : Z;
  d_shape : bool; d_icon : bool; d_occ : bool;
  d_hist : bool; d_hsteps : Z; d_hsize : Z }.
Record pparams := mkP { p_tb : Z; p_te : Z; p_shape : bool; p_occ : bool }.
Record rparams := mkR {
  r_dyn : dparams; r_static_tb : Z; r_ph : pparams; r_env_tb : Z;
  r_lanelet_ids : option (list Z); r_pp_ids : option (list Z) }.

(* mp_renderer.py:534-543 — the two early returns *)
Definition dyn_skipped (o : obst) (p : dparams) : bool :=
  (negb (has_pred o) && (o_t0 o <? d_tb p)) || (d_te p <? o_t0 o)
  || (has_pred o && (o_final o <? d_tb p)) || (d_te p <? o_t0 o).

(* 549-585: whether the primitive shape is drawn after the icon decision *)
Definition is_traj (o : obst) : bool := match o_pk o with PTraj => true | _ => false end.
Definition is_set (o : obst) : bool := match o_pk o with PSet => true | _ => false end.
Definition shape_eff (o : obst) (p : dparams) : bool :=
  if d_icon p && o_icon o && is_traj o then negb (o_lw o)
  else if d_icon p then true else d_shape p.

(* _draw_occupancy(occ, state, ...) with occ not None *)
Definition occ_loop_item (o : obst) (t : Z) : list (item * A) :=
  opt_item (IOcc (o_id o) t) (occ_at o t)
  ++ (if is_traj o then opt_item (IUncAt (o_id o) t) (zassoc t (o_punc o)) else []).

(* 712-720: history_idx = steps .. 1 *)
Definition hist_times (p : dparams) : list Z :=
  map (fun k => d_tb p - k * d_hsize p) (rev (zrange 1 (d_hsteps p + 1))).

Definition draw_dynamic (o : obst) (p : dparams) : list (item * A) :=
  if dyn_skipped o p then []
  else
    (if d_hist p && is_traj o
     then flat_map (fun t => opt_item (IHist (o_id o) t) (occ_at o t)) (hist_times p) else [])
    ++ (if shape_eff o p
        then match occ_at o (d_tb p) with
             | Some a => (IOcc (o_id o) (d_tb p), a) :: opt_item (IUnc (o_id o)) (o_unc o)
             | None => []
             end
        else [])
    ++ (if d_occ p || is_set o
        then flat_map (occ_loop_item o) (zrange (if shape_eff o p then d_tb p + 1 else d_tb p) (d_te p))
        else []).

Definition draw_static (o : obst) (tb : Z) : list (item * A) :=
  opt_item (IOcc (o_id o) tb) (occ_at o tb) ++ opt_item (IUnc (o_id o)) (o_unc o).

Definition draw_env (o : obst) (tb : Z) : list (item * A) := opt_item (IOcc (o_id o) tb) (occ_at o tb).

Definition draw_phantom (o : obst) (p : pparams) : list (item * A) :=
  (if p_shape p then opt_item (IOcc (o_id o) (p_tb p)) (occ_at o (p_tb p)) else [])
  ++ (if p_occ p
      then flat_map (fun t => opt_item (IOcc (o_id o) t) (occ_at o t))
                    (zrange (if p_shape p then p_tb p + 1 else p_tb p) (p_te p))
      else []).

Definition draw_obstacle (r : rparams) (o : obst) : list (item * A) :=
  match o_role o with
  | RDynamic => draw_dynamic o (r_dyn r)
  | RStatic => draw_static o (r_static_tb r)
  | REnv => draw_env o (r_env_tb r)
  | RPhantom => draw_phantom o (r_ph r)
  end.

(* draw_scenario: the obstacles in scenario order *)
Definition drawn (r : rparams) (sc : list obst) : list (item * A) := flat_map (draw_obstacle r) sc.

(* validity of the abstract obstacle (what a valid scenario guarantees): a prediction starts after the initial
   state and its table holds no occupancy after its final time step; without a prediction the table is empty *)
Definition wf_obst (o : obst) : bool :=
  match o_role o with
  | RDynamic =>
      if has_pred o
      then (o_t0 o <=? o_final o) && forallb (fun ta : Z * A => fst ta <=? o_final o) (o_pred o)
      else match o_pred o with [] => true | _ => false end
  | _ => true
  end.

End Sel.

Arguments mkObst {A}.
Arguments o_id {A}. Arguments o_role {A}. Arguments o_t0 {A}. Arguments o_pk {A}. Arguments o_final {A}.
Arguments o_shape {A}. Arguments o_pred {A}. Arguments o_unc {A}. Arguments o_punc {A}.
Arguments o_icon {A}. Arguments o_lw {A}.
Arguments zassoc {A}. Arguments has_pred {A}. Arguments occ_at {A}. Arguments opt_item {A}.
Arguments dyn_skipped {A}. Arguments is_traj {A}. Arguments is_set {A}. Arguments shape_eff {A}.
Arguments occ_loop_item {A}. Arguments draw_dynamic {A}. Arguments draw_static {A}. Arguments draw_env {A}.
Arguments draw_phantom {A}. Arguments draw_obstacle {A}. Arguments drawn {A}. Arguments wf_obst {A}.

(* the id filters: isinstance(draw_ids, list) and id not in draw_ids -> skipped  (lanelets);
   draw_ids is None or id in draw_ids -> drawn  (planning problems) *)
Definition zmem (z : Z) (l : list Z) : bool := existsb (Z.eqb z) l.
Definition select_ids (ids : list Z) (sel : option (list Z)) : list Z :=
  match sel with
  | None => ids
  | Some s => filter (fun i => zmem i s) ids
  end.

(* the flags of the property statement: shapes on; icons, extra occupancies and history off *)
Definition plain (r : rparams) : bool :=
  d_shape (r_dyn r) && negb (d_icon (r_dyn r)) && negb (d_occ (r_dyn r)) && negb (d_hist (r_dyn r))
  && p_shape (r_ph r) && negb (p_occ (r_ph r)).

(* one time window for every kind of obstacle *)
Definition window (r : rparams) (tb te : Z) : Prop :=
  d_tb (r_dyn r) = tb /\ d_te (r_dyn r) = te /\ r_static_tb r = tb /\ p_tb (r_ph r) = tb /\ p_te (r_ph r) = te
  /\ r_env_tb r = tb.
