(* Model/Goal.v — commonroad/planning/goal.py: GoalRegion.is_reached (lines 88-121),
   _check_value_in_interval (133-154), _harmonize_state_types (196-223, after the fix of the
   point-mass heading), and planning/planning_problem.py: PlanningProblem.goal_reached (83-94).
   Interval.contains / AngleInterval.contains are those of Model/Interval.v (C16).

   Abstractions:
   * shape containment is C06's: [inside shp p] is an uninterpreted boolean function (in case files: the
     observed value of goal_state.position.contains_point(state.position));
   * [hypot vx vy] (= numpy.linalg.norm [vx, vy]) and [atan2 vy vx] are uninterpreted functions, so that what
     the theorems fix is *which arguments* the code passes to them;
   * a state is the record of the attributes the code looks at; [None] = attribute absent from
     used_attributes (not a dataclass field / CustomState attribute, or set to None).
     [s_orient] is a *stored* orientation (KS, KST, ST, STD, MB, Initial, ExtendedPM, Custom); a PMState stores
     velocity and velocity_y only.
   * ValueError ("goal states are not a subset of the provided states") is the value [Err]. *)
From Coq Require Import QArith ZArith Bool List.
From CR Require Import Base.QMod Model.Interval.
Import ListNotations.
Open Scope Q_scope.

Section Goal.
  Variable tau : Q.
  Variables pos shape : Type.
  Variable inside : shape -> pos -> bool.
  Variable hypot : Q -> Q -> Q.      (* hypot vx vy *)
  Variable atan2 : Q -> Q -> Q.      (* atan2 y x   *)

  (* a goal state (validated by _validate_goal_state: only these four attributes; velocity_y is rejected) *)
  Record gstate := { g_time : option itv; g_pos : option shape; g_orient : option itv; g_vel : option itv }.

  Record state := { s_time : option Q; s_pos : option pos; s_orient : option Q;
                    s_vel : option Q; s_vely : option Q }.

  Definition has {A} (o : option A) : bool := match o with Some _ => true | None => false end.

  (* _harmonize_state_types: if {velocity, velocity_y} <= state_fields and the goal constrains orientation or
     velocity (the third conjunct "not {velocity, velocity_y} <= goal_state_fields" is constantly true for a
     validated goal state): orientation := atan2(velocity_y, velocity) unless the state stores one,
     velocity := norm([velocity, velocity_y]); "velocity_y" leaves the field set. *)
  Definition harmonize (s : state) (g : gstate) : state :=
    match s_vel s, s_vely s with
    | Some vx, Some vy =>
        if has (g_orient g) || has (g_vel g) then
          {| s_time := s_time s; s_pos := s_pos s;
             s_orient := match s_orient s with Some o => Some o | None => Some (atan2 vy vx) end;
             s_vel := Some (hypot vx vy); s_vely := None |}
        else s
    | _, _ => s
    end.

  (* goal_state_fields.issubset(state_fields) *)
  Definition sub1 {A B} (g : option A) (s : option B) : bool := negb (has g) || has s.
  Definition fields_subset (g : gstate) (s : state) : bool :=
    sub1 (g_time g) (s_time s) && sub1 (g_pos g) (s_pos s) &&
    sub1 (g_orient g) (s_orient s) && sub1 (g_vel g) (s_vel s).

  (* "if goal_state.has_value(a) and state_new.has_value(a): is_reached = is_reached and <test>" *)
  Definition chk {A B} (g : option A) (s : option B) (test : A -> B -> bool) : bool :=
    match g, s with Some a, Some b => test a b | _, _ => true end.

  Definition reached1 (g : gstate) (s : state) : res bool :=
    let s' := harmonize s g in
    if fields_subset g s' then
      Ok (chk (g_time g) (s_time s') contains_pt &&
          chk (g_pos g) (s_pos s') inside &&
          chk (g_orient g) (s_orient s') (acontains tau) &&
          chk (g_vel g) (s_vel s') contains_pt)
    else Err.

  (* the loop over state_list (no early exit; the first ValueError aborts), then np.any *)
  Fixpoint reached_list (G : list gstate) (s : state) : res (list bool) :=
    match G with
    | [] => Ok []
    | g :: G' => match reached1 g s with
                 | Err => Err
                 | Ok b => match reached_list G' s with Err => Err | Ok bs => Ok (b :: bs) end
                 end
    end.
  Definition is_reached (G : list gstate) (s : state) : res bool :=
    match reached_list G s with Err => Err | Ok bs => Ok (existsb (fun b => b) bs) end.

  (* goal_reached: for i, state in reversed(list(enumerate(state_list))): if is_reached(state): return True, i
     return False, -1.   [scan] walks the reversed list; [i] is the index of its head. *)
  Fixpoint scan (G : list gstate) (rev_states : list state) (i : Z) : res (bool * Z) :=
    match rev_states with
    | [] => Ok (false, (-1)%Z)
    | s :: r => match is_reached G s with
                | Err => Err
                | Ok true => Ok (true, i)
                | Ok false => scan G r (i - 1)%Z
                end
    end.
  Definition goal_reached (G : list gstate) (states : list state) : res (bool * Z) :=
    scan G (rev states) (Z.of_nat (List.length states) - 1)%Z.
End Goal.

Arguments Build_gstate {shape}.
Arguments Build_state {pos}.
Arguments g_time {shape}. Arguments g_pos {shape}. Arguments g_orient {shape}. Arguments g_vel {shape}.
Arguments s_time {pos}. Arguments s_pos {pos}. Arguments s_orient {pos}. Arguments s_vel {pos}. Arguments s_vely {pos}.
Arguments fields_subset {pos shape}.
