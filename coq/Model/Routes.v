(* Model/Routes.v — commonroad/scenario/lanelet.py: find_lanelet_successors_in_range (lines 919-954) and
   find_lanelet_predecessors_in_range (956-991; the same code with "predecessor" for "successor", obtained here
   by instantiating [succ] with the predecessor function), on a graph
     succ : id -> list id     (lanelet_network.find_lanelet_by_id(i).successor)
     len  : id -> Q           (lanelet_network.find_lanelet_by_id(i).distance[-1])
   [start] = self.lanelet_id.  The while loop is a fuelled recursion ([None] = out of fuel; Proofs/Routes.v shows
   that |V| + 1 rounds suffice on every graph whose ids lie in a finite set V).  All referenced ids are assumed to
   resolve (find_lanelet_by_id returning None is outside the domain). *)
From Coq Require Import QArith ZArith Bool List.
From CR Require Import Base.QMod.
Import ListNotations.
Open Scope Q_scope.

Section Routes.
  Variable succ : Z -> list Z.
  Variable len : Z -> Q.
  Variable start : Z.
  Variable maxlen : Q.

  Definition mem_id (x : Z) (l : list Z) : bool := existsb (Z.eqb x) l.

  (* for s in successors:
         if s in p or s == self.lanelet_id or le >= max_length: paths_final.append(p); continue
         l_next = le + len(s)
         if l_next < max_length: paths_next.append(p + [s]); lengths_next.append(l_next)
         else: paths_final.append(p + [s]) *)
  Fixpoint step_succs (p : list Z) (le : Q) (ss : list Z)
           (next : list (list Z * Q)) (final : list (list Z)) : list (list Z * Q) * list (list Z) :=
    match ss with
    | [] => (next, final)
    | s :: r =>
        if mem_id s p || (s =? start)%Z || Qle_bool maxlen le then step_succs p le r next (final ++ [p])
        else
          let l_next := le + len s in
          if Qlt_bool l_next maxlen then step_succs p le r (next ++ [(p ++ [s], l_next)]) final
          else step_succs p le r next (final ++ [p ++ [s]])
    end.

  (* for p, le in zip(paths, lengths): successors = succ(p[-1]); if not successors: paths_final.append(p) else ... *)
  Fixpoint round (paths : list (list Z * Q)) (next : list (list Z * Q)) (final : list (list Z))
    : list (list Z * Q) * list (list Z) :=
    match paths with
    | [] => (next, final)
    | (p, le) :: r =>
        match succ (last p 0%Z) with
        | [] => round r next (final ++ [p])
        | ss => let '(n', f') := step_succs p le ss next final in round r n' f'
        end
    end.

  (* while paths: ... paths = paths_next; lengths = lengths_next *)
  Fixpoint expand (fuel : nat) (paths : list (list Z * Q)) (final : list (list Z)) : option (list (list Z)) :=
    match paths with
    | [] => Some final
    | _ :: _ =>
        match fuel with
        | O => None
        | S f => let '(n, f') := round paths [] final in expand f n f'
        end
    end.

  (* paths = [[s] for s in self.successor]; lengths = [len(s) for s in self.successor] *)
  Definition routes (fuel : nat) : option (list (list Z)) :=
    expand fuel (map (fun s => ([s], len s)) (succ start)) [].
End Routes.
