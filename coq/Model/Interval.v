(* Model/Interval.v — commonroad/common/util.py: Interval (lines 60-173) and AngleInterval
   (lines 176-230), make_valid_orientation(_interval) (lines 28-43), over Q.
   Python floats/ints are (dyadic) rationals; comparisons are exact on them, + - * / are
   rounded in the implementation and exact here (DESIGN 2.2).
   An AssertionError of the implementation is the value [Err]. *)
From Coq Require Import QArith Qround ZArith Bool List Qminmax.
From CR Require Import Base.QMod.
Open Scope Q_scope.

Inductive res (A : Type) : Type := Ok (a : A) | Err.
Arguments Ok {A} a.
Arguments Err {A}.

Record itv := { lo : Q; hi : Q }.

(* Interval.__init__ : the end setter asserts end >= start *)
Definition mk (a b : Q) : res itv := if Qle_bool a b then Ok {| lo := a; hi := b |} else Err.

Definition contains_pt (I : itv) (x : Q) : bool := Qle_bool (lo I) x && Qle_bool x (hi I).
Definition contains_itv (I J : itv) : bool := Qle_bool (lo I) (lo J) && Qle_bool (hi J) (hi I).
Definition overlaps (I J : itv) : bool := Qle_bool (lo J) (hi I) && Qle_bool (lo I) (hi J).
Definition intersection (I J : itv) : option (res itv) :=
  if overlaps I J then Some (mk (Qmax (lo I) (lo J)) (Qmin (hi I) (hi J))) else None.
Definition length (I : itv) : Q := hi I - lo I.

Definition add (I : itv) (c : Q) : res itv := mk (lo I + c) (hi I + c).
Definition sub (I : itv) (c : Q) : res itv := mk (lo I - c) (hi I - c).
(* __mul__ / __truediv__ : "if other > 0.0 ... else swap" *)
Definition mul (I : itv) (c : Q) : res itv :=
  if Qlt_bool 0 c then mk (lo I * c) (hi I * c) else mk (hi I * c) (lo I * c).
Definition div (I : itv) (c : Q) : res itv :=
  if Qlt_bool 0 c then mk (lo I / c) (hi I / c) else mk (hi I / c) (lo I / c).

(* Python round(x, n) on a float: round-half-even of the exact value at 10^-n *)
Definition pow10 (n : nat) : Q := inject_Z (10 ^ Z.of_nat n).
Definition round_half_even (y : Q) : Z :=
  let f := Qfloor y in
  let r := y - inject_Z f in
  if Qlt_bool r (1#2) then f
  else if Qlt_bool (1#2) r then (f + 1)%Z
  else if Z.even f then f else (f + 1)%Z.
Definition qround (n : nat) (x : Q) : Q := inject_Z (round_half_even (x * pow10 n)) / pow10 n.
Definition round (n : nat) (I : itv) : res itv := mk (qround n (lo I)) (qround n (hi I)).

(* __gt__ / __lt__ against a number and against an interval *)
Definition gt_num (I : itv) (x : Q) : bool := Qlt_bool x (lo I).
Definition lt_num (I : itv) (x : Q) : bool := Qlt_bool (hi I) x.
Definition gt_itv (I J : itv) : bool := Qlt_bool (hi J) (lo I).
Definition lt_itv (I J : itv) : bool := Qlt_bool (hi I) (lo J).

(* ------------------------------------------------------------------ angles *)
Section Angle.
  Variable tau : Q.     (* the double TWO_PI as an exact rational; only 0 < tau is used *)

  (* make_valid_orientation_interval: the two while loops, with fuel *)
  Fixpoint norm_down (fuel : nat) (a b : Q) : option (Q * Q) :=
    match fuel with
    | O => None
    | S f => if Qlt_bool tau a || Qlt_bool tau b then norm_down f (a - tau) (b - tau) else Some (a, b)
    end.
  Fixpoint norm_up (fuel : nat) (a b : Q) : option (Q * Q) :=
    match fuel with
    | O => None
    | S f => if Qlt_bool a (- tau) then norm_up f (a + tau) (b + tau) else Some (a, b)
    end.
  Definition normalise (fuel : nat) (a b : Q) : option (Q * Q) :=
    match norm_down fuel a b with
    | None => None
    | Some (a1, b1) => norm_up fuel a1 b1
    end.

  Definition valid_orientation (x : Q) : bool := Qle_bool (- tau) x && Qle_bool x tau.

  (* AngleInterval.__init__ : normalise; assert end - start < 2pi; setters assert validity and order.
     [None] = out of fuel (never for fuel >= the bound proved in Proofs/Interval.v). *)
  Definition amk (fuel : nat) (a b : Q) : option (res itv) :=
    match normalise fuel a b with
    | None => None
    | Some (a1, b1) =>
        Some (if Qlt_bool (b1 - a1) tau && valid_orientation a1 && valid_orientation b1
              then mk a1 b1 else Err)
    end.

  (* AngleInterval.__contains__ (after fix): (value - start) % TWO_PI <= end - start *)
  Definition acontains (I : itv) (th : Q) : bool := Qle_bool (qmod tau (th - lo I)) (hi I - lo I).
  (* AngleInterval.contains(AngleInterval) (after fix):
     (other.start - start) % TWO_PI + (other.end - other.start) <= end - start *)
  Definition acontains_itv (I J : itv) : bool :=
    Qle_bool (qmod tau (lo J - lo I) + (hi J - lo J)) (hi I - lo I).

  (* AngleInterval.__add__ / __sub__ : type(self)(start + c, end + c) *)
  Definition aadd (fuel : nat) (I : itv) (c : Q) : option (res itv) := amk fuel (lo I + c) (hi I + c).
  Definition asub (fuel : nat) (I : itv) (c : Q) : option (res itv) := amk fuel (lo I - c) (hi I - c).

  (* make_valid_orientation (scalar) *)
  Fixpoint mvo_down (fuel : nat) (a : Q) : option Q :=
    match fuel with O => None
    | S f => if Qlt_bool tau a then mvo_down f (a - tau) else Some a end.
  Fixpoint mvo_up (fuel : nat) (a : Q) : option Q :=
    match fuel with O => None
    | S f => if Qlt_bool a (- tau) then mvo_up f (a + tau) else Some a end.
  Definition make_valid_orientation (fuel : nat) (a : Q) : option Q :=
    match mvo_down fuel a with None => None | Some a1 => mvo_up fuel a1 end.
End Angle.
