(* Model/Writers.v — scenario file writers as a state machine (property C15).
   commonroad/common/writer/file_writer_interface.py : DecimalPrecision / precision (10-14, process
     global), FileWriter.__init__ (32-56: stores its inputs, sets precision.decimals),
     _handle_file_path (142-160: overwrite policy);
   commonroad/common/writer/file_writer_xml.py : float_to_str reads precision.decimals at write time
     (62-74), XMLFileWriter.__init__ (_root_node, 151-153), _write_header (164-178: root.set = overwrite
     per key), _add_all_objects_from_scenario / _add_all_planning_problems... (180-203: root.append),
     write_to_file (209-238), write_scenario_to_file (240-270, own copy of the overwrite policy);
   commonroad/common/writer/file_writer_protobuf.py : __init__ (95), write_to_file /
     write_scenario_to_file (199-245: message re-created per call), no use of the precision.
   What the nodes / attributes / bytes are is abstract (Section variables): the model fixes only how
   the three pieces of state - the global precision, each writer's tree, the files - flow into a
   written file.  [fixes] switches the two repairs on (the code as it is now) or off (the code as it
   was found), so that the defects stay expressible. *)
From Coq Require Import List Bool Arith.
Import ListNotations.

Inductive fmt := XML | PB.
(* OverwriteExistingFile: ALWAYS | SKIP | ASK_USER_INPUT with the user's answer ("n" or anything else) *)
Inductive mode := Always | Skip | Ask (answer_n : bool).

Section Writers.
  Variable A : Type.            (* a writer's inputs besides format and precision: scenario, planning
                                   problem set, author, affiliation, source, tags, location *)
  Variables key value node bytes : Type.
  Variable key_eqb : key -> key -> bool.
  (* XML *)
  Variable header : A -> list (key * value).        (* _write_header: the root.set calls, date aside *)
  Variable objects : A -> nat -> list node.         (* nodes appended by _add_all_objects_from_scenario
                                                       when precision.decimals has the given value *)
  Variable problems : A -> nat -> list node.        (* ... by _add_all_planning_problems_... *)
  Variable ser_xml : list (key * value) -> list node -> bytes.   (* tree.write *)
  (* protobuf *)
  Variable pb_header pb_objects pb_problems : A -> list node.
  Variable ser_pb : list node -> bytes.             (* SerializeToString *)

  Record fixes := { reset_root : bool;        (* the tree is built anew by every write call *)
                    own_precision : bool }.   (* the precision of the writer is used at write time *)
  Definition repaired : fixes := {| reset_root := true; own_precision := true |}.

  (* one writer object: its constructor inputs and the tree / message it holds *)
  Record wstate := { w_fmt : fmt; w_prec : nat; w_args : A;
                     w_attrs : list (key * value); w_kids : list node }.
  Record world := { gprec : nat;                       (* precision.decimals *)
                    writers : list (nat * wstate);
                    files : list (nat * bytes) }.

  Inductive op :=
  | New (w : nat) (f : fmt) (prec : nat) (a : A)
  | Write (w : nat) (path : nat) (m : mode)            (* write_to_file *)
  | WriteScenario (w : nat) (path : nat) (m : mode).   (* write_scenario_to_file *)
  Inductive out := ONew | OSkipped | OWritten (path : nat) (b : bytes) | ONoWriter.

  Fixpoint lookup {B} (k : nat) (l : list (nat * B)) : option B :=
    match l with [] => None | (k', v) :: r => if Nat.eqb k k' then Some v else lookup k r end.
  Fixpoint update {B} (k : nat) (v : B) (l : list (nat * B)) : list (nat * B) :=
    match l with
    | [] => [(k, v)]
    | (k', v') :: r => if Nat.eqb k k' then (k, v) :: r else (k', v') :: update k v r
    end.
  (* Element.set: overwrite the value of an existing key, else append *)
  Fixpoint set_attr (k : key) (v : value) (l : list (key * value)) : list (key * value) :=
    match l with
    | [] => [(k, v)]
    | (k', v') :: r => if key_eqb k k' then (k, v) :: r else (k', v') :: set_attr k v r
    end.
  Definition set_attrs (news old : list (key * value)) : list (key * value) :=
    fold_left (fun acc kv => set_attr (fst kv) (snd kv) acc) news old.

  (* the overwrite policy: true = do not write *)
  Definition skips (exists_ : bool) (m : mode) : bool :=
    exists_ && match m with Always => false | Skip => true | Ask n => n end.
  Definition file_exists (p : nat) (s : world) : bool :=
    match lookup p (files s) with Some _ => true | None => false end.

  (* one write call of a writer in state ws *)
  Definition write_call (fx : fixes) (s : world) (w : nat) (ws : wstate) (path : nat) (with_problems : bool)
    : world * out :=
    match w_fmt ws with
    | XML =>
        (* repair 1: self._root_node = etree.Element("commonRoad") *)
        let attrs0 := if reset_root fx then [] else w_attrs ws in
        let kids0 := if reset_root fx then [] else w_kids ws in
        (* repair 2: precision.decimals = self._decimal_precision *)
        let g := if own_precision fx then w_prec ws else gprec s in
        let attrs := set_attrs (header (w_args ws)) attrs0 in                 (* _write_header *)
        let kids1 := kids0 ++ objects (w_args ws) g in                         (* root.append ... *)
        let kids := if with_problems then kids1 ++ problems (w_args ws) g else kids1 in
        let b := ser_xml attrs kids in
        let ws' := {| w_fmt := XML; w_prec := w_prec ws; w_args := w_args ws; w_attrs := attrs; w_kids := kids |} in
        ({| gprec := g; writers := update w ws' (writers s); files := update path b (files s) |},
         OWritten path b)
    | PB =>
        (* self._commonroad_msg = commonroad_pb2.CommonRoad() : always rebuilt *)
        let m1 := pb_header (w_args ws) ++ pb_objects (w_args ws) in
        let m := if with_problems then m1 ++ pb_problems (w_args ws) else m1 in
        let b := ser_pb m in
        let ws' := {| w_fmt := PB; w_prec := w_prec ws; w_args := w_args ws; w_attrs := []; w_kids := m |} in
        ({| gprec := gprec s; writers := update w ws' (writers s); files := update path b (files s) |},
         OWritten path b)
    end.

  Definition step (fx : fixes) (s : world) (o : op) : world * out :=
    match o with
    | New w f prec a =>
        (* FileWriter.__init__: precision.decimals = decimal_precision; an empty tree / message *)
        ({| gprec := prec;
            writers := update w {| w_fmt := f; w_prec := prec; w_args := a; w_attrs := []; w_kids := [] |}
                              (writers s);
            files := files s |}, ONew)
    | Write w path m =>
        match lookup w (writers s) with
        | None => (s, ONoWriter)
        | Some ws => if skips (file_exists path s) m then (s, OSkipped) else write_call fx s w ws path true
        end
    | WriteScenario w path m =>
        match lookup w (writers s) with
        | None => (s, ONoWriter)
        | Some ws => if skips (file_exists path s) m then (s, OSkipped) else write_call fx s w ws path false
        end
    end.

  Definition run (fx : fixes) (h : list op) (s : world) : world :=
    fold_left (fun s o => fst (step fx s o)) h s.
  Fixpoint trace (fx : fixes) (h : list op) (s : world) : list out :=
    match h with
    | [] => []
    | o :: r => let (s', x) := step fx s o in x :: trace fx r s'
    end.

  (* what a file written by a writer with inputs (f, prec, a) has to contain: a function of the
     writer's own inputs only *)
  Definition render (f : fmt) (prec : nat) (a : A) (with_problems : bool) : bytes :=
    match f with
    | XML => ser_xml (set_attrs (header a) [])
                     (objects a prec ++ (if with_problems then problems a prec else []))
    | PB => ser_pb (pb_header a ++ pb_objects a ++ (if with_problems then pb_problems a else []))
    end.

  (* the constructor inputs of writer w according to the history: the latest New w *)
  Fixpoint inputs_of (h : list op) (w : nat) (acc : option (fmt * nat * A)) : option (fmt * nat * A) :=
    match h with
    | [] => acc
    | New w' f p a :: r => inputs_of r w (if Nat.eqb w w' then Some (f, p, a) else acc)
    | _ :: r => inputs_of r w acc
    end.
  Definition inputs_in (s : world) (w : nat) : option (fmt * nat * A) :=
    match lookup w (writers s) with Some ws => Some (w_fmt ws, w_prec ws, w_args ws) | None => None end.

  Definition empty_world : world := {| gprec := 4; writers := []; files := [] |}.
End Writers.

Arguments New {A} w f prec a.
Arguments Write {A} w path m.
Arguments WriteScenario {A} w path m.
Arguments ONew {bytes}.
Arguments OSkipped {bytes}.
Arguments OWritten {bytes} path b.
Arguments ONoWriter {bytes}.

(* ------------------------------------------------------------------ the symbolic instance
   used by the correspondence check and by the refutations of the unrepaired code: a node records
   which piece it is, for which inputs and under which precision it was produced. *)
Module Sym.
  Definition A := nat.                                  (* index of (scenario, other arguments) *)
  Inductive piece := PObjects | PProblems | PbHeader | PbObjects | PbProblems.
  Definition node := (piece * nat * nat)%type.          (* piece, inputs, precision in force *)
  Definition bytes := (list (nat * nat) * list node)%type.
  Definition header (a : A) : list (nat * nat) := [(0, a); (1, a)].
  Definition objects (a : A) (g : nat) : list node := [(PObjects, a, g)].
  Definition problems (a : A) (g : nat) : list node := [(PProblems, a, g)].
  Definition ser_xml (at_ : list (nat * nat)) (k : list node) : bytes := (at_, k).
  Definition pb_header (a : A) : list node := [(PbHeader, a, 0)].
  Definition pb_objects (a : A) : list node := [(PbObjects, a, 0)].
  Definition pb_problems (a : A) : list node := [(PbProblems, a, 0)].
  Definition ser_pb (m : list node) : bytes := ([], m).

  Definition step := step A nat nat node bytes Nat.eqb header objects problems ser_xml pb_header pb_objects
                          pb_problems ser_pb.
  Definition trace := trace A nat nat node bytes Nat.eqb header objects problems ser_xml pb_header pb_objects
                            pb_problems ser_pb.
  Definition run := run A nat nat node bytes Nat.eqb header objects problems ser_xml pb_header pb_objects
                        pb_problems ser_pb.
  Definition render := render A nat nat node bytes Nat.eqb header objects problems ser_xml pb_header pb_objects
                              pb_problems ser_pb.
  Definition world := world A nat nat node bytes.
  Definition empty : world := empty_world A nat nat node bytes.

  Definition piece_eqb (p q : piece) : bool :=
    match p, q with
    | PObjects, PObjects | PProblems, PProblems | PbHeader, PbHeader | PbObjects, PbObjects
    | PbProblems, PbProblems => true
    | _, _ => false
    end.
  Definition node_eqb (x y : node) : bool :=
    let '(p, a, g) := x in let '(q, b, h) := y in piece_eqb p q && Nat.eqb a b && Nat.eqb g h.
  Fixpoint list_eqb {T} (e : T -> T -> bool) (x y : list T) : bool :=
    match x, y with
    | [], [] => true
    | a :: r, b :: t => e a b && list_eqb e r t
    | _, _ => false
    end.
  Definition bytes_eqb (x y : bytes) : bool :=
    list_eqb (fun p q => Nat.eqb (fst p) (fst q) && Nat.eqb (snd p) (snd q)) (fst x) (fst y) &&
    list_eqb node_eqb (snd x) (snd y).
End Sym.
