(* Model/Assign.v — C07: the bookkeeping of the obstacle / lanelet assignment.
   commonroad/scenario/scenario.py: add_objects for obstacles (726-735), _add/_remove_static/dynamic_
   obstacle_(to|from)_lanelets (772-852), remove_obstacle (854-900), assign_obstacles_to_lanelets
   (1222-1319; line numbers of the repaired file); commonroad/scenario/lanelet.py:
   add_dynamic_obstacle_to_lanelet / add_static_obstacle_to_lanelet (999-1016); the reader-side assignment of
   common/reader/file_reader_xml.py:1152-1295 (file_reader_protobuf.py:594-665, 853-912 is the same
   code).  The model describes the repaired code (the four "fix:" commits of branch fix-r2-c07: a static
   obstacle is registered on the lanelets that are stored; remove_obstacle clears the lanelets of the shape
   and of the centre assignment with discard; find_lanelet_by_shape accepts a ShapeGroup; time steps
   before the initial time step of an obstacle are skipped like the ones after its final time step).

   Geometry enters only through two oracles of the world: [cin o t] = the lanelets containing the
   centre of obstacle o at time t (find_lanelet_by_position) and [sm o t] = the lanelets its occupancy
   meets (find_lanelet_by_shape); C06 ties those to the geometry.  The world is fixed during a run:
   obstacles do not move and the lanelet network (not empty) does not change.
   Python sets are duplicate-free lists, dicts are association lists / functions, an exception is the
   outcome [Raised e] and the state returned with it is the partially updated one. *)
From Coq Require Import ZArith Bool List.
Import ListNotations.
Open Scope Z_scope.

Inductive exn := KeyError | AttributeError | AssertionError.
Inductive outcome := Done | Raised (e : exn).

Inductive okind := Static | Dynamic.
Record world := {
  kind : Z -> okind;          (* StaticObstacle / DynamicObstacle *)
  t0 : Z -> Z;                (* initial_state.time_step *)
  tf : Z -> option Z;         (* Some f: trajectory prediction over t0+1 .. f; None: no prediction *)
  cin : Z -> Z -> list Z;     (* set(find_lanelet_by_position([position of o at t])[0]) *)
  sm : Z -> Z -> list Z       (* set(find_lanelet_by_shape(occupancy of o at t)) *)
}.

(* ---- Python containers *)
Definition memZ (x : Z) (l : list Z) : bool := existsb (Z.eqb x) l.
Definition set_add (x : Z) (l : list Z) : list Z := if memZ x l then l else x :: l.
Definition set_discard (x : Z) (l : list Z) : list Z := filter (fun y => negb (Z.eqb y x)) l.
Definition dict := list (Z * list Z).                      (* time step -> set of lanelet ids *)
Fixpoint dget (t : Z) (d : dict) : option (list Z) :=
  match d with [] => None | (k, v) :: r => if Z.eqb k t then Some v else dget t r end.
Fixpoint dset (t : Z) (v : list Z) (d : dict) : dict :=
  match d with
  | [] => [(t, v)]
  | (k, v') :: r => if Z.eqb k t then (t, v) :: r else (k, v') :: dset t v r
  end.
Definition upd {A} (f : Z -> A) (k : Z) (v : A) : Z -> A := fun x => if Z.eqb x k then v else f x.

Record st := {
  statics : list Z;                    (* keys of Scenario._static_obstacles *)
  dynamics : list Z;                   (* keys of Scenario._dynamic_obstacles *)
  (* attributes of the obstacle objects (they outlive a removal from the scenario) *)
  ic : Z -> option (list Z);           (* initial_center_lanelet_ids *)
  ish : Z -> option (list Z);          (* initial_shape_lanelet_ids *)
  ca : Z -> option dict;               (* prediction.center_lanelet_assignment *)
  sa : Z -> option dict;               (* prediction.shape_lanelet_assignment *)
  (* attributes of the lanelets *)
  sreg : Z -> list Z;                  (* static_obstacles_on_lanelet *)
  dreg : Z -> Z -> option (list Z)     (* dynamic_obstacles_on_lanelet: time step -> set *)
}.

Definition init : st :=
  {| statics := []; dynamics := []; ic := fun _ => None; ish := fun _ => None; ca := fun _ => None;
     sa := fun _ => None; sreg := fun _ => []; dreg := fun _ _ => None |}.

Definition with_regs (s : st) (sr : Z -> list Z) (dr : Z -> Z -> option (list Z)) : st :=
  {| statics := statics s; dynamics := dynamics s; ic := ic s; ish := ish s; ca := ca s; sa := sa s;
     sreg := sr; dreg := dr |}.

(* Lanelet.add_static_obstacle_to_lanelet / static_obstacles_on_lanelet.add *)
Definition sreg_add (o : Z) (sr : Z -> list Z) (l : Z) : Z -> list Z := upd sr l (set_add o (sr l)).
Definition sreg_discard (o : Z) (sr : Z -> list Z) (l : Z) : Z -> list Z := upd sr l (set_discard o (sr l)).
(* Lanelet.add_dynamic_obstacle_to_lanelet: create the set of the time step if missing, add *)
Definition dreg_add (o t : Z) (dr : Z -> Z -> option (list Z)) (l : Z) : Z -> Z -> option (list Z) :=
  upd dr l (upd (dr l) t (Some (set_add o (match dr l t with Some r => r | None => [] end)))).
(* if time_step in lanelet_dict: lanelet_dict[time_step].discard(obstacle_id) *)
Definition dreg_discard (o t : Z) (dr : Z -> Z -> option (list Z)) (l : Z) : Z -> Z -> option (list Z) :=
  match dr l t with
  | Some r => upd dr l (upd (dr l) t (Some (set_discard o r)))
  | None => dr
  end.

Definition sreg_add_all (o : Z) (ids : list Z) (sr : Z -> list Z) := fold_left (sreg_add o) ids sr.
Definition sreg_discard_all (o : Z) (ids : list Z) (sr : Z -> list Z) := fold_left (sreg_discard o) ids sr.
Definition dreg_add_all (o t : Z) (ids : list Z) dr := fold_left (dreg_add o t) ids dr.
Definition dreg_discard_all (o t : Z) (ids : list Z) dr := fold_left (dreg_discard o t) ids dr.
Definition dreg_add_dict (o : Z) (d : dict) dr := fold_left (fun dr e => dreg_add_all o (fst e) (snd e) dr) d dr.
Definition dreg_discard_dict (o : Z) (d : dict) dr := fold_left (fun dr e => dreg_discard_all o (fst e) (snd e) dr) d dr.

Definition opt_ids (x : option (list Z)) : list Z := match x with Some l => l | None => [] end.
Definition opt_dict (x : option dict) : dict := match x with Some d => d | None => [] end.

Section World.
  Variable W : world.

  (* _add_static_obstacle_to_lanelets(id, initial_shape_lanelet_ids) *)
  Definition add_static_to_lanelets (o : Z) (s : st) : st :=
    with_regs s (sreg_add_all o (opt_ids (ish s o)) (sreg s)) (dreg s).

  (* _add_dynamic_obstacle_to_lanelets: the initial shape lanelets at the initial time step, then every
     entry of prediction.shape_lanelet_assignment (only if there is a prediction) *)
  Definition add_dynamic_to_lanelets (o : Z) (s : st) : st :=
    let dr1 := dreg_add_all o (t0 W o) (opt_ids (ish s o)) (dreg s) in
    let dr2 := match tf W o with
               | Some _ => dreg_add_dict o (opt_dict (sa s o)) dr1
               | None => dr1
               end in
    with_regs s (sreg s) dr2.

  (* add_objects(obstacle) *)
  Definition add_obstacle (o : Z) (s : st) : st :=
    match kind W o with
    | Static =>
        add_static_to_lanelets o
          {| statics := o :: statics s; dynamics := dynamics s; ic := ic s; ish := ish s; ca := ca s;
             sa := sa s; sreg := sreg s; dreg := dreg s |}
    | Dynamic =>
        add_dynamic_to_lanelets o
          {| statics := statics s; dynamics := o :: dynamics s; ic := ic s; ish := ish s; ca := ca s;
             sa := sa s; sreg := sreg s; dreg := dreg s |}
    end.

  (* _remove_static_obstacle_from_lanelets (repaired): every lanelet of the shape and of the centre
     assignment forgets the obstacle *)
  Definition remove_static_from_lanelets (o : Z) (s : st) : st :=
    with_regs s (sreg_discard_all o (opt_ids (ic s o)) (sreg_discard_all o (opt_ids (ish s o)) (sreg s))) (dreg s).

  (* _remove_dynamic_obstacle_from_lanelets (repaired) *)
  Definition remove_dynamic_from_lanelets (o : Z) (s : st) : st :=
    let dr1 := dreg_discard_all o (t0 W o) (opt_ids (ish s o)) (dreg s) in
    let dr2 := dreg_discard_all o (t0 W o) (opt_ids (ic s o)) dr1 in
    let dr3 := match tf W o with
               | Some _ => dreg_discard_dict o (opt_dict (ca s o)) (dreg_discard_dict o (opt_dict (sa s o)) dr2)
               | None => dr2
               end in
    with_regs s (sreg s) dr3.

  Definition del (o : Z) (l : list Z) : list Z := filter (fun x => negb (Z.eqb x o)) l.

  (* remove_obstacle(obstacle); an obstacle that is not contained only produces a warning *)
  Definition remove_obstacle (o : Z) (s : st) : st * outcome :=
    if memZ o (statics s) then
      let s1 := remove_static_from_lanelets o s in
      ({| statics := del o (statics s1); dynamics := dynamics s1; ic := ic s1; ish := ish s1; ca := ca s1;
          sa := sa s1; sreg := sreg s1; dreg := dreg s1 |}, Done)
    else if memZ o (dynamics s) then
      let s1 := remove_dynamic_from_lanelets o s in
      ({| statics := statics s1; dynamics := del o (dynamics s1); ic := ic s1; ish := ish s1; ca := ca s1;
          sa := sa s1; sreg := sreg s1; dreg := dreg s1 |}, Done)
    else (s, Done).

  (* ---- assign_obstacles_to_lanelets *)
  (* assign_static_obstacle (repaired: the lanelets that are stored are the lanelets that are registered) *)
  Definition assign_static (centre_only : bool) (o : Z) (s : st) : st :=
    let c := cin W o (t0 W o) in
    let ids := if centre_only then c else sm W o (t0 W o) in
    {| statics := statics s; dynamics := dynamics s;
       ic := upd (ic s) o (Some c);
       ish := if centre_only then ish s else upd (ish s) o (Some ids);
       ca := ca s; sa := sa s;
       sreg := sreg_add_all o ids (sreg s); dreg := dreg s |}.

  (* ---- for the record: the static bookkeeping before the repair (scenario.py at df37eef, use_center_only=False):
     assign_static_obstacle stored the shape lanelets but registered the centre lanelets, and
     _remove_static_obstacle_from_lanelets used set.remove on every stored shape lanelet *)
  Definition assign_static_orig (o : Z) (s : st) : st :=
    let c := cin W o (t0 W o) in
    {| statics := statics s; dynamics := dynamics s;
       ic := upd (ic s) o (Some c); ish := upd (ish s) o (Some (sm W o (t0 W o)));
       ca := ca s; sa := sa s; sreg := sreg_add_all o c (sreg s); dreg := dreg s |}.
  Fixpoint sreg_remove_all (o : Z) (ids : list Z) (sr : Z -> list Z) : (Z -> list Z) * outcome :=
    match ids with
    | [] => (sr, Done)
    | l :: r => if memZ o (sr l) then sreg_remove_all o r (sreg_discard o sr l) else (sr, Raised KeyError)
    end.
  Definition remove_static_orig (o : Z) (s : st) : st * outcome :=
    match ish s o, ic s o with
    | Some ids, Some _ => let (sr, out) := sreg_remove_all o ids (sreg s) in (with_regs s sr (dreg s), out)
    | _, _ => (s, Done)
    end.

  (* assign_dynamic_obstacle_shape_at_time; returns the state and whether it raised.
     The trajectory of a prediction starts at t0 + 1; a time step after the final or (repaired) before the
     initial time step is skipped (return False). *)
  Definition assign_dyn_go (centre_only : bool) (o t : Z) (s : st) : st :=
    let c := cin W o t in
    let has_pred := match tf W o with Some _ => true | None => false end in
    let ids := if centre_only then c else sm W o t in
    let init := Z.eqb t (t0 W o) in
    {| statics := statics s; dynamics := dynamics s;
       ic := if init then upd (ic s) o (Some c) else ic s;
       ish := if init && negb centre_only then upd (ish s) o (Some ids) else ish s;
       ca := if has_pred then upd (ca s) o (Some (dset t c (opt_dict (ca s o)))) else ca s;
       sa := if centre_only then sa s
             else if has_pred then upd (sa s) o (Some (dset t ids (opt_dict (sa s o)))) else sa s;
       sreg := sreg s;
       dreg := dreg_add_all o t ids (dreg s) |}.
  Definition assign_dyn_at (centre_only : bool) (o t : Z) (s : st) : st * outcome :=
    if Z.eqb t (t0 W o) then (assign_dyn_go centre_only o t s, Done)
    else match tf W o with
         | None => (s, Done)                                   (* return False *)
         | Some f => if Z.ltb f t || Z.ltb t (t0 W o) then (s, Done)      (* return False *)
                     else (assign_dyn_go centre_only o t s, Done)
         end.

  Fixpoint zrange (a : Z) (n : nat) : list Z :=
    match n with O => [] | S k => a :: zrange (a + 1) k end.
  (* range(t0, final_time_step + 1) *)
  Definition horizon (o : Z) : list Z :=
    match tf W o with
    | None => [t0 W o]
    | Some f => zrange (t0 W o) (Z.to_nat (f + 1 - t0 W o))
    end.

  Fixpoint assign_times (centre_only : bool) (o : Z) (ts : list Z) (s : st) : st * outcome :=
    match ts with
    | [] => (s, Done)
    | t :: r => match assign_dyn_at centre_only o t s with
                | (s1, Done) => assign_times centre_only o r s1
                | (s1, Raised e) => (s1, Raised e)
                end
    end.

  (* the body of the loop over obstacle_ids, for an obstacle contained in the scenario *)
  Definition assign_one (time_steps : option (list Z)) (centre_only : bool) (o : Z) (s : st) : st * outcome :=
    match kind W o with
    | Dynamic =>
        let ts := match time_steps with Some ts => ts | None => horizon o end in
        let s1 := match tf W o with
                  | Some _ =>
                      {| statics := statics s; dynamics := dynamics s; ic := ic s; ish := ish s;
                         ca := match ca s o with None => upd (ca s) o (Some []) | Some _ => ca s end;
                         sa := if centre_only then sa s
                               else match sa s o with None => upd (sa s) o (Some []) | Some _ => sa s end;
                         sreg := sreg s; dreg := dreg s |}
                  | None => s
                  end in
        assign_times centre_only o ts s1
    | Static => (assign_static centre_only o s, Done)
    end.

  Fixpoint assign_ids (time_steps : option (list Z)) (centre_only : bool) (ids : list Z) (s : st) : st * outcome :=
    match ids with
    | [] => (s, Done)
    | o :: r => match assign_one time_steps centre_only o s with
                | (s1, Done) => assign_ids time_steps centre_only r s1
                | (s1, Raised e) => (s1, Raised e)
                end
    end.

  (* assign_obstacles_to_lanelets(time_steps, obstacle_ids, use_center_only).  [order] is the iteration
     order of the id set (given by the harness; the result does not depend on it unless it raises).
     obstacle_ids = None: all static and dynamic obstacles. *)
  Definition assign (time_steps : option (list Z)) (ids : option (list Z)) (centre_only : bool) (s : st)
    : st * outcome :=
    assign_ids time_steps centre_only (match ids with Some l => l | None => statics s ++ dynamics s end) s.

  (* ---- the reader-side assignment (lanelet_assignment=True): obstacles are created one after the other,
     each registering itself on the lanelets, then all are added to the scenario *)
  Definition read_static (o : Z) (s : st) : st :=
    let ids := sm W o (t0 W o) in
    {| statics := statics s; dynamics := dynamics s;
       ic := upd (ic s) o (Some (cin W o (t0 W o))); ish := upd (ish s) o (Some ids);
       ca := ca s; sa := sa s; sreg := sreg_add_all o ids (sreg s); dreg := dreg s |}.
  (* a dynamic obstacle with a trajectory: find_obstacle_shape_lanelets / _center_lanelets over
     [initial_state] + state_list *)
  Definition read_dynamic (o : Z) (s : st) : st :=
    let ts := horizon o in
    let dr1 := dreg_add_all o (t0 W o) (sm W o (t0 W o)) (dreg s) in
    let dr2 := fold_left (fun dr t => dreg_add_all o t (sm W o t) dr) ts dr1 in
    {| statics := statics s; dynamics := dynamics s;
       ic := upd (ic s) o (Some (cin W o (t0 W o))); ish := upd (ish s) o (Some (sm W o (t0 W o)));
       ca := upd (ca s) o (Some (fold_left (fun d t => dset t (cin W o t) d) ts []));
       sa := upd (sa s) o (Some (fold_left (fun d t => dset t (sm W o t) d) ts []));
       sreg := sreg s; dreg := dr2 |}.
  Definition read_one (o : Z) (s : st) : st :=
    match kind W o with Static => read_static o s | Dynamic => read_dynamic o s end.
  Definition read_all (os : list Z) (s : st) : st :=
    fold_left (fun s o => add_obstacle o s) os (fold_left (fun s o => read_one o s) os s).
  (* a file opened with lanelet_assignment=False: the obstacles are new objects without any assignment
     attribute ([fresh], demanded by [ok]) and are added to the scenario one after the other *)
  Definition fresh (s : st) (o : Z) : bool :=
    match ic s o, ish s o, ca s o, sa s o with None, None, None, None => true | _, _, _, _ => false end.
  Definition load_all (os : list Z) (s : st) : st := fold_left (fun s o => add_obstacle o s) os s.

  (* ---- histories *)
  Inductive op :=
  | OAdd (o : Z)
  | ORemove (o : Z)
  | OAssign (time_steps : option (list Z)) (ids : option (list Z)) (centre_only : bool)
  | ORead (os : list Z)
  | OLoad (os : list Z).

  Definition step (s : st) (o : op) : st * outcome :=
    match o with
    | OAdd o => (add_obstacle o s, Done)
    | ORemove o => remove_obstacle o s
    | OAssign ts ids c => assign ts ids c s
    | ORead os => (read_all os s, Done)
    | OLoad os => (load_all os s, Done)
    end.
  Definition run (ops : list op) (s : st) : st := fold_left (fun s o => fst (step s o)) ops s.

  Definition present (s : st) (o : Z) : bool := memZ o (statics s) || memZ o (dynamics s).
  Definition subset (a b : list Z) : bool := forallb (fun x => memZ x b) a.
  (* admissible calls (DESIGN 2.7): an obstacle is added when it is not contained; ids given to assign
     name contained obstacles; the obstacles a file holds are new to the scenario and distinct;
     dynamic obstacles of a file have a trajectory prediction *)
  Fixpoint nodupZ (l : list Z) : bool :=
    match l with [] => true | x :: r => negb (memZ x r) && nodupZ r end.
  Definition ok (s : st) (o : op) : bool :=
    match o with
    | OAdd o => negb (present s o)
    | ORemove _ => true
    | OAssign _ ids _ => match ids with Some l => forallb (present s) l | None => true end
    | ORead os => nodupZ os && forallb (fun o => negb (present s o)) os
                  && forallb (fun o => match kind W o, tf W o with Dynamic, None => false | _, _ => true end) os
    | OLoad os => nodupZ os && forallb (fun o => negb (present s o) && fresh s o) os
    end.
  Fixpoint all_ok (ops : list op) (s : st) : bool :=
    match ops with [] => true | o :: r => ok s o && all_ok r (fst (step s o)) end.
  Definition default_mode (o : op) : bool :=
    match o with OAssign _ _ c => negb c | _ => true end.
End World.
