(* Model/SolXsd.v — a validator for the XSD subset the shipped solution schema uses (generated into
   Gen/Xsd_solution.v): anonymous complex types with one xs:sequence or xs:all of elements with
   min/maxOccurs, attributes (required / optional), simple types xs:float, xs:int, xs:string, xs:dateTime.
   Sequences are matched greedily (element names of one model group are pairwise distinct — the translator
   checks it — so greedy matching is exact).  Lexical spaces: the whitespace facet (collapse) and the
   optional leading '+' of xs:int, time-zone / fractional-second forms of xs:dateTime are not modelled; the
   writer never emits them and the correspondence run does not use them. *)
From Coq Require Import String Ascii List ZArith Bool Decimal DecimalString DecimalZ.
From CR Require Import Model.SolTypes Model.SolutionFmt.
Import ListNotations.
Open Scope string_scope.
Open Scope list_scope.

(* ------------------------------------------------------------------ lexical validators *)
Definition is_digit (a : ascii) : bool :=
  let n := nat_of_ascii a in (48 <=? n)%nat && (n <=? 57)%nat.
Fixpoint skip_digits (s : string) : nat * string :=
  match s with
  | String a r => if is_digit a then let (n, t) := skip_digits r in (Datatypes.S n, t) else (O, s)
  | EmptyString => (O, s)
  end.
Definition strip_sign (s : string) : string :=
  match s with
  | String a r => if Ascii.eqb a "+" || Ascii.eqb a "-" then r else s
  | EmptyString => s
  end.
(* digits+ ('.' digits* )? | '.' digits+ ; returns what follows *)
Definition mantissa (s : string) : option string :=
  let (n1, r1) := skip_digits s in
  match r1 with
  | String "."%char r2 => let (n2, r3) := skip_digits r2 in if (0 <? n1 + n2)%nat then Some r3 else None
  | _ => if (0 <? n1)%nat then Some r1 else None
  end.
Definition exponent_ok (s : string) : bool :=
  match s with
  | EmptyString => true
  | String a r => (Ascii.eqb a "e" || Ascii.eqb a "E")
                  && let (n, t) := skip_digits (strip_sign r) in (0 <? n)%nat && String.eqb t ""
  end.
Definition xs_float_ok (s : string) : bool :=
  String.eqb s "INF" || String.eqb s "-INF" || String.eqb s "NaN"
  || match mantissa (strip_sign s) with Some r => exponent_ok r | None => false end.

Definition xs_int_ok (s : string) : bool :=
  match zparse s with
  | Some z => (-2147483648 <=? z)%Z && (z <=? 2147483647)%Z
  | None => false
  end.

(* YYYY-MM-DDThh:mm:ss, year 0001..9999, calendar-correct day *)
Definition two_digits (s : string) : option (Z * string) :=
  match s with
  | String a (String b r) =>
      if is_digit a && is_digit b
      then Some ((Z.of_nat (nat_of_ascii a) - 48) * 10 + (Z.of_nat (nat_of_ascii b) - 48), r)%Z
      else None
  | _ => None
  end.
Definition expect (c : ascii) (s : string) : option string :=
  match s with String a r => if Ascii.eqb a c then Some r else None | EmptyString => None end.
Definition days_in (y m : Z) : Z :=
  if (m =? 2)%Z then
    if ((y mod 4 =? 0) && (negb (y mod 100 =? 0) || (y mod 400 =? 0)))%Z then 29 else 28
  else if (m =? 4)%Z || (m =? 6)%Z || (m =? 9)%Z || (m =? 11)%Z then 30 else 31.
Definition xs_datetime_ok (s : string) : bool :=
  match two_digits s with
  | Some (c1, s1) =>
    match two_digits s1 with
    | Some (c2, s2) =>
      let y := (c1 * 100 + c2)%Z in
      match expect "-" s2 with Some s3 => match two_digits s3 with Some (mo, s4) =>
      match expect "-" s4 with Some s5 => match two_digits s5 with Some (d, s6) =>
      match expect "T" s6 with Some s7 => match two_digits s7 with Some (h, s8) =>
      match expect ":" s8 with Some s9 => match two_digits s9 with Some (mi, s10) =>
      match expect ":" s10 with Some s11 => match two_digits s11 with Some (se, s12) =>
        (1 <=? y)%Z && (1 <=? mo)%Z && (mo <=? 12)%Z && (1 <=? d)%Z && (d <=? days_in y mo)%Z
        && (h <=? 23)%Z && (mi <=? 59)%Z && (se <=? 59)%Z && String.eqb s12 ""
      | None => false end | None => false end | None => false end | None => false end
      | None => false end | None => false end | None => false end | None => false end
      | None => false end | None => false end
    | None => false end
  | None => false end.

Definition simple_ok (t : stype) (s : string) : bool :=
  match t with
  | TFloat => xs_float_ok s
  | TInt => xs_int_ok s
  | TString => true
  | TDateTime => xs_datetime_ok s
  end.

(* ------------------------------------------------------------------ structure *)
Fixpoint span (p : xml -> bool) (l : list xml) : list xml * list xml :=
  match l with
  | [] => ([], [])
  | x :: r => if p x then let (a, b) := span p r in (x :: a, b) else ([], l)
  end.
Definition in_bounds (mn : nat) (mx : option nat) (n : nat) : bool :=
  (mn <=? n)%nat && match mx with None => true | Some m => (n <=? m)%nat end.
Definition has_tag (name : string) (k : xml) : bool := String.eqb (tag_of k) name.
Fixpoint find_attr (n : string) (ds : list xattr) : option xattr :=
  match ds with [] => None | d :: r => if String.eqb n (xa_name d) then Some d else find_attr n r end.
Definition attrs_ok (ds : list xattr) (attrs : list (string * string)) : bool :=
  forallb (fun kv => match find_attr (fst kv) ds with
                     | Some d => simple_ok (xa_type d) (snd kv) | None => false end) attrs
  && forallb (fun d => negb (xa_required d) || match lookup (xa_name d) attrs with Some _ => true | None => false end) ds.
Fixpoint counts_ok (els : xelems) (tags : list string) : bool :=
  match els with
  | XNil => true
  | XCons name mn mx _ rest => in_bounds mn mx (count_occ string_dec tags name) && counts_ok rest tags
  end.

Fixpoint validate (t : xtype) (x : xml) {struct t} : bool :=
  match t with
  | XSimple st => simple_ok st (text_of x)
                  && match kids_of x with [] => true | _ => false end
                  && match attrs_of x with [] => true | _ => false end
  | XComplex k els ds =>
      attrs_ok ds (attrs_of x) && String.eqb (text_of x) ""
      && match k with
         | KSeq => validate_seq els (kids_of x)
         | KAll => forallb (validate_named els) (kids_of x) && counts_ok els (map tag_of (kids_of x))
         end
  end
with validate_seq (els : xelems) (kids : list xml) {struct els} : bool :=
  match els with
  | XNil => match kids with [] => true | _ => false end
  | XCons name mn mx t rest =>
      let (run, tl) := span (has_tag name) kids in
      in_bounds mn mx (length run) && forallb (validate t) run && validate_seq rest tl
  end
with validate_named (els : xelems) (k : xml) {struct els} : bool :=
  match els with
  | XNil => false
  | XCons name _ _ t rest => if has_tag name k then validate t k else validate_named rest k
  end.

Definition validate_doc (root_name : string) (root_type : xtype) (x : xml) : bool :=
  String.eqb (tag_of x) root_name && validate root_type x.

(* ------------------------------------------------------------------ the tag-level part of sequence matching *)
Fixpoint el_names (els : xelems) : list string :=
  match els with XNil => [] | XCons n _ _ _ r => n :: el_names r end.
Fixpoint find_el (n : string) (els : xelems) : option xtype :=
  match els with XNil => None | XCons m _ _ t r => if String.eqb n m then Some t else find_el n r end.
Fixpoint span_s (name : string) (l : list string) : nat * list string :=
  match l with
  | [] => (O, [])
  | x :: r => if String.eqb x name then let (n, b) := span_s name r in (Datatypes.S n, b) else (O, l)
  end.
(* "the children are listed in the order (and numbers) the sequence allows" *)
Fixpoint seq_ordered (els : xelems) (tags : list string) : bool :=
  match els with
  | XNil => match tags with [] => true | _ => false end
  | XCons name mn mx _ rest => let (n, tl) := span_s name tags in in_bounds mn mx n && seq_ordered rest tl
  end.

(* ------------------------------------------------------------------ static conformance of the writer tables *)
Definition leaf_type_ok (n : string) (t : xtype) : bool :=
  match t with
  | XSimple TString => true
  | XSimple TFloat => negb (String.eqb n "time")     (* str(float) / str(int) of a float-valued field *)
  | XSimple TInt => String.eqb n "time"              (* str(int) of the time step *)
  | _ => false
  end.
(* the flattened xml names of a state type against the content model of its state element *)
Definition conforms_state (names : list string) (t : xtype) : bool :=
  match t with
  | XComplex KAll els ds =>
      forallb (fun d => negb (xa_required d)) ds
      && forallb (fun n => match find_el n els with Some t' => leaf_type_ok n t' | None => false end) names
      && counts_ok els names
  | _ => false
  end.
Definition attr_is (n : string) (ok : stype -> bool) (ds : list xattr) : bool :=
  match find_attr n ds with Some d => ok (xa_type d) | None => false end.
Definition is_string (t : stype) : bool := match t with TString => true | _ => false end.
Definition pp_attrs_ok (ds : list xattr) : bool :=
  attr_is "planningProblem" is_string ds
  && forallb (fun d => negb (xa_required d) || String.eqb (xa_name d) "planningProblem") ds.
Definition conforms_traj (T : tables) (ty : string) (t : xtype) : bool :=
  match t, lookup ty (t_stype T), lookup ty (t_xml T) with
  | XComplex KSeq (XCons sname mn None st XNil) ds, Some stag, Some xs =>
      String.eqb sname stag && (mn <=? 1)%nat && pp_attrs_ok ds && conforms_state (flat_names xs) st
  | _, _, _ => false
  end.
Definition root_attrs_ok (ds : list xattr) : bool :=
  attr_is "benchmark_id" is_string ds
  && attr_is "computation_time" (fun t => match t with TFloat | TString => true | _ => false end) ds
  && attr_is "date" (fun t => match t with TDateTime | TString => true | _ => false end) ds
  && attr_is "processor_name" is_string ds
  && forallb (fun d => negb (xa_required d) || String.eqb (xa_name d) "benchmark_id") ds.
(* every trajectory type of the tables that the schema defines is written in a form its content model admits *)
Definition conforms (T : tables) (root_name : string) (root_type : xtype) : bool :=
  String.eqb root_name "CommonRoadSolution"
  && match root_type with
     | XComplex KSeq els ds =>
         nodup_s (el_names els) && root_attrs_ok ds
         && forallb (fun nt => match find_el (snd nt) els with
                               | Some t' => conforms_traj T (fst nt) t'
                               | None => true end) (t_ttype T)
     | _ => false
     end.
Definition root_els (root_type : xtype) : xelems :=
  match root_type with XComplex _ els _ => els | XSimple _ => XNil end.

Section Lex.
  Variable F : Type.
  Variable fstr : F -> string.
  Variable S D : Type.
  Variable dstr : D -> string.
  Variable T : tables.
  (* lexical admissibility of the numeric texts the oracles produced (the float-text hypothesis) *)
  Definition pair_lex_ok (p : string * string) : bool :=
    if String.eqb (fst p) "time" then xs_int_ok (snd p) else xs_float_ok (snd p).
  Definition state_lex_ok (ty : string) (st : state F) : bool :=
    match zipped T ty with
    | Some xf => match write_pairs F fstr xf st with Some ps => forallb pair_lex_ok ps | None => false end
    | None => false
    end.
  Definition solution_lex_ok (s : solution F S D) : bool :=
    forallb (fun p => forallb (state_lex_ok (p_ty _ p)) (p_states _ p)) (s_pps _ _ _ s)
    && match s_ctime _ _ _ s with Some c => xs_float_ok (num_text F fstr c) | None => true end
    && match s_date _ _ _ s with Some d => xs_datetime_ok (dstr d) | None => true end.
  (* the tags of the trajectory nodes, in the order the solution lists them *)
  Definition traj_tags (s : solution F S D) : list string :=
    map (fun p => match lookup (p_ty _ p) (t_ttype T) with Some t => t | None => EmptyString end) (s_pps _ _ _ s).
End Lex.
