(* Model/EqHashSpecs.v — the concrete comparison / hash specs of commonroad-io (after the C12 repairs),
   transcribed from every __eq__ / __hash__ (file:line of the repaired tree in design.d/C12.md).
   Attribute names are the constructor parameter names (Gen/Tables_C12.v); LaneletNetwork and Scenario also
   list the content added through add_* ("lanelets", "static_obstacles", ...).
   Every entry is validated by the correspondence (Corr/C12.v): a wrong kind makes a prediction differ. *)
From Coq Require Import List Bool String.
From CR Require Import Model.EqHash Gen.Tables_C12.
Import ListNotations.
Open Scope string_scope.

Definition plain (attrs : list string) : list (string * ekind) * list (string * hkind) :=
  (map (fun a => (a, KPy)) attrs, map (fun a => (a, HPy)) attrs).

Definition mk (e : list (string * ekind)) (h : list (string * hkind)) : fspec :=
  {| f_eq := e; f_eq_default := KIgnored; f_hash := h; f_hash_default := HIgnored; f_hmode := HMTuple |}.
Definition mk_plain (attrs : list string) : fspec := mk (fst (plain attrs)) (snd (plain attrs)).

Definition ids_none_empty := HNoneEmpty (HFrozenOf HPy).
Definition frozen := HFrozenOf HPy.
Definition tuple := HTupleOf HPy.

Definition obstacle_eq : list (string * ekind) :=
  [("obstacle_id", KPy); ("obstacle_type", KPy); ("obstacle_shape", KPy); ("initial_state", KPy);
   ("initial_center_lanelet_ids", KNoneEmpty); ("initial_shape_lanelet_ids", KNoneEmpty);
   ("initial_signal_state", KPy); ("signal_series", KPy)].
Definition obstacle_hash : list (string * hkind) :=
  [("obstacle_id", HPy); ("obstacle_type", HPy); ("obstacle_shape", HPy); ("initial_state", HPy);
   ("initial_center_lanelet_ids", ids_none_empty); ("initial_shape_lanelet_ids", ids_none_empty);
   ("initial_signal_state", HPy); ("signal_series", HOpt tuple)].

Definition specs_C12 : list (string * fspec) := [
  (* commonroad/common/util.py *)
  ("Interval", mk_plain ["start"; "end"]);
  ("Time", mk_plain ["hours"; "minutes"; "day"; "month"; "year"]);
  (* commonroad/geometry/shape.py *)
  ("Rectangle", mk [("length", KPy); ("width", KPy); ("center", KArr10); ("orientation", KPy)]
                   [("length", HPy); ("width", HPy); ("center", HOpt HArr10); ("orientation", HPy)]);
  ("Circle", mk [("radius", KPy); ("center", KArr10)] [("radius", HPy); ("center", HOpt HArr10)]);
  ("Polygon", mk [("vertices", KArr10)] [("vertices", HArr10)]);
  ("ShapeGroup", mk [("shapes", KPy)] [("shapes", frozen)]);
  (* commonroad/scenario/state.py *)
  ("MetaInformationState",
   mk [("meta_data_str", KPy); ("meta_data_int", KPy); ("meta_data_float", KPy); ("meta_data_bool", KPy)]
      [("meta_data_str", HOpt (HItemsOf HPy)); ("meta_data_int", HOpt (HItemsOf HPy));
       ("meta_data_float", HOpt (HItemsOf HPy)); ("meta_data_bool", HOpt (HItemsOf HPy))]);
  ("SignalState",
   {| f_eq := []; f_eq_default := KPy; f_hash := []; f_hash_default := HPy; f_hmode := HMValueSet |});
  ("State",
   {| f_eq := []; f_eq_default := KState; f_hash := []; f_hash_default := HState; f_hmode := HMTuple |});
  (* commonroad/scenario/trajectory.py, commonroad/prediction/prediction.py *)
  ("Trajectory", mk [("initial_time_step", KPy); ("state_list", KPy)]
                    [("initial_time_step", HPy); ("state_list", tuple)]);
  ("Occupancy", mk_plain ["time_step"; "shape"]);
  ("SetBasedPrediction", mk [("initial_time_step", KPy); ("occupancy_set", KPy)]
                            [("initial_time_step", HPy); ("occupancy_set", frozen)]);
  ("TrajectoryPrediction",
   mk [("trajectory", KPy); ("shape", KPy); ("center_lanelet_assignment", KPy); ("shape_lanelet_assignment", KPy)]
      [("trajectory", HPy); ("shape", HPy); ("center_lanelet_assignment", HOpt (HItemsOf frozen));
       ("shape_lanelet_assignment", HOpt (HItemsOf frozen))]);
  (* commonroad/scenario/obstacle.py *)
  ("StaticObstacle", mk obstacle_eq obstacle_hash);
  ("DynamicObstacle",
   mk (obstacle_eq ++ [("prediction", KPy); ("initial_meta_information_state", KPy);
                       ("meta_information_series", KPy); ("external_dataset_id", KPy); ("history", KPy);
                       ("signal_history", KPy); ("center_lanelet_ids_history", KPy);
                       ("shape_lanelet_ids_history", KPy)])
      (obstacle_hash ++ [("prediction", HPy); ("initial_meta_information_state", HPy);
                         ("meta_information_series", HOpt tuple); ("external_dataset_id", HPy);
                         ("history", tuple); ("signal_history", tuple);
                         ("center_lanelet_ids_history", HOpt (HTupleOf frozen));
                         ("shape_lanelet_ids_history", HOpt (HTupleOf frozen))]));
  ("EnvironmentObstacle", mk_plain ["obstacle_id"; "obstacle_type"; "obstacle_shape"]);
  ("PhantomObstacle", mk_plain ["obstacle_id"; "prediction"]);
  (* commonroad/common/common_lanelet.py, commonroad/scenario/lanelet.py *)
  ("StopLine",
   mk [("start", KArr10); ("end", KArr10); ("line_marking", KPy); ("traffic_sign_ref", KPy);
       ("traffic_light_ref", KPy)]
      [("start", HOpt HArr10); ("end", HOpt HArr10); ("line_marking", HPy); ("traffic_sign_ref", HOpt frozen);
       ("traffic_light_ref", HOpt frozen)]);
  ("Lanelet",
   mk [("left_vertices", KArr10); ("center_vertices", KArr10); ("right_vertices", KArr10); ("lanelet_id", KPy);
       ("predecessor", KAsSet); ("successor", KAsSet); ("adjacent_left", KPy);
       ("adjacent_left_same_direction", KPy); ("adjacent_right", KPy); ("adjacent_right_same_direction", KPy);
       ("line_marking_left_vertices", KPy); ("line_marking_right_vertices", KPy); ("stop_line", KPy);
       ("lanelet_type", KPy); ("user_one_way", KPy); ("user_bidirectional", KPy); ("traffic_signs", KPy);
       ("traffic_lights", KPy); ("adjacent_areas", KPy)]
      [("left_vertices", HArr10); ("center_vertices", HArr10); ("right_vertices", HArr10); ("lanelet_id", HPy);
       ("predecessor", frozen); ("successor", frozen); ("adjacent_left", HPy);
       ("adjacent_left_same_direction", HPy); ("adjacent_right", HPy); ("adjacent_right_same_direction", HPy);
       ("line_marking_left_vertices", HPy); ("line_marking_right_vertices", HPy); ("stop_line", HPy);
       ("lanelet_type", frozen); ("user_one_way", frozen); ("user_bidirectional", frozen);
       ("traffic_signs", frozen); ("traffic_lights", frozen); ("adjacent_areas", frozen)]);
  ("MapInformation", mk_plain ["commonroad_version"; "map_id"; "date"; "author"; "affiliation"; "source";
                               "licence_name"; "licence_text"]);
  ("LaneletNetwork",
   mk [("information", KPy); ("lanelets", KAsSet); ("intersections", KAsSet); ("traffic_signs", KAsSet);
       ("traffic_lights", KAsSet); ("areas", KAsSet)]
      [("information", HPy); ("lanelets", frozen); ("intersections", frozen); ("traffic_signs", frozen);
       ("traffic_lights", frozen); ("areas", frozen)]);
  (* commonroad/scenario/traffic_sign.py, traffic_light.py *)
  ("TrafficSignElement", mk [("traffic_sign_element_id", KPy); ("additional_values", KAsSet)]
                            [("traffic_sign_element_id", HPy); ("additional_values", frozen)]);
  ("TrafficSign",
   mk [("traffic_sign_id", KPy); ("traffic_sign_elements", KAsSet); ("first_occurrence", KPy);
       ("position", KArr10); ("virtual", KPy)]
      [("traffic_sign_id", HPy); ("traffic_sign_elements", frozen); ("first_occurrence", frozen);
       ("position", HArr10); ("virtual", HPy)]);
  ("TrafficLightCycleElement", mk_plain ["state"; "duration"]);
  ("TrafficLightCycle", mk [("cycle_elements", KPy); ("time_offset", KPy); ("active", KPy)]
                           [("cycle_elements", frozen); ("time_offset", HPy); ("active", HPy)]);
  ("TrafficLight",
   mk [("traffic_light_id", KPy); ("position", KArr10); ("traffic_light_cycle", KPy); ("color", KPy);
       ("active", KPy); ("direction", KPy); ("shape", KPy)]
      [("traffic_light_id", HPy); ("position", HArr10); ("traffic_light_cycle", HPy); ("color", frozen);
       ("active", HPy); ("direction", HPy); ("shape", HPy)]);
  (* commonroad/scenario/intersection.py, area.py *)
  ("IntersectionIncomingElement",
   mk [("incoming_id", KPy); ("incoming_lanelets", KPy); ("successors_right", KPy); ("successors_straight", KPy);
       ("successors_left", KPy); ("left_of", KPy)]
      [("incoming_id", HPy); ("incoming_lanelets", HOpt frozen); ("successors_right", frozen);
       ("successors_straight", frozen); ("successors_left", frozen); ("left_of", HPy)]);
  ("Intersection", mk [("intersection_id", KPy); ("incomings", KAsSet); ("crossings", KPy)]
                      [("intersection_id", HPy); ("incomings", frozen); ("crossings", frozen)]);
  ("AreaBorder",
   mk [("area_border_id", KPy); ("border_vertices", KArr10); ("adjacent", KPy); ("line_marking", KPy)]
      [("area_border_id", HPy); ("border_vertices", HArr10); ("adjacent", HOpt tuple); ("line_marking", HPy)]);
  ("Area", mk [("area_id", KPy); ("border", KPy); ("area_types", KPy)]
              [("area_id", HPy); ("border", HOpt tuple); ("area_types", HOpt frozen)]);
  (* commonroad/planning *)
  ("GoalRegion", mk [("state_list", KPy); ("lanelets_of_goal_position", KPy)]
                    [("state_list", tuple); ("lanelets_of_goal_position", HOpt (HItemsOf tuple))]);
  ("PlanningProblem", mk_plain ["planning_problem_id"; "initial_state"; "goal_region"]);
  ("PlanningProblemSet", mk [("planning_problem_list", KPy)] [("planning_problem_list", HItemsOf HPy)]);
  (* commonroad/scenario/scenario.py *)
  ("GeoTransformation", mk_plain ["geo_reference"; "x_translation"; "y_translation"; "z_rotation"; "scaling"]);
  ("Environment", mk_plain ["time"; "time_of_day"; "weather"; "underground"]);
  ("Location", mk_plain ["geo_name_id"; "gps_latitude"; "gps_longitude"; "geo_transformation"; "environment"]);
  ("ScenarioID",
   mk [("cooperative", KPy); ("country_id", KPy); ("map_name", KPy); ("map_id", KPy); ("configuration_id", KPy);
       ("obstacle_behavior", KPy); ("prediction_id", KPy); ("scenario_version", KPy)]
      [("cooperative", HPy); ("country_id", HPy); ("map_name", HPy); ("map_id", HPy); ("configuration_id", HPy);
       ("obstacle_behavior", HPy); ("prediction_id", HTupleIfList HPy); ("scenario_version", HPy)]);
  ("Scenario",
   mk [("dt", KStr); ("scenario_id", KPy); ("author", KPy); ("tags", KPy); ("affiliation", KPy); ("source", KPy);
       ("location", KPy); ("lanelet_network", KPy); ("static_obstacles", KPy); ("dynamic_obstacles", KPy);
       ("environment_obstacle", KPy); ("phantom_obstacle", KPy)]
      [("dt", HStr); ("scenario_id", HPy); ("author", HPy); ("tags", HOpt frozen); ("affiliation", HPy);
       ("source", HPy); ("location", HPy); ("lanelet_network", HPy); ("static_obstacles", frozen);
       ("dynamic_obstacles", frozen); ("environment_obstacle", frozen); ("phantom_obstacle", frozen)])
].

(* class -> family: which __eq__/__hash__ a class uses.  The State subclasses come from the generated table. *)
Definition families_C12 (state_classes : list string) : list (string * string) :=
  ("AngleInterval", "Interval") :: map (fun c => (c, "State")) state_classes.

Definition T_C12 : table := {| t_family := families_C12 state_classes_C12; t_spec := specs_C12 |}.

(* ------------------------------------------------------------------ the table vs the source text *)
(* Gen/Tables_C12.v also lists, from the syntax tree of every __eq__ / __hash__ (following delegation to the base
   class), which attributes the method reads on self and on other.  The transcribed table must agree: every
   attribute it claims to be compared is read on BOTH sides (so "compared with itself" is impossible), nothing is
   read on one side only, and every attribute it claims to be hashed is read by __hash__.  Classes that read their
   attributes by computed name (State family, SignalState: getattr loops) only get the one-side check. *)
Open Scope bool_scope.

Fixpoint smem (a : string) (l : list string) : bool :=
  match l with [] => false | b :: r => String.eqb a b || smem a r end.

Definition stored_name (c a : string) : string :=
  match assoc c stored_C12 with
  | Some l => match assoc a l with Some s => s | None => a end
  | None => a
  end.

Definition src_eq_ok (T : table) : bool :=
  forallb (fun e =>
    match e with
    | (c, (dyn, both, oneside)) =>
        match oneside with [] => true | _ => false end &&
        (dyn || match spec_of T c with
                | None => false
                | Some sp => forallb (fun p => is_ignored (snd p) || smem (stored_name c (fst p)) both) (f_eq sp)
                end)
    end) src_eq_C12.

Definition src_hash_ok (T : table) : bool :=
  forallb (fun e =>
    match e with
    | (c, (dyn, hs)) =>
        dyn || match spec_of T c with
               | None => false
               | Some sp => forallb (fun p => is_hignored (snd p) || smem (stored_name c (fst p)) hs) (f_hash sp)
               end
    end) src_hash_C12.

(* every class of the generated attribute table is also in the source-text tables *)
Definition src_complete : bool :=
  forallb (fun ca => match assoc (fst ca) src_eq_C12, assoc (fst ca) src_hash_C12 with
                     | Some _, Some _ => true
                     | _, _ => false
                     end) attrs_C12.
