(* Model/TrafficLight.v — commonroad/scenario/traffic_light.py:165-178, 367-368
   TrafficLightCycle.cycle_init_timesteps / get_state_at_time_step, TrafficLight.get_state_at_time_step.
   Durations, offsets and time steps are integers (Z); colours are opaque codes (Z). *)
From Coq Require Import ZArith List Bool.
Import ListNotations.
Open Scope Z_scope.

(* np.cumsum(durations) *)
Fixpoint cumsum_from (acc : Z) (ds : list Z) : list Z :=
  match ds with
  | [] => []
  | d :: r => (acc + d) :: cumsum_from (acc + d) r
  end.

(* np.insert(np.cumsum(durations) + offset, 0, offset) *)
Definition init_steps (o : Z) (ds : list Z) : list Z := o :: map (fun s => s + o) (cumsum_from 0 ds).

(* np.argmax over a boolean array: index of the first True, 0 when there is none *)
Fixpoint first_true (l : list bool) : option nat :=
  match l with
  | [] => None
  | true :: _ => Some O
  | false :: r => match first_true r with Some i => Some (S i) | None => None end
  end.
Definition argmax (l : list bool) : Z := match first_true l with Some i => Z.of_nat i | None => 0 end.

(* Python list indexing: negative indices count from the end; out of range = IndexError = None *)
Definition pyindex {A} (l : list A) (i : Z) : option A :=
  let n := Z.of_nat (length l) in
  if (0 <=? i) && (i <? n) then nth_error l (Z.to_nat i)
  else if (i <? 0) && (- n <=? i) then nth_error l (Z.to_nat (n + i))
  else None.

Record element := { colour : Z; duration : Z }.
(* the objects as the translated source sees them (Gen/Src_traffic_light.v) *)
Record cycle := { c_elements : list element; c_offset : Z }.
Record light := { l_cycle : cycle }.

Definition last_step (o : Z) (ds : list Z) : Z := last (init_steps o ds) o.   (* cycle_init_timesteps[-1] *)

(* get_state_at_time_step; None = exception (ZeroDivision for an empty cycle / IndexError) *)
Definition state_at (els : list element) (o t : Z) : option Z :=
  let ds := map duration els in
  let init := init_steps o ds in
  let total := last_step o ds - o in
  if total =? 0 then None else
  let tsm := ((t - o) mod total) + o in
  let i := argmax (map (fun c => tsm <? c) init) - 1 in
  option_map colour (pyindex els i).

(* TrafficLight.get_state_at_time_step delegates to its cycle *)
Definition light_state_at (els : list element) (o t : Z) : option Z := state_at els o t.

(* ---- specification: the window that contains r, scanning the durations in order *)
Fixpoint find_window (r : Z) (ds : list Z) : nat :=
  match ds with
  | [] => O
  | d :: rest => if r <? d then O else S (find_window (r - d) rest)
  end.
Fixpoint sum (ds : list Z) : Z := match ds with [] => 0 | d :: r => d + sum r end.
Definition prefix (i : nat) (ds : list Z) : Z := sum (firstn i ds).
