(* Model/IdPool.v — the id bookkeeping of commonroad.scenario.scenario.Scenario as a state machine (C09).

   Transcribed from scenario.py (repaired tree):
     _id_set / _id_counter                          586-588
     add_objects                                    686-765   (dispatch per kind, list form)
     remove_obstacle                                836-882
     erase_lanelet_network / replace_lanelet_network 884-905
     remove_hanging_lanelet_members / remove_lanelet 907-962
     remove_traffic_sign / _light / _intersection   964-1024  (single and list form)
     generate_object_id                             1026-1037
     _is_object_id_used / _mark_object_id_as_used / _lanelet_network_object_ids / _mark_object_ids_as_used
   and from lanelet.py the LaneletNetwork methods these call: add_lanelet, add_traffic_sign, add_traffic_light,
   add_intersection, remove_lanelet, remove_traffic_sign (+cleanup_traffic_sign_references), remove_traffic_light
   (+cleanup_traffic_light_references), remove_intersection — restricted to the id-valued data C09 talks about.

   Effects happen in the order of the code; a Python exception is a result value and the state returned with it
   is the partially updated one.  Python dicts are association lists in insertion order, sets are duplicate-free
   lists.  An object passed to an operation is a value (its fields as they are at call time). *)
From Coq Require Import ZArith List Bool.
Import ListNotations.
Open Scope Z_scope.

Inductive exn := ValueError | KeyError | OtherError.
Inductive res := RUnit | RId (z : Z) | RErr (e : exn).

Record lanelet := mkL { l_id : Z; l_signs : list Z; l_lights : list Z }.
Record inter := mkX { x_id : Z; x_incs : list Z }.
Record net := mkN { n_lanelets : list lanelet; n_signs : list Z; n_lights : list Z; n_inters : list inter }.
Inductive role := Static | Dynamic | Env | Phantom.

Record st := mkSt {
  idset : list Z;            (* Scenario._id_set *)
  counter : option Z;        (* Scenario._id_counter *)
  network : net;             (* Scenario._lanelet_network *)
  statics : list Z; dynamics : list Z; envs : list Z; phantoms : list Z;   (* keys of the four obstacle dicts *)
  generated : list Z         (* ghost: every value generate_object_id has returned *)
}.

Definition empty_net : net := mkN [] [] [] [].
Definition init : st := mkSt [] None empty_net [] [] [] [] [].

Inductive obj := OLanelet (l : lanelet) | OSign (z : Z) | OLight (z : Z) | OInter (x : inter) | OObst (r : role) (z : Z).
Inductive arg := AObj (o : obj) | ANet (n : net).

Inductive op :=
| Add (a : arg) (lids : list Z)               (* add_objects(a, lanelet_ids) *)
| AddList (l : list arg) (lids : list Z)      (* add_objects([...], lanelet_ids) *)
| RemoveObstacle (z : Z)                      (* remove_obstacle(o), o.obstacle_id = z *)
| RemoveObstacles (l : list Z)
| RemoveLanelet (l : lanelet) (refs : bool)   (* remove_lanelet(l, referenced_elements) *)
| RemoveLanelets (l : list lanelet) (refs : bool)
| RemoveSign (z : Z) | RemoveSigns (l : list Z)
| RemoveLight (z : Z) | RemoveLights (l : list Z)
| RemoveInter (x : inter) | RemoveInters (l : list inter)
| Replace (n : net)                           (* replace_lanelet_network(n) *)
| Generate.                                   (* generate_object_id() *)

(* ---------------------------------------------------------------- sets and dicts *)
Definition mem (z : Z) (l : list Z) : bool := existsb (Z.eqb z) l.
Definition sadd (z : Z) (l : list Z) : list Z := if mem z l then l else l ++ [z].       (* set.add *)
Definition sdel (z : Z) (l : list Z) : list Z := filter (fun y => negb (y =? z)) l.      (* del d[z] / set.discard *)
Definition sinter (l ex : list Z) : list Z := filter (fun z => mem z ex) l.              (* set.intersection *)

Fixpoint nodupb (l : list Z) : bool :=
  match l with [] => true | x :: r => negb (mem x r) && nodupb r end.

(* ---------------------------------------------------------------- state updates *)
Definition set_idset (s : st) (v : list Z) : st :=
  mkSt v (counter s) (network s) (statics s) (dynamics s) (envs s) (phantoms s) (generated s).
Definition set_counter (s : st) (v : option Z) : st :=
  mkSt (idset s) v (network s) (statics s) (dynamics s) (envs s) (phantoms s) (generated s).
Definition set_network (s : st) (v : net) : st :=
  mkSt (idset s) (counter s) v (statics s) (dynamics s) (envs s) (phantoms s) (generated s).
Definition obst (r : role) (s : st) : list Z :=
  match r with Static => statics s | Dynamic => dynamics s | Env => envs s | Phantom => phantoms s end.
Definition set_obst (r : role) (s : st) (v : list Z) : st :=
  match r with
  | Static => mkSt (idset s) (counter s) (network s) v (dynamics s) (envs s) (phantoms s) (generated s)
  | Dynamic => mkSt (idset s) (counter s) (network s) (statics s) v (envs s) (phantoms s) (generated s)
  | Env => mkSt (idset s) (counter s) (network s) (statics s) (dynamics s) v (phantoms s) (generated s)
  | Phantom => mkSt (idset s) (counter s) (network s) (statics s) (dynamics s) (envs s) v (generated s)
  end.

(* statements that may raise: state so far + the exception, if any *)
Definition M := st -> st * option exn.
Definition ret : M := fun s => (s, None).
Definition pure (f : st -> st) : M := fun s => (f s, None).
Definition seq (a b : M) : M := fun s => match a s with (s1, None) => b s1 | (s1, Some e) => (s1, Some e) end.
Notation "a ;; b" := (seq a b) (at level 61, right associativity).
(* for x in l: body(x) *)
Fixpoint loop {A} (body : A -> M) (l : list A) : M :=
  match l with [] => ret | a :: r => body a ;; loop body r end.

(* ---------------------------------------------------------------- LaneletNetwork methods (lanelet.py) *)
Definition set_l_signs (l : lanelet) (v : list Z) := mkL (l_id l) v (l_lights l).
Definition set_l_lights (l : lanelet) (v : list Z) := mkL (l_id l) (l_signs l) v.

Definition has_lanelet (i : Z) (n : net) : bool := existsb (fun l => l_id l =? i) (n_lanelets n).
Definition has_inter (i : Z) (n : net) : bool := existsb (fun x => x_id x =? i) (n_inters n).

(* add_lanelet: "Lanelet already exists in network! No changes are made." *)
Definition net_add_lanelet (l : lanelet) (n : net) : net :=
  if has_lanelet (l_id l) n then n else mkN (n_lanelets n ++ [l]) (n_signs n) (n_lights n) (n_inters n).
(* add_traffic_sign(sign, lanelet_ids): stores the sign, then adds the reference to every listed lanelet that exists *)
Definition net_add_sign (z : Z) (lids : list Z) (n : net) : net :=
  if mem z (n_signs n) then n else
  mkN (map (fun l => if mem (l_id l) lids then set_l_signs l (sadd z (l_signs l)) else l) (n_lanelets n))
      (n_signs n ++ [z]) (n_lights n) (n_inters n).
Definition net_add_light (z : Z) (lids : list Z) (n : net) : net :=
  if mem z (n_lights n) then n else
  mkN (map (fun l => if mem (l_id l) lids then set_l_lights l (sadd z (l_lights l)) else l) (n_lanelets n))
      (n_signs n) (n_lights n ++ [z]) (n_inters n).
Definition net_add_inter (x : inter) (n : net) : net :=
  if has_inter (x_id x) n then n else mkN (n_lanelets n) (n_signs n) (n_lights n) (n_inters n ++ [x]).

(* remove_lanelet: del + cleanup_lanelet_references (touches no field of this model) *)
Definition net_remove_lanelet (i : Z) (n : net) : net :=
  mkN (filter (fun l => negb (l_id l =? i)) (n_lanelets n)) (n_signs n) (n_lights n) (n_inters n).
(* remove_traffic_sign: only if present: del, cleanup_traffic_sign_references *)
Definition net_remove_sign (z : Z) (n : net) : net :=
  if mem z (n_signs n) then
    let ex := sdel z (n_signs n) in
    mkN (map (fun l => set_l_signs l (sinter (l_signs l) ex)) (n_lanelets n)) ex (n_lights n) (n_inters n)
  else n.
(* remove_traffic_light: del if present; cleanup_traffic_light_references runs in any case *)
Definition net_remove_light (z : Z) (n : net) : net :=
  let ex := sdel z (n_lights n) in
  mkN (map (fun l => set_l_lights l (sinter (l_lights l) ex)) (n_lanelets n)) (n_signs n) ex (n_inters n).
Definition net_remove_inter (i : Z) (n : net) : net :=
  mkN (n_lanelets n) (n_signs n) (n_lights n) (filter (fun x => negb (x_id x =? i)) (n_inters n)).

Definition on_net (f : net -> net) : M := pure (fun s => set_network s (f (network s))).

(* ---------------------------------------------------------------- id set primitives (scenario.py) *)
(* _mark_object_id_as_used *)
Definition mark_one (z : Z) : M := fun s =>
  let s1 := match counter s with None => set_counter s (Some z) | Some _ => s end in
  if mem z (idset s1) then (s1, Some ValueError) else (set_idset s1 (z :: idset s1), None).
(* _mark_object_ids_as_used: check every id (used, or twice in the argument), then mark one by one *)
Definition free_all (ids : list Z) (s : st) : bool :=
  nodupb ids && forallb (fun z => negb (mem z (idset s))) ids.
Definition mark_all (ids : list Z) : M := fun s =>
  if free_all ids s then loop mark_one ids s else (s, Some ValueError).
(* _id_set.remove(z): KeyError if absent *)
Definition id_remove (z : Z) : M := fun s =>
  if mem z (idset s) then (set_idset s (sdel z (idset s)), None) else (s, Some KeyError).
(* _id_set.discard(z) *)
Definition id_discard (z : Z) : M := pure (fun s => set_idset s (sdel z (idset s))).

Definition inter_ids (x : inter) : list Z := x_id x :: x_incs x.
(* _lanelet_network_object_ids *)
Definition net_ids (n : net) : list Z :=
  map l_id (n_lanelets n) ++ n_signs n ++ n_lights n ++ flat_map inter_ids (n_inters n).

(* ---------------------------------------------------------------- add_objects *)
(* dict assignment d[z] = obj *)
Definition dset (z : Z) (l : list Z) : list Z := if mem z l then l else l ++ [z].

Definition add_one (a : arg) (lids : list Z) : M :=
  match a with
  | AObj (OObst r z) => mark_one z ;; pure (fun s => set_obst r s (dset z (obst r s)))
  | ANet n => fun s =>
      (mark_all (net_ids n) ;;
       loop id_discard (net_ids (network s)) ;;        (* the network held so far leaves the scenario *)
       pure (fun s1 => set_network s1 n)) s
  | AObj (OLanelet l) => mark_one (l_id l) ;; on_net (net_add_lanelet l)
  | AObj (OSign z) => mark_one z ;; on_net (net_add_sign z lids)
  | AObj (OLight z) => mark_one z ;; on_net (net_add_light z lids)
  | AObj (OInter x) => mark_all (inter_ids x) ;; on_net (net_add_inter x)
  end.

(* ---------------------------------------------------------------- removals *)
Definition remove_obstacle (z : Z) : M := fun s =>
  if mem z (statics s) then (pure (fun s => set_obst Static s (sdel z (statics s))) ;; id_remove z) s
  else if mem z (dynamics s) then (pure (fun s => set_obst Dynamic s (sdel z (dynamics s))) ;; id_remove z) s
  else if mem z (envs s) then (pure (fun s => set_obst Env s (sdel z (envs s))) ;; id_remove z) s
  else if mem z (phantoms s) then (pure (fun s => set_obst Phantom s (sdel z (phantoms s))) ;; id_remove z) s
  else (s, None).                                             (* warning only *)

Definition remove_sign (z : Z) : M := on_net (net_remove_sign z) ;; id_remove z.
Definition remove_light (z : Z) : M := on_net (net_remove_light z) ;; id_remove z.
Definition remove_inter (x : inter) : M :=
  on_net (net_remove_inter (x_id x)) ;; id_remove (x_id x) ;; loop id_remove (x_incs x).

(* remove_hanging_lanelet_members(remove_lanelet) *)
Definition hanging (ls : list lanelet) (n : net) : list Z * list Z :=
  let rm := map l_id ls in
  let remaining := filter (fun l => negb (mem (l_id l) rm)) (n_lanelets n) in
  let del_s := flat_map l_signs ls in
  let del_t := flat_map l_lights ls in
  let save_s := flat_map l_signs remaining in
  let save_t := flat_map l_lights remaining in
  (filter (fun z => mem z del_s && negb (mem z save_s)) (n_signs n),
   filter (fun z => mem z del_t && negb (mem z save_t)) (n_lights n)).
Definition remove_hanging (ls : list lanelet) : M := fun s =>
  let (rs, rt) := hanging ls (network s) in
  (loop remove_sign rs ;; loop remove_light rt) s.

Definition remove_lanelets (ls : list lanelet) (refs : bool) : M :=
  (if refs then remove_hanging ls else ret) ;;
  loop (fun l => on_net (net_remove_lanelet (l_id l)) ;; id_remove (l_id l)) ls.

(* erase_lanelet_network: the loops run over the lists as they are when each loop starts; a lanelet object is
   the one stored in the network, so its references are read when its turn comes *)
Definition current_lanelet (l : lanelet) (s : st) : lanelet :=
  match find (fun y => l_id y =? l_id l) (n_lanelets (network s)) with Some y => y | None => l end.
Definition erase : M := fun s =>
  (loop (fun l s1 => remove_lanelets [current_lanelet l s1] true s1) (n_lanelets (network s)) ;;
   (fun s1 => loop remove_sign (n_signs (network s1)) s1) ;;
   (fun s1 => loop remove_light (n_lights (network s1)) s1) ;;
   (fun s1 => loop remove_inter (n_inters (network s1)) s1) ;;
   pure (fun s1 => set_network s1 empty_net)) s.

(* generate_object_id *)
Definition maxl (l : list Z) (d : Z) : Z := fold_left Z.max l d.
Definition generate (s : st) : st * Z :=
  let c0 := match counter s with None => 0 | Some c => c end in
  let c1 := match idset s with [] => c0 | x :: r => Z.max c0 (maxl r x) end in
  let g := c1 + 1 in
  (mkSt (idset s) (Some g) (network s) (statics s) (dynamics s) (envs s) (phantoms s) (g :: generated s), g).

Definition exec (o : op) : M :=
  match o with
  | Add a lids => add_one a lids
  | AddList l lids => loop (fun a => add_one a lids) l
  | RemoveObstacle z => remove_obstacle z
  | RemoveObstacles l => loop remove_obstacle l
  | RemoveLanelet l refs => remove_lanelets [l] refs
  | RemoveLanelets l refs => remove_lanelets l refs
  | RemoveSign z => remove_sign z
  | RemoveSigns l => loop remove_sign l
  | RemoveLight z => remove_light z
  | RemoveLights l => loop remove_light l
  | RemoveInter x => remove_inter x
  | RemoveInters l => loop remove_inter l
  | Replace n => erase ;; add_one (ANet n) []
  | Generate => ret
  end.

Definition step (s : st) (o : op) : st * res :=
  match o with
  | Generate => let (s1, g) := generate s in (s1, RId g)
  | _ => match exec o s with (s1, None) => (s1, RUnit) | (s1, Some e) => (s1, RErr e) end
  end.

(* ---------------------------------------------------------------- what the property talks about *)
Definition obstacle_ids (s : st) : list Z := statics s ++ dynamics s ++ envs s ++ phantoms s.
(* the ids of all contained objects (lanelets, signs, lights, intersections and their incomings, obstacles) *)
Definition contents_ids (s : st) : list Z := net_ids (network s) ++ obstacle_ids s.

(* admissibility guard (DESIGN 2.7): a removal names distinct objects that are contained *)
Definition inter_eqb (a b : inter) : bool :=
  (x_id a =? x_id b) && (if list_eq_dec Z.eq_dec (x_incs a) (x_incs b) then true else false).
Definition ok (s : st) (o : op) : bool :=
  match o with
  | RemoveObstacle z => mem z (obstacle_ids s)
  | RemoveObstacles l => nodupb l && forallb (fun z => mem z (obstacle_ids s)) l
  | RemoveLanelet l _ => has_lanelet (l_id l) (network s)
  | RemoveLanelets l _ => nodupb (map l_id l) && forallb (fun y => has_lanelet (l_id y) (network s)) l
  | RemoveSign z => mem z (n_signs (network s))
  | RemoveSigns l => nodupb l && forallb (fun z => mem z (n_signs (network s))) l
  | RemoveLight z => mem z (n_lights (network s))
  | RemoveLights l => nodupb l && forallb (fun z => mem z (n_lights (network s))) l
  | RemoveInter x => existsb (inter_eqb x) (n_inters (network s))
  | RemoveInters l => nodupb (map x_id l) && forallb (fun x => existsb (inter_eqb x) (n_inters (network s))) l
  | _ => true
  end.

(* the ids an argument of add_objects occupies, and the ids that stay when it is accepted
   (a network argument replaces the network the scenario holds) *)
Definition arg_ids (a : arg) : list Z :=
  match a with
  | AObj (OLanelet l) => [l_id l]
  | AObj (OSign z) => [z]
  | AObj (OLight z) => [z]
  | AObj (OObst _ z) => [z]
  | AObj (OInter x) => inter_ids x
  | ANet n => net_ids n
  end.
Definition kept_ids (a : arg) (s : st) : list Z :=
  match a with ANet _ => obstacle_ids s | AObj _ => contents_ids s end.
(* the ids a removal names *)
Definition removed_ids (o : op) : list Z :=
  match o with
  | RemoveObstacle z => [z] | RemoveObstacles l => l
  | RemoveLanelet l _ => [l_id l] | RemoveLanelets l _ => map l_id l
  | RemoveSign z => [z] | RemoveSigns l => l
  | RemoveLight z => [z] | RemoveLights l => l
  | RemoveInter x => inter_ids x | RemoveInters l => flat_map inter_ids l
  | _ => []
  end.
Definition is_removal (o : op) : bool :=
  match o with Add _ _ | AddList _ _ | Replace _ | Generate => false | _ => true end.
