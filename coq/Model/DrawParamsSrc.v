(* Model/DrawParamsSrc.v — the statement language into which harness/props/c19_src.py parses the bodies of
   BaseParam.__setattr__ and BaseParam.__post_init__ (commonroad/visualization/draw_params.py) on every run
   (Gen/Src_drawparams.v), and its meaning on the trees of Model/DrawParams.v.  Proofs/SrcDrawParams.v proves the
   parsed programs to have the meaning of the model's [set] / [post_init].

       __setattr__(self, name, value)                          parsed as
         if name in {f.name for f in dataclasses.fields(self)}:   SStoreIfDeclares
             super().__setattr__(name, value)
         super().__setattr__(name, value)           (unguarded)   SStore
         if self.__initialized:                                   SForIfInit [...]
             for k, v in self.__dict__.items():                   (SFor [...] when unguarded)
                 if isinstance(v, BaseParam):                       ICallIfGroup
                     v.__setattr__(name, value)
                 v.__setattr__(name, value)        (unguarded)      ICall
       __post_init__(self)
         self.__initialized = True                                PInitTrue
         self.k = self.k                                          PReassign k

   Meaning.  A group is a [node]; object.__setattr__ on a name the group does not declare would create a new instance
   attribute, which the trees cannot express: [None].  The loop visits the declared fields in order (the private flag
   _BaseParam__initialized, a bool, is in __dict__ too; it is no group).  [v.__setattr__] on a nested group is the
   whole program again (the nested groups are constructed objects: their flag is True); on anything else it is an
   AttributeError ([None]).  Recursion through nested groups is bounded by explicit fuel ([None] = out of fuel). *)
From Coq Require Import String List Bool.
Import ListNotations.
From CR Require Import Model.DrawParams.
Open Scope string_scope.
Open Scope list_scope.

Inductive istmt := ICallIfGroup | ICall.
Inductive stmt := SStoreIfDeclares | SStore | SForIfInit (b : list istmt) | SFor (b : list istmt).
Inductive pstmt := PInitTrue | PReassign (k : string).

Section Sem.
  Variables (name : string) (v : val).
  Variable call : node -> option node.      (* x.__setattr__(name, value) on a nested group *)

  Definition istep (s : istmt) (x : val) : option val :=
    match s, x with
    | _, VNode m => option_map VNode (call m)
    | ICallIfGroup, _ => Some x
    | ICall, _ => None
    end.
  Fixpoint iexec (b : list istmt) (x : val) : option val :=
    match b with
    | [] => Some x
    | s :: r => match istep s x with Some x' => iexec r x' | None => None end
    end.
  (* the loop over the items, in order; every body must return normally *)
  Fixpoint for_items (b : list istmt) (fs : list (string * val)) : option (list (string * val)) :=
    match fs with
    | [] => Some []
    | (k, x) :: r =>
        match iexec b x with
        | None => None
        | Some x' => match for_items b r with Some r' => Some ((k, x') :: r') | None => None end
        end
    end.

  Definition step (init : bool) (s : stmt) (n : node) : option node :=
    match s with
    | SStoreIfDeclares => Some (if declares n name then set_own name v n else n)
    | SStore => if declares n name then Some (set_own name v n) else None
    | SForIfInit b =>
        if init then match n with Node c fs => option_map (Node c) (for_items b fs) end else Some n
    | SFor b => match n with Node c fs => option_map (Node c) (for_items b fs) end
    end.
  Fixpoint sexec (init : bool) (p : list stmt) (n : node) : option node :=
    match p with
    | [] => Some n
    | s :: r => match step init s n with Some n' => sexec init r n' | None => None end
    end.
End Sem.

(* group.name = v on a constructed group *)
Fixpoint exec (fuel : nat) (prog : list stmt) (name : string) (v : val) (n : node) {struct fuel} : option node :=
  match fuel with
  | O => None
  | S f => sexec name v (exec f prog name v) true prog n
  end.

(* __post_init__: the flag, then the re-assignments; an assignment before the flag is set reaches no nested group *)
Fixpoint pexec (fuel : nat) (prog : list stmt) (init : bool) (p : list pstmt) (n : node) : option node :=
  match p with
  | [] => Some n
  | PInitTrue :: r => pexec fuel prog true r n
  | PReassign k :: r =>
      match field n k with
      | None => None                                        (* AttributeError *)
      | Some x =>
          match sexec k x (exec fuel prog k x) init prog n with
          | Some n' => pexec fuel prog init r n'
          | None => None
          end
      end
  end.

(* nesting depth of a tree / of a value *)
Fixpoint depth (n : node) {struct n} : nat :=
  match n with
  | Node _ fs =>
      S ((fix go (l : list (string * val)) : nat :=
            match l with
            | [] => O
            | (_, x) :: r => Nat.max (match x with VNode m => depth m | _ => O end) (go r)
            end) fs)
  end.
Definition vdepth (x : val) : nat := match x with VNode m => depth m | _ => O end.

(* the programs the unchanged source parses to *)
Definition canon_setattr : list stmt := [SStoreIfDeclares; SForIfInit [ICallIfGroup]].
Definition canon_post_init : list pstmt :=
  [PInitTrue; PReassign "time_begin"; PReassign "time_end"; PReassign "antialiased"].
