(* Model/ReadOnly.v — C18: the read-only operations on a scenario and its planning problems, as functions
   state -> state * result, with every side effect the code has (lazily filled caches, rebuilt indices, a
   dict that may be indexed) written into the model.

   Transcribed from (line numbers of the repaired tree):
     commonroad/prediction/prediction.py    occupancy_set cached_property (291-299), _create_occupancy_set (391-409),
                                            Prediction.occupancy_at_time_step (121-138)
     commonroad/scenario/obstacle.py        StaticObstacle.occupancy_at_time (419-426), DynamicObstacle (612-625),
                                            PhantomObstacle (797-810), EnvironmentObstacle (954-961)
     commonroad/scenario/scenario.py        occupancies_at_time_step (1046-1069), obstacles (670-679)
     commonroad/scenario/lanelet.py         Lanelet.distance / inner_distance (293-314), get_obstacles (727-747),
                                            LaneletNetwork.__getstate__/__setstate__/__deepcopy__ (1299-1322),
                                            _create_strtree (1572-1601), find_lanelet_by_position / _by_shape
     commonroad/scenario/traffic_light.py   cycle_init_timesteps (173-179), get_state_at_time_step (181-186)
     commonroad/planning/goal.py            GoalRegion.is_reached (96-128: works on deep copies), __eq__/__hash__ (41-60)
     commonroad/common/writer/file_writer_xml.py       PlanningProblemXMLNode.create_node (1018-1027)
     commonroad/common/writer/file_writer_protobuf.py  PlanningProblemMessage.create_message (830-841)
     commonroad/common/reader/file_reader_xml.py       GoalRegionFactory (1420-1431: the table is a defaultdict(list))
     commonroad/geometry/shape.py           occupancy_shape_from_state (553-627: the region occupied in an uncertain state
                                            is a new Rectangle around a new centre array; position / orientation are read)
     commonroad/visualization/mp_renderer.py  draw_lanelet_network (990-1024: with draw_intersections the id sets of all
                                            intersections are united with set.union over the unpacked list, i.e. into new sets)

   [code] selects between the code as it is now ([repaired]) and the two earlier versions, so that the theorems
   about the repaired code are not vacuous: the earlier versions are refuted in Proofs/ReadOnly.v. *)
From Coq Require Import List ZArith Bool PArith.
Import ListNotations.
Open Scope Z_scope.

Record code := {
  occ_on_copy : bool;     (* prediction.py:397  state = copy.copy(state) before the heading is assigned *)
  pb_checks_key : bool    (* file_writer_protobuf.py:833  `i in lanelets_of_goal_position` before indexing *)
}.
Definition repaired : code := {| occ_on_copy := true; pb_checks_key := true |}.

(* ------------------------------------------------------------------ stored data *)
Inductive attr := Position | Orientation | Velocity | VelocityY | Other (n : positive).
Definition attr_eqb (a b : attr) : bool :=
  match a, b with
  | Position, Position | Orientation, Orientation | Velocity, Velocity | VelocityY, VelocityY => true
  | Other n, Other m => Pos.eqb n m
  | _, _ => false
  end.

(* a stored trajectory state: time step, the names in the instance dictionary (State.attributes), whether the
   class provides `orientation` as a property (PMState), and the stored values (exact or uncertain position — the
   arrays of a position region by value —, orientation or orientation interval, ...) as one number *)
Record tstate := { st_time : Z; st_attrs : list attr; st_prop_orient : bool; st_val : Z }.
Definition in_dict (a : attr) (st : tstate) : bool := existsb (attr_eqb a) (st_attrs st).
Definition has_attr (a : attr) (st : tstate) : bool :=      (* hasattr(state, a) *)
  in_dict a st || match a with Orientation => st_prop_orient st | _ => false end.
Definition set_attr (a : attr) (st : tstate) : tstate :=    (* state.a = value *)
  if in_dict a st then st
  else {| st_time := st_time st; st_attrs := st_attrs st ++ [a]; st_prop_orient := st_prop_orient st;
          st_val := st_val st |}.

Inductive pred :=
| PTraj (sts : list tstate) (occ : option (list Z))   (* TrajectoryPrediction: states; cached occupancy_set (its time steps) *)
| PSet (times : list Z)                               (* SetBasedPrediction: time steps of the stored occupancies *)
| PNone.
Inductive role := Static | Dynamic | Phantom | Env.
(* o_val: the other stored data of the obstacle (shape, initial state, signals, ...) as one number *)
Record obst := { o_role : role; o_t0 : Z; o_pred : pred; o_val : Z }.

Record lanelet := { l_id : Z; l_dist : bool; l_inner : bool }.      (* _distance / _inner_distance is not None *)
Record cycle := { c_durs : list Z; c_off : Z; c_cum : option (list Z) }.   (* _cycle_init_timesteps, if the attribute exists *)
(* intersections: per incoming element its id and the id sets incoming_lanelets / successors_right / _straight /
   _left (sorted), per intersection its id, the incoming elements and the crossings *)
Record incoming := { i_id : Z; i_lanelets : list Z; i_right : list Z; i_straight : list Z; i_left : list Z }.
Record inter := { x_id : Z; x_incs : list incoming; x_cross : list Z }.
Record net := {
  n_lanelets : list lanelet;
  n_buffered : list Z;              (* keys of _buffered_polygons *)
  n_tree : option (list Z);         (* None: _strtee is None; Some ids: the lanelet ids indexed by _strtee *)
  n_lights : list (option cycle);   (* traffic lights: their cycle or None *)
  n_inters : list inter }.

(* GoalRegion.lanelets_of_goal_position: None, a dict, or the XML reader's defaultdict(list); items in insertion order *)
Inductive table := TNone | TDict (kv : list (Z * list Z)) | TDefault (kv : list (Z * list Z)).
Record goal := { g_n : nat; g_table : table }.      (* number of goal states; the table *)

Record scen := { s_obst : list obst; s_net : net; s_goals : list goal }.

(* ------------------------------------------------------------------ results *)
Inductive exn := AttributeError | KeyError.
Inductive found := Found | Missing | Raised.
(* the part of an exported file the modelled data determine: per obstacle its own data and the stored states with
   their attribute names and values, per planning problem the lanelet references written for every goal state, the
   intersections *)
Definition file := (list (Z * list (Z * list attr * Z)) * list (list (list Z)) * list inter)%type.
Inductive res :=
| RUnit | RErr (e : exn)
| RFound (f : found)
| RTimes (l : list Z) | RIds (l : list Z) | RCum (l : list Z)
| RCopy (c : scen)
| RFile (f : file).

(* ------------------------------------------------------------------ helpers *)
Fixpoint upd_nth {A} (k : nat) (f : A -> A) (l : list A) : list A :=
  match l, k with
  | [], _ => []
  | x :: r, O => f x :: r
  | x :: r, S k' => x :: upd_nth k' f r
  end.
Definition memZ (t : Z) (l : list Z) : bool := existsb (Z.eqb t) l.
Fixpoint lookup (i : Z) (kv : list (Z * list Z)) : option (list Z) :=
  match kv with
  | [] => None
  | (k, v) :: r => if Z.eqb k i then Some v else lookup i r
  end.
Definition table_items (t : table) : option (list (Z * list Z)) :=
  match t with TNone => None | TDict kv | TDefault kv => Some kv end.

(* ------------------------------------------------------------------ TrajectoryPrediction *)
(* _create_occupancy_set: for every state in order; a state without `orientation` gets one derived from
   (velocity_y, velocity) — on a shallow copy in the repaired code, on the stored state itself before;
   getattr(state, "velocity_y") / state.velocity raise AttributeError, which ends the loop.
   occupancy_shape_from_state reads the values of the (copied) state and builds new shapes: st_val is not written.
   Returns the states as they are afterwards and the time steps of the occupancies (None: raised). *)
Fixpoint create_occ (c : code) (sts : list tstate) : list tstate * option (list Z) :=
  match sts with
  | [] => ([], Some [])
  | st :: r =>
      if has_attr Orientation st then
        let (r', o) := create_occ c r in (st :: r', option_map (cons (st_time st)) o)
      else if has_attr VelocityY st && has_attr Velocity st then
        let st' := if occ_on_copy c then st else set_attr Orientation st in
        let (r', o) := create_occ c r in (st' :: r', option_map (cons (st_time st)) o)
      else (st :: r, None)
  end.

(* functools.cached_property occupancy_set: computed once, stored in the instance dictionary when no exception *)
Definition fill_occ (c : code) (p : pred) : pred * option (list Z) :=
  match p with
  | PTraj sts (Some ts) => (p, Some ts)
  | PTraj sts None => let (sts', o) := create_occ c sts in (PTraj sts' o, o)
  | PSet ts => (p, Some ts)
  | PNone => (p, None)
  end.

(* Prediction.occupancy_at_time_step: iterates self.occupancy_set *)
Definition pred_occ_at (c : code) (p : pred) (t : Z) : pred * found :=
  match p with
  | PNone => (p, Missing)
  | _ => let (p', o) := fill_occ c p in
         match o with
         | None => (p', Raised)
         | Some ts => (p', if memZ t ts then Found else Missing)
         end
  end.

Definition with_pred (o : obst) (p : pred) : obst :=
  {| o_role := o_role o; o_t0 := o_t0 o; o_pred := p; o_val := o_val o |}.

(* <role>Obstacle.occupancy_at_time *)
Definition occ_at (c : code) (o : obst) (t : Z) : obst * found :=
  match o_role o with
  | Static | Env => (o, Found)
  | Phantom => let (p', f) := pred_occ_at c (o_pred o) t in (with_pred o p', f)
  | Dynamic =>
      if Z.eqb t (o_t0 o) then (o, Found)
      else if Z.ltb (o_t0 o) t then let (p', f) := pred_occ_at c (o_pred o) t in (with_pred o p', f)
      else (o, Missing)
  end.

(* Scenario.occupancies_at_time_step: occupancy_at_time is called, and called again when it returned an
   occupancy; an exception ends the loop *)
Fixpoint occs_at (c : code) (os : list obst) (t : Z) : list obst * bool :=
  match os with
  | [] => ([], false)
  | o :: r =>
      let (o1, f) := occ_at c o t in
      match f with
      | Raised => (o1 :: r, true)
      | Missing => let (r', b) := occs_at c r t in (o1 :: r', b)
      | Found => let (r', b) := occs_at c r t in (fst (occ_at c o1 t) :: r', b)
      end
  end.

(* Lanelet.get_obstacles(obstacles, t): o.occupancy_at_time(t).shape for each obstacle in turn; a missing
   occupancy raises AttributeError *)
Fixpoint get_obstacles (c : code) (os : list obst) (ks : list nat) (t : Z) : list obst * bool :=
  match ks with
  | [] => (os, false)
  | k :: r =>
      match nth_error os k with
      | None => get_obstacles c os r t
      | Some o => let (o', f) := occ_at c o t in
                  let os' := upd_nth k (fun _ => o') os in
                  match f with Found => get_obstacles c os' r t | _ => (os', true) end
      end
  end.

(* ------------------------------------------------------------------ lanelets, lights, network *)
Definition fill_dists (l : lanelet) : lanelet := {| l_id := l_id l; l_dist := true; l_inner := true |}.
Definition fill_dist (l : lanelet) : lanelet := {| l_id := l_id l; l_dist := true; l_inner := l_inner l |}.

Fixpoint cumsum (acc : Z) (l : list Z) : list Z :=
  match l with [] => [] | d :: r => (acc + d) :: cumsum (acc + d) r end.
(* insert(cumsum(durations) + offset, 0, offset) *)
Definition cum_of (c : cycle) : list Z := c_off c :: cumsum (c_off c) (c_durs c).
Definition fill_cum (c : cycle) : cycle * list Z :=
  match c_cum c with
  | Some x => (c, x)
  | None => ({| c_durs := c_durs c; c_off := c_off c; c_cum := Some (cum_of c) |}, cum_of c)
  end.

Definition with_tree (n : net) (t : option (list Z)) : net :=
  {| n_lanelets := n_lanelets n; n_buffered := n_buffered n; n_tree := t; n_lights := n_lights n;
     n_inters := n_inters n |}.
Definition with_lanelets (n : net) (ls : list lanelet) : net :=
  {| n_lanelets := ls; n_buffered := n_buffered n; n_tree := n_tree n; n_lights := n_lights n;
     n_inters := n_inters n |}.
Definition with_lights (n : net) (ts : list (option cycle)) : net :=
  {| n_lanelets := n_lanelets n; n_buffered := n_buffered n; n_tree := n_tree n; n_lights := ts;
     n_inters := n_inters n |}.
(* _create_strtree: index over the buffered polygons (all of them are shapely polygons) *)
Definition create_tree (n : net) : net := with_tree n (Some (n_buffered n)).

Definition with_obst (s : scen) (os : list obst) : scen := {| s_obst := os; s_net := s_net s; s_goals := s_goals s |}.
Definition with_net (s : scen) (n : net) : scen := {| s_obst := s_obst s; s_net := n; s_goals := s_goals s |}.
Definition with_goals (s : scen) (gs : list goal) : scen := {| s_obst := s_obst s; s_net := s_net s; s_goals := gs |}.

(* ------------------------------------------------------------------ writers *)
(* both writers (repaired): `table is not None and i in table` ? table[i] : [] — for every goal state index *)
Definition goal_refs (g : goal) : list (list Z) :=
  map (fun i => match table_items (g_table g) with
                | None => []
                | Some kv => match lookup (Z.of_nat i) kv with Some v => v | None => [] end
                end) (seq 0 (g_n g)).
Definition pred_states (p : pred) : list (Z * list attr * Z) :=
  match p with PTraj sts _ => map (fun st => (st_time st, st_attrs st, st_val st)) sts | _ => [] end.
Definition export (s : scen) : file :=
  (map (fun o => (o_val o, pred_states (o_pred o))) (s_obst s), map goal_refs (s_goals s), n_inters (s_net s)).

(* draw_lanelet_network with draw_intersections: set.union, unpacked list, over all incoming elements / intersections;
   the unions are new sets (here: concatenations), the stored sets are only read *)
Definition inter_unions (xs : list inter) : list Z :=
  let incs := flat_map x_incs xs in
  flat_map i_lanelets incs ++ flat_map x_cross xs ++ flat_map i_left incs ++ flat_map i_straight incs
  ++ flat_map i_right incs.

(* the protobuf writer before the repair: `table is not None` ? table[i] : [] — indexing a dict without the
   key raises KeyError, indexing a defaultdict without the key inserts (i, []) *)
Fixpoint pb_index (n : nat) (i : Z) (t : table) : table * bool :=
  match n with
  | O => (t, false)
  | S n' =>
      match t with
      | TNone => (t, false)
      | TDict kv => match lookup i kv with Some _ => pb_index n' (i + 1) t | None => (t, true) end
      | TDefault kv => match lookup i kv with
                       | Some _ => pb_index n' (i + 1) t
                       | None => pb_index n' (i + 1) (TDefault (kv ++ [(i, [])]))
                       end
      end
  end.
Fixpoint pb_goals_old (gs : list goal) : list goal * bool :=
  match gs with
  | [] => ([], false)
  | g :: r => let (t', raised) := pb_index (g_n g) 0 (g_table g) in
              let g' := {| g_n := g_n g; g_table := t' |} in
              if raised then (g' :: r, true)
              else let (r', b) := pb_goals_old r in (g' :: r', b)
  end.

(* ------------------------------------------------------------------ the read-only operations *)
Inductive op :=
| OccAt (k : nat) (t : Z)              (* obstacle k: occupancy_at_time(t) *)
| OccsAt (t : Z)                       (* scenario.occupancies_at_time_step(t) *)
| OccSet (k : nat)                     (* obstacle k: prediction.occupancy_set *)
| StateAt (k : nat) (t : Z)            (* obstacle k: state_at_time(t) *)
| StatesAt (t : Z)                     (* scenario.obstacle_states_at_time_step(t) *)
| FindPos | FindShape                  (* lanelet_network.find_lanelet_by_position / _by_shape *)
| FindId                               (* find_lanelet_by_id, map_inc_lanelets_to_intersections *)
| LaneletDist (k : nat)                (* lanelet k: distance, interpolate_position *)
| LaneletQ (k : nat)                   (* lanelet k: distance, inner_distance, polygon, interpolate_position, contains_points *)
| GetObstacles (ks : list nat) (t : Z) (* some lanelet: get_obstacles([obstacles ks], t) *)
| LightAt (k : nat) (t : Z)            (* traffic light k: get_state_at_time_step(t) *)
| IsReached | GoalReached              (* goal.is_reached(state), planning_problem.goal_reached(trajectory) *)
| EqOp | HashOp | StrOp                (* == / != , hash, str / repr on the scenario, the planning problems and their parts *)
| DeepCopy                             (* copy.deepcopy of scenario, planning problem set, lanelet network *)
| ShallowCopy | Pickle                 (* copy.copy; pickle.dumps + loads *)
| Draw (hl : bool) (occ : list nat) (dist : list nat) (cum : list nat)
      (* draw + render with any draw parameters; hl: draw_params.lanelet_network.intersection.draw_intersections (the
         id sets of the intersections are united).  Which occupancy sets / lanelet distances / light cycles the
         renderer asks for depends on the other draw parameters and the geometry — an oracle input of the operation *)
| XmlWrite | PbWrite.

Definition step (c : code) (s : scen) (o : op) : scen * res :=
  match o with
  | OccAt k t =>
      match nth_error (s_obst s) k with
      | None => (s, RUnit)
      | Some ob => let (ob', f) := occ_at c ob t in (with_obst s (upd_nth k (fun _ => ob') (s_obst s)), RFound f)
      end
  | OccsAt t => let (os, raised) := occs_at c (s_obst s) t in
                (with_obst s os, if raised then RErr AttributeError else RUnit)
  | OccSet k =>
      match nth_error (s_obst s) k with
      | None => (s, RUnit)
      | Some ob => let (p', o) := fill_occ c (o_pred ob) in
                   (with_obst s (upd_nth k (fun _ => with_pred ob p') (s_obst s)),
                    match o with Some ts => RTimes ts | None => RErr AttributeError end)
      end
  | StateAt _ _ | StatesAt _ | FindId | IsReached | GoalReached | EqOp | HashOp | StrOp | ShallowCopy => (s, RUnit)
  | FindPos | FindShape =>
      match n_tree (s_net s) with
      | None => (s, RErr AttributeError)
      | Some ids => (s, RIds ids)
      end
  | LaneletDist k => (with_net s (with_lanelets (s_net s) (upd_nth k fill_dist (n_lanelets (s_net s)))), RUnit)
  | LaneletQ k => (with_net s (with_lanelets (s_net s) (upd_nth k fill_dists (n_lanelets (s_net s)))), RUnit)
  | GetObstacles ks t => let (os, raised) := get_obstacles c (s_obst s) ks t in
                         (with_obst s os, if raised then RErr AttributeError else RUnit)
  | LightAt k t =>
      match nth_error (n_lights (s_net s)) k with
      | None => (s, RUnit)
      | Some None => (s, RErr AttributeError)
      | Some (Some cy) =>
          (with_net s (with_lights (s_net s) (upd_nth k (option_map (fun x => fst (fill_cum x))) (n_lights (s_net s)))),
           RCum (snd (fill_cum cy)))
      end
  | DeepCopy =>
      let s1 := with_net s (with_tree (s_net s) None) in      (* self._strtee = None *)
      let result := with_net s1 (create_tree (s_net s1)) in   (* every field copied; result._create_strtree() *)
      (with_net s1 (create_tree (s_net s1)), RCopy result)    (* self._create_strtree() *)
  | Pickle =>
      (* __getstate__ leaves the index out of a copy of the instance dictionary; __setstate__ rebuilds it *)
      (s, RCopy (with_net s (create_tree (s_net s))))
  | Draw hl occ dist cum =>
      let os := fold_left (fun os k => match nth_error os k with
                                       | None => os
                                       | Some ob => upd_nth k (fun _ => with_pred ob (fst (fill_occ c (o_pred ob)))) os
                                       end) occ (s_obst s) in
      let ls := fold_left (fun ls k => upd_nth k fill_dist ls) dist (n_lanelets (s_net s)) in
      let ts := fold_left (fun ts k => upd_nth k (option_map (fun x => fst (fill_cum x))) ts) cum (n_lights (s_net s)) in
      ({| s_obst := os; s_net := with_lights (with_lanelets (s_net s) ls) ts; s_goals := s_goals s |},
       if hl then RIds (inter_unions (n_inters (s_net s))) else RUnit)
  | XmlWrite => (s, RFile (export s))
  | PbWrite =>
      if pb_checks_key c then (s, RFile (export s))
      else let (gs, raised) := pb_goals_old (s_goals s) in
           (with_goals s gs, if raised then RErr KeyError else RFile (export s))
  end.

Definition is_write (o : op) : bool := match o with XmlWrite | PbWrite => true | _ => false end.

(* ------------------------------------------------------------------ the observation: everything but the caches *)
Definition obs_pred (p : pred) : pred := match p with PTraj sts _ => PTraj sts None | _ => p end.
Definition obs_obst (o : obst) : obst := with_pred o (obs_pred (o_pred o)).
Definition obs_lanelet (l : lanelet) : lanelet := {| l_id := l_id l; l_dist := false; l_inner := false |}.
Definition obs_cycle (c : cycle) : cycle := {| c_durs := c_durs c; c_off := c_off c; c_cum := None |}.
Definition obs_net (n : net) : net :=
  {| n_lanelets := map obs_lanelet (n_lanelets n); n_buffered := []; n_tree := None;
     n_lights := map (option_map obs_cycle) (n_lights n); n_inters := n_inters n |}.
Definition observe (s : scen) : scen :=
  {| s_obst := map obs_obst (s_obst s); s_net := obs_net (s_net s); s_goals := s_goals s |}.

(* ------------------------------------------------------------------ cache coherence *)
(* what a filled cache holds is determined by the primary data *)
Definition all_headed (sts : list tstate) : bool :=
  forallb (fun st => has_attr Orientation st || (has_attr VelocityY st && has_attr Velocity st)) sts.
Definition pred_coh (p : pred) : Prop :=
  match p with PTraj sts (Some ts) => ts = map st_time sts /\ all_headed sts = true | _ => True end.
Definition cycle_coh (c : option cycle) : Prop :=
  match c with Some cy => forall x, c_cum cy = Some x -> x = cum_of cy | None => True end.
Definition Coh (s : scen) : Prop :=
  Forall (fun o => pred_coh (o_pred o)) (s_obst s) /\ Forall cycle_coh (n_lights (s_net s)) /\
  n_tree (s_net s) = Some (n_buffered (s_net s)).
