(* Model/IdPoolSrc.v — the statement language into which harness/props/c09_src.py parses, on every run, the four
   private methods of commonroad.scenario.scenario.Scenario that keep the id pool (Gen/Src_idpool.v):

       _is_object_id_used(self, object_id)        return object_id in self._id_set              -> UsedIsMember
       _mark_object_id_as_used(self, object_id)   a list of [istmt] about the one id            -> src_mark_one
       _mark_object_ids_as_used(self, object_ids) new_ids = set(); for id in ids: <istmt>; for id in ids: <istmt>
                                                                                                 -> src_mark_all
       generate_object_id(self)                   a list of [gstmt]                              -> src_generate

   statements about one id x (the loop variable / the parameter):
       if <cond>: <atoms>                          SIf c atoms
       self._id_counter = x                        ACounterSetX
       raise ValueError(...)                       ARaise
       self._id_set.add(x)                         ASetAdd
       new_ids.add(x)                              ANewAdd
       self._mark_object_id_as_used(x)             ACallMark        (runs the parsed _mark_object_id_as_used)
   conditions:
       self._id_counter is None                    CCounterNone
       self._is_object_id_used(x)                  CUsed            (membership in _id_set, given UsedIsMember)
       x in new_ids                                CInNew
       a or b                                      COr a b
   generate_object_id:
       if self._id_counter is None: self._id_counter = 0                                    GInitCounter
       if len(self._id_set) > 0: self._id_counter = max(self._id_counter, max(self._id_set)) GRaiseToMax
       self._id_counter += 1                                                                 GIncrement
       return self._id_counter                                                               GReturnCounter

   Meaning: a state is (_id_set as the duplicate-free list of Model/IdPool.v, _id_counter, the local new_ids); a raise
   ends the method with the state reached so far.  Proofs/SrcIdPool.v proves the parsed programs to compute
   [mark_one], [mark_all] and [generate] of Model/IdPool.v. *)
From Coq Require Import ZArith List Bool.
Import ListNotations.
From CR Require Import Model.IdPool.
Open Scope Z_scope.

Inductive used_def := UsedIsMember.
Inductive cond := CCounterNone | CUsed | CInNew | COr (a b : cond).
Inductive atom := ACounterSetX | ARaise | ASetAdd | ANewAdd | ACallMark.
Inductive istmt := SDo (a : atom) | SIf (c : cond) (body : list atom).
Inductive gstmt := GInitCounter | GRaiseToMax | GIncrement | GReturnCounter.

Record pst := { p_ids : list Z; p_ctr : option Z; p_new : list Z }.

Fixpoint ceval (c : cond) (x : Z) (s : pst) : bool :=
  match c with
  | CCounterNone => match p_ctr s with None => true | Some _ => false end
  | CUsed => mem x (p_ids s)
  | CInNew => mem x (p_new s)
  | COr a b => ceval a x s || ceval b x s
  end.

Section Sem.
  Variable mark : Z -> pst -> pst * bool.     (* ACallMark: the parsed _mark_object_id_as_used; true = raised *)

  Definition arun (a : atom) (x : Z) (s : pst) : pst * bool :=
    match a with
    | ACounterSetX => ({| p_ids := p_ids s; p_ctr := Some x; p_new := p_new s |}, false)
    | ARaise => (s, true)
    | ASetAdd => ({| p_ids := if mem x (p_ids s) then p_ids s else x :: p_ids s; p_ctr := p_ctr s; p_new := p_new s |},
                  false)
    | ANewAdd => ({| p_ids := p_ids s; p_ctr := p_ctr s; p_new := if mem x (p_new s) then p_new s else x :: p_new s |},
                  false)
    | ACallMark => mark x s
    end.
  Fixpoint aruns (l : list atom) (x : Z) (s : pst) : pst * bool :=
    match l with
    | [] => (s, false)
    | a :: r => match arun a x s with (s1, true) => (s1, true) | (s1, false) => aruns r x s1 end
    end.
  Definition srun (st : istmt) (x : Z) (s : pst) : pst * bool :=
    match st with
    | SDo a => arun a x s
    | SIf c body => if ceval c x s then aruns body x s else (s, false)
    end.
  Fixpoint sruns (l : list istmt) (x : Z) (s : pst) : pst * bool :=
    match l with
    | [] => (s, false)
    | st :: r => match srun st x s with (s1, true) => (s1, true) | (s1, false) => sruns r x s1 end
    end.
  (* for object_id in object_ids: <body> *)
  Fixpoint for_ids (body : list istmt) (ids : list Z) (s : pst) : pst * bool :=
    match ids with
    | [] => (s, false)
    | x :: r => match sruns body x s with (s1, true) => (s1, true) | (s1, false) => for_ids body r s1 end
    end.
End Sem.

(* _mark_object_id_as_used never calls itself *)
Definition no_mark : Z -> pst -> pst * bool := fun _ s => (s, true).
Definition run_mark_one (prog : list istmt) (x : Z) (s : pst) : pst * bool := sruns no_mark prog x s.
(* _mark_object_ids_as_used: new_ids = set(), the checking loop, the marking loop *)
Definition run_mark_all (mark_prog : list istmt) (check body : list istmt) (ids : list Z) (s : pst) : pst * bool :=
  let s0 := {| p_ids := p_ids s; p_ctr := p_ctr s; p_new := [] |} in
  match for_ids (run_mark_one mark_prog) check ids s0 with
  | (s1, true) => (s1, true)
  | (s1, false) => for_ids (run_mark_one mark_prog) body ids s1
  end.

Definition grun (g : gstmt) (s : pst * option Z) : pst * option Z :=
  let (p, ret) := s in
  match g with
  | GInitCounter => ({| p_ids := p_ids p; p_ctr := match p_ctr p with None => Some 0 | c => c end; p_new := p_new p |}, ret)
  | GRaiseToMax =>
      match p_ids p, p_ctr p with
      | x :: r, Some c => ({| p_ids := p_ids p; p_ctr := Some (Z.max c (maxl r x)); p_new := p_new p |}, ret)
      | _, _ => (p, ret)
      end
  | GIncrement => ({| p_ids := p_ids p; p_ctr := option_map (fun c => c + 1) (p_ctr p); p_new := p_new p |}, ret)
  | GReturnCounter => (p, p_ctr p)
  end.
Definition run_generate (prog : list gstmt) (s : pst) : pst * option Z := fold_left (fun a g => grun g a) prog (s, None).

(* the programs the unchanged source parses to *)
Definition canon_mark_one : list istmt := [SIf CCounterNone [ACounterSetX]; SIf CUsed [ARaise]; SDo ASetAdd].
Definition canon_check : list istmt := [SIf (COr CUsed CInNew) [ARaise]; SDo ANewAdd].
Definition canon_body : list istmt := [SDo ACallMark].
Definition canon_generate : list gstmt := [GInitCounter; GRaiseToMax; GIncrement; GReturnCounter].

Definition of_st (s : st) : pst := {| p_ids := idset s; p_ctr := counter s; p_new := [] |}.
