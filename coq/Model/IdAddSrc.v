(* Model/IdAddSrc.v — the statement language into which harness/props/c09_add_src.py parses Scenario.add_objects and
   Scenario._lanelet_network_object_ids (commonroad/scenario/scenario.py) on every run, and its interpreter over the
   state of Model/IdPool.v.  Proofs/SrcIdAdd.v proves the parsed program (Gen/Src_idadd.v) to compute add_one / the list
   form of Model/IdPool.v on every argument and state.

   add_objects is a chain of `elif isinstance(o, K)` branches; the first branch whose class the argument has runs
   (the nine classes are pairwise unrelated by inheritance: trusted, obstacle.py / lanelet.py / traffic_sign.py /
   traffic_light.py / intersection.py), the final else raises ValueError.  Statements of a branch:
     self._mark_object_id_as_used(o.<id of K>)                                          AMark
     self._mark_object_ids_as_used(self._lanelet_network_object_ids(o))                 AMarkNet
     self._mark_object_ids_as_used([o.intersection_id] + [i.incoming_id for i in o.incomings])   AMarkInter
     self._D[o.obstacle_id] = o                                                         AStore role-of-D
     self._lanelet_network.add_K(o[, lanelet_ids])                                      ANetAdd K
     for i in self._lanelet_network_object_ids(self._lanelet_network): self._id_set.discard(i)   AReleaseOld
     self._lanelet_network = o                                                          ASetNet
     lanelet_ids = set() if lanelet_ids is None else lanelet_ids                        ADefaultLids (None = [] here)
     self._add_*_obstacle_to_lanelets(...)                                              ASkipA (registries: C07)
   A statement applied to an argument of another kind than it expects is an error of the interpreter (OtherError), so
   a branch that runs the wrong statements cannot be proved equal to the model. *)
From Coq Require Import ZArith List Bool.
Import ListNotations.
From CR Require Import Model.IdPool Model.IdRemoveSrc.
Open Scope Z_scope.

Inductive akind := CStatic | CDynamic | CEnv | CPhantom | CNet | CLanelet | CSign | CLight | CInter.
Inductive astmt := AMark | AMarkNet | AMarkInter | AStore (r : role) | ANetAdd (k : nkind) | AReleaseOld | ASetNet
                 | ADefaultLids | ASkipA.
Inductive nidpart := NLanelets | NSigns | NLights | NInters.
Record addsrc := { ad_list_recursive : bool; ad_branches : list (akind * list astmt); ad_net_ids : list nidpart }.

Definition akind_eqb (a b : akind) : bool :=
  match a, b with
  | CStatic, CStatic | CDynamic, CDynamic | CEnv, CEnv | CPhantom, CPhantom | CNet, CNet | CLanelet, CLanelet
  | CSign, CSign | CLight, CLight | CInter, CInter => true
  | _, _ => false
  end.
Definition kind_of (a : arg) : akind :=
  match a with
  | AObj (OObst Static _) => CStatic | AObj (OObst Dynamic _) => CDynamic | AObj (OObst Env _) => CEnv
  | AObj (OObst Phantom _) => CPhantom | ANet _ => CNet | AObj (OLanelet _) => CLanelet | AObj (OSign _) => CSign
  | AObj (OLight _) => CLight | AObj (OInter _) => CInter
  end.
Definition main_id (a : arg) : option Z :=
  match a with
  | AObj (OObst _ z) => Some z | AObj (OLanelet l) => Some (l_id l) | AObj (OSign z) => Some z
  | AObj (OLight z) => Some z | AObj (OInter x) => Some (x_id x) | ANet _ => None
  end.
Definition ill : M := fun s => (s, Some OtherError).

Definition nid_part (n : net) (p : nidpart) : list Z :=
  match p with
  | NLanelets => map l_id (n_lanelets n) | NSigns => n_signs n | NLights => n_lights n
  | NInters => flat_map (fun x => x_id x :: x_incs x) (n_inters n)
  end.
Definition nids_run (l : list nidpart) (n : net) : list Z := flat_map (nid_part n) l.

Section Run.
  Variable P : addsrc.
  Definition astmt_run (a : arg) (lids : list Z) (st : astmt) : M :=
    match st with
    | AMark => match main_id a with Some z => mark_one z | None => ill end
    | AMarkNet => match a with ANet n => mark_all (nids_run (ad_net_ids P) n) | _ => ill end
    | AMarkInter => match a with AObj (OInter x) => mark_all (x_id x :: x_incs x) | _ => ill end
    | AStore r => match a with AObj (OObst _ z) => pure (fun s => set_obst r s (dset z (obst r s))) | _ => ill end
    | ANetAdd k =>
        match k, a with
        | KLanelet, AObj (OLanelet l) => on_net (net_add_lanelet l)
        | KSign, AObj (OSign z) => on_net (net_add_sign z lids)
        | KLight, AObj (OLight z) => on_net (net_add_light z lids)
        | KInter, AObj (OInter x) => on_net (net_add_inter x)
        | _, _ => ill
        end
    | AReleaseOld => fun s => loop id_discard (nids_run (ad_net_ids P) (network s)) s
    | ASetNet => match a with ANet n => pure (fun s => set_network s n) | _ => ill end
    | ADefaultLids => ret
    | ASkipA => ret
    end.
  Fixpoint astmts_run (a : arg) (lids : list Z) (l : list astmt) : M :=
    match l with [] => ret | x :: r => astmt_run a lids x ;; astmts_run a lids r end.
  Definition run_add (a : arg) (lids : list Z) : M :=
    match find (fun b => akind_eqb (fst b) (kind_of a)) (ad_branches P) with
    | Some b => astmts_run a lids (snd b)
    | None => fun s => (s, Some ValueError)
    end.
  Definition run_add_list (l : list arg) (lids : list Z) : M :=
    if ad_list_recursive P then loop (fun a => run_add a lids) l else ill.
End Run.

(* every operation through parsed methods (Generate: C09_generate_is_source) *)
Definition src_exec_all (R : removal_src) (A : addsrc) (o : op) : M :=
  match o with
  | Add a lids => run_add A a lids
  | AddList l lids => run_add_list A l lids
  | _ => src_exec R o
  end.
