(* Model/Network.v — the id-valued content of a LaneletNetwork and the operations that remove from it (C10).

   Transcribed from commonroad/scenario/lanelet.py
     LaneletNetwork.remove_lanelet / cleanup_lanelet_references             1597-1640
     remove_traffic_sign / cleanup_traffic_sign_references                   1642-1678
     remove_traffic_light / cleanup_traffic_light_references                 1680-1698
     remove_intersection                                                     1709-1716
     create_from_lanelet_list / create_from_lanelet_network (cleanup_ids)    1431-1563
   and commonroad/scenario/scenario.py
     remove_hanging_lanelet_members / remove_lanelet                         (Scenario level, single and list form)
     remove_traffic_sign / remove_traffic_light / remove_intersection        (loops over the network methods)

   Python sets and dicts are lists (a dict in insertion order); set intersection is [filter], which keeps the
   order — the correspondence compares relations as sets.  Everything of an element that is not an id-valued
   reference (geometry, markings, sign elements, light cycle, ...) is an opaque payload that no operation may
   change.  A stop line's reference set [None] is modelled as the empty list.
   The model describes the code after "fix: create_from_lanelet_network clears left_of of an incoming element when the
   incoming it names is not part of the new intersection" ([fix_leftof]); that the cut-out drops incoming elements
   whose successors were all cut is modelled as it is ([cut_incoming], specification [prune]; known finding).
   Domain: removal lists at Scenario level name distinct contained elements (otherwise the id bookkeeping raises,
   C09); cleanup_ids = True. *)
From Coq Require Import ZArith List Bool.
Import ListNotations.
Open Scope Z_scope.

Record lanelet := mkL {
  l_id : Z; l_pred : list Z; l_succ : list Z;
  l_adjL : option Z; l_adjL_dir : option bool; l_adjR : option Z; l_adjR_dir : option bool;
  l_signs : list Z; l_lights : list Z;
  l_stop : option (list Z * list Z);            (* stop line: traffic_sign_ref, traffic_light_ref *)
  l_types : list Z;                             (* lanelet types (index in the enum) *)
  l_payload : Z }.
Record incoming := mkI {
  i_id : Z; i_lanelets : list Z; i_right : list Z; i_straight : list Z; i_left : list Z; i_leftof : option Z }.
Record inter := mkX { x_id : Z; x_incs : list incoming; x_cross : list Z }.
Record network := mkN {
  lanelets : list lanelet; signs : list (Z * Z); lights : list (Z * Z);   (* sign / light: (id, payload) *)
  inters : list inter }.

Definition mem (z : Z) (l : list Z) : bool := existsb (Z.eqb z) l.
Definition keepl (k : Z -> bool) (l : list Z) : list Z := filter k l.
Definition keepo (k : Z -> bool) (o : option Z) : option Z :=
  match o with Some z => if k z then Some z else None | None => None end.
(* the direction flag goes with the adjacency *)
Definition keepd (k : Z -> bool) (o : option Z) (d : option bool) : option bool :=
  match o with Some z => if k z then d else None | None => None end.

Definition lanelet_ids (n : network) : list Z := map l_id (lanelets n).
Definition sign_ids (n : network) : list Z := map fst (signs n).
Definition light_ids (n : network) : list Z := map fst (lights n).
Definition inter_ids (n : network) : list Z := map x_id (inters n).

(* ---------------------------------------------------------------- reference filters (the three cleanup_* methods,
   parameterised by the predicate "this id exists") *)
Definition clean_lanelet_l (k : Z -> bool) (l : lanelet) : lanelet :=
  mkL (l_id l) (keepl k (l_pred l)) (keepl k (l_succ l))
      (keepo k (l_adjL l)) (keepd k (l_adjL l) (l_adjL_dir l)) (keepo k (l_adjR l)) (keepd k (l_adjR l) (l_adjR_dir l))
      (l_signs l) (l_lights l) (l_stop l) (l_types l) (l_payload l).
Definition clean_incoming_l (k : Z -> bool) (i : incoming) : incoming :=
  mkI (i_id i) (keepl k (i_lanelets i)) (keepl k (i_right i)) (keepl k (i_straight i)) (keepl k (i_left i)) (i_leftof i).
Definition clean_inter_l (k : Z -> bool) (x : inter) : inter :=
  mkX (x_id x) (map (clean_incoming_l k) (x_incs x)) (keepl k (x_cross x)).
Definition clean_lanelet_s (k : Z -> bool) (l : lanelet) : lanelet :=
  mkL (l_id l) (l_pred l) (l_succ l) (l_adjL l) (l_adjL_dir l) (l_adjR l) (l_adjR_dir l)
      (keepl k (l_signs l)) (l_lights l)
      (match l_stop l with Some (s, t) => Some (keepl k s, t) | None => None end) (l_types l) (l_payload l).
Definition clean_lanelet_t (k : Z -> bool) (l : lanelet) : lanelet :=
  mkL (l_id l) (l_pred l) (l_succ l) (l_adjL l) (l_adjL_dir l) (l_adjR l) (l_adjR_dir l)
      (l_signs l) (keepl k (l_lights l))
      (match l_stop l with Some (s, t) => Some (s, keepl k t) | None => None end) (l_types l) (l_payload l).

(* cleanup_lanelet_references / _traffic_sign_ / _traffic_light_ : existing_ids = the keys of the dict *)
Definition cleanup_lanelets (n : network) : network :=
  let k := fun z => mem z (lanelet_ids n) in
  mkN (map (clean_lanelet_l k) (lanelets n)) (signs n) (lights n) (map (clean_inter_l k) (inters n)).
Definition cleanup_signs (n : network) : network :=
  let k := fun z => mem z (sign_ids n) in
  mkN (map (clean_lanelet_s k) (lanelets n)) (signs n) (lights n) (inters n).
Definition cleanup_lights (n : network) : network :=
  let k := fun z => mem z (light_ids n) in
  mkN (map (clean_lanelet_t k) (lanelets n)) (signs n) (lights n) (inters n).

(* ---------------------------------------------------------------- LaneletNetwork.remove_* *)
Definition net_remove_lanelet (i : Z) (n : network) : network :=
  if mem i (lanelet_ids n) then
    cleanup_lanelets (mkN (filter (fun l => negb (l_id l =? i)) (lanelets n)) (signs n) (lights n) (inters n))
  else n.
Definition net_remove_sign (i : Z) (n : network) : network :=
  if mem i (sign_ids n) then
    cleanup_signs (mkN (lanelets n) (filter (fun s => negb (fst s =? i)) (signs n)) (lights n) (inters n))
  else n.
(* the cleanup runs whether or not the light exists *)
Definition net_remove_light (i : Z) (n : network) : network :=
  cleanup_lights (mkN (lanelets n) (signs n) (filter (fun s => negb (fst s =? i)) (lights n)) (inters n)).
Definition net_remove_inter (i : Z) (n : network) : network :=
  mkN (lanelets n) (signs n) (lights n) (filter (fun x => negb (x_id x =? i)) (inters n)).

(* ---------------------------------------------------------------- Scenario.remove_* (network part) *)
Definition fold_op (f : Z -> network -> network) (l : list Z) (n : network) : network :=
  fold_left (fun acc i => f i acc) l n.

(* remove_hanging_lanelet_members: signs / lights referenced by a removed lanelet and by no remaining one *)
Definition hanging (rm : list Z) (n : network) : list Z * list Z :=
  let removed := filter (fun l => mem (l_id l) rm) (lanelets n) in
  let remaining := filter (fun l => negb (mem (l_id l) rm)) (lanelets n) in
  let del_s := flat_map l_signs removed in let save_s := flat_map l_signs remaining in
  let del_t := flat_map l_lights removed in let save_t := flat_map l_lights remaining in
  (filter (fun z => mem z del_s && negb (mem z save_s)) (sign_ids n),
   filter (fun z => mem z del_t && negb (mem z save_t)) (light_ids n)).

Definition s_remove_lanelets (rm : list Z) (refs : bool) (n : network) : network :=
  let n1 := if refs then
              let (rs, rt) := hanging rm n in fold_op net_remove_light rt (fold_op net_remove_sign rs n)
            else n in
  fold_op net_remove_lanelet rm n1.

(* ---------------------------------------------------------------- cut-outs *)
Definition overlaps (a b : list Z) : bool := existsb (fun z => mem z b) a.

(* create_from_lanelet_network(n, shape, exclude_lanelet_types, cleanup_ids=True).
   sel = the ids of the lanelets whose polygon intersects the shape (geometric oracle); shape = false: no shape *)
Definition cut_incoming (ids : list Z) (i : incoming) : list incoming :=
  let k := fun z => mem z ids in
  let nl := keepl k (i_lanelets i) in
  match nl with
  | [] => []
  | _ => let r := keepl k (i_right i) in let l := keepl k (i_left i) in let s := keepl k (i_straight i) in
         match l ++ s ++ r with
         | [] => []
         | _ => [mkI (i_id i) nl r s l (i_leftof i)]
         end
  end.
(* left_of may only name an incoming element that is part of the new intersection (after
   "fix: create_from_lanelet_network clears left_of ...") *)
Definition fix_leftof (kept : list Z) (i : incoming) : incoming :=
  mkI (i_id i) (i_lanelets i) (i_right i) (i_straight i) (i_left i) (keepo (fun z => mem z kept) (i_leftof i)).
Definition cut_inter (ids : list Z) (x : inter) : list inter :=
  match flat_map (cut_incoming ids) (x_incs x) with
  | [] => []
  | incs => [mkX (x_id x) (map (fix_leftof (map i_id incs)) incs) (keepl (fun z => mem z ids) (x_cross x))]
  end.
Definition selected (sel : list Z) (shape : bool) (excl : list Z) (l : lanelet) : bool :=
  negb (overlaps (l_types l) excl || (shape && negb (mem (l_id l) sel))).
Definition cutout (sel : list Z) (shape : bool) (excl : list Z) (n : network) : network :=
  let kept := filter (selected sel shape excl) (lanelets n) in
  let ids := map l_id kept in
  let sids := flat_map l_signs kept in
  let tids := flat_map l_lights kept in
  cleanup_lanelets
    (mkN kept (filter (fun s => mem (fst s) sids) (signs n)) (filter (fun s => mem (fst s) tids) (lights n))
         (flat_map (cut_inter ids) (inters n))).

(* create_from_lanelet_list(lanelets, cleanup_ids=True): only the lanelets, all three cleanups *)
Definition from_list (ls : list Z) (n : network) : network :=
  cleanup_signs (cleanup_lights (cleanup_lanelets
    (mkN (filter (fun l => mem (l_id l) ls) (lanelets n)) [] [] []))).

(* ---------------------------------------------------------------- the machine *)
Inductive op :=
| NRemoveLanelet (i : Z) | NRemoveSign (i : Z) | NRemoveLight (i : Z) | NRemoveInter (i : Z)   (* LaneletNetwork level *)
| SRemoveLanelets (l : list Z) (refs : bool)                                                   (* Scenario level *)
| SRemoveSigns (l : list Z) | SRemoveLights (l : list Z) | SRemoveInters (l : list Z)
| CutOut (sel : list Z) (shape : bool) (excl : list Z)
| FromList (l : list Z).

Definition apply (o : op) (n : network) : network :=
  match o with
  | NRemoveLanelet i => net_remove_lanelet i n
  | NRemoveSign i => net_remove_sign i n
  | NRemoveLight i => net_remove_light i n
  | NRemoveInter i => net_remove_inter i n
  | SRemoveLanelets l refs => s_remove_lanelets l refs n
  | SRemoveSigns l => fold_op net_remove_sign l n
  | SRemoveLights l => fold_op net_remove_light l n
  | SRemoveInters l => fold_op net_remove_inter l n
  | CutOut sel shape excl => cutout sel shape excl n
  | FromList l => from_list l n
  end.
Definition step (n : network) (o : op) : network * unit := (apply o n, tt).

(* ---------------------------------------------------------------- well-formedness and the specification *)
Definition opt_in (o : option Z) (l : list Z) : Prop := match o with Some z => In z l | None => True end.

(* a direction flag only together with an adjacency (the Lanelet constructor guarantees it) *)
Definition dir_ok (o : option Z) (d : option bool) : Prop := match o with None => d = None | Some _ => True end.

Definition wf_lanelet (n : network) (l : lanelet) : Prop :=
  incl (l_pred l) (lanelet_ids n) /\ incl (l_succ l) (lanelet_ids n) /\
  opt_in (l_adjL l) (lanelet_ids n) /\ opt_in (l_adjR l) (lanelet_ids n) /\
  dir_ok (l_adjL l) (l_adjL_dir l) /\ dir_ok (l_adjR l) (l_adjR_dir l) /\
  incl (l_signs l) (sign_ids n) /\ incl (l_lights l) (light_ids n) /\
  match l_stop l with
  | Some (s, t) => incl s (l_signs l) /\ incl t (l_lights l)     (* a stop line refers only to what its lanelet references *)
  | None => True
  end.
Definition wf_incoming (n : network) (i : incoming) : Prop :=
  incl (i_lanelets i) (lanelet_ids n) /\ incl (i_right i) (lanelet_ids n) /\
  incl (i_straight i) (lanelet_ids n) /\ incl (i_left i) (lanelet_ids n).
(* left_of names an incoming element of the same intersection *)
Definition wf_inter (n : network) (x : inter) : Prop :=
  (forall i, In i (x_incs x) -> wf_incoming n i /\ opt_in (i_leftof i) (map i_id (x_incs x))) /\
  incl (x_cross x) (lanelet_ids n).

(* every reference resolves, ids are unique per kind *)
Definition WF (n : network) : Prop :=
  NoDup (lanelet_ids n) /\ NoDup (sign_ids n) /\ NoDup (light_ids n) /\ NoDup (inter_ids n) /\
  (forall l, In l (lanelets n) -> wf_lanelet n l) /\ (forall x, In x (inters n) -> wf_inter n x).

(* the specification "kept part": keep the lanelets / signs / lights / intersections the four predicates select and
   drop exactly the references to what is not kept; nothing else changes (types, payloads, left_of, order) *)
Definition clean_lanelet (kL kS kT : Z -> bool) (l : lanelet) : lanelet :=
  mkL (l_id l) (keepl kL (l_pred l)) (keepl kL (l_succ l))
      (keepo kL (l_adjL l)) (keepd kL (l_adjL l) (l_adjL_dir l)) (keepo kL (l_adjR l)) (keepd kL (l_adjR l) (l_adjR_dir l))
      (keepl kS (l_signs l)) (keepl kT (l_lights l))
      (match l_stop l with Some (s, t) => Some (keepl kS s, keepl kT t) | None => None end)
      (l_types l) (l_payload l).
Definition restrict (kL kS kT kX : Z -> bool) (n : network) : network :=
  mkN (map (clean_lanelet kL kS kT) (filter (fun l => kL (l_id l)) (lanelets n)))
      (filter (fun s => kS (fst s)) (signs n)) (filter (fun s => kT (fst s)) (lights n))
      (map (clean_inter_l kL) (filter (fun x => kX (x_id x)) (inters n))).

Definition all : Z -> bool := fun _ => true.
Definition none : Z -> bool := fun _ => false.
Definition notin (l : list Z) : Z -> bool := fun z => negb (mem z l).
Definition isin (l : list Z) : Z -> bool := fun z => mem z l.
Definition neq (i : Z) : Z -> bool := fun z => negb (z =? i).

(* what create_from_lanelet_network does beyond the specification: incoming elements without remaining incoming
   lanelets or without any remaining successor, and intersections without remaining incoming element, are dropped;
   a left_of that names a dropped incoming element is cleared *)
Definition live_incoming (i : incoming) : bool :=
  match i_lanelets i with [] => false | _ => match i_left i ++ i_straight i ++ i_right i with [] => false | _ => true end end.
Definition prune_inter (x : inter) : list inter :=
  match filter live_incoming (x_incs x) with
  | [] => []
  | incs => [mkX (x_id x) (map (fix_leftof (map i_id incs)) incs) (x_cross x)]
  end.
Definition prune (n : network) : network :=
  mkN (lanelets n) (signs n) (lights n) (flat_map prune_inter (inters n)).

(* the lanelets / signs / lights a cut-out keeps *)
Definition cut_kept (sel : list Z) (shape : bool) (excl : list Z) (n : network) : list lanelet :=
  filter (selected sel shape excl) (lanelets n).

(* boolean well-formedness (used on concrete networks: generated cases, examples) *)
Fixpoint nodupb (l : list Z) : bool :=
  match l with [] => true | x :: r => negb (mem x r) && nodupb r end.
Definition inclb (a b : list Z) : bool := forallb (fun z => mem z b) a.
Definition opt_inb (o : option Z) (l : list Z) : bool := match o with Some z => mem z l | None => true end.
Definition dir_okb (o : option Z) (d : option bool) : bool :=
  match o, d with None, Some _ => false | _, _ => true end.
Definition wfb_lanelet (n : network) (l : lanelet) : bool :=
  inclb (l_pred l) (lanelet_ids n) && inclb (l_succ l) (lanelet_ids n) &&
  opt_inb (l_adjL l) (lanelet_ids n) && opt_inb (l_adjR l) (lanelet_ids n) &&
  dir_okb (l_adjL l) (l_adjL_dir l) && dir_okb (l_adjR l) (l_adjR_dir l) &&
  inclb (l_signs l) (sign_ids n) && inclb (l_lights l) (light_ids n) &&
  match l_stop l with Some (s, t) => inclb s (l_signs l) && inclb t (l_lights l) | None => true end.
Definition wfb_incoming (n : network) (i : incoming) : bool :=
  inclb (i_lanelets i) (lanelet_ids n) && inclb (i_right i) (lanelet_ids n) &&
  inclb (i_straight i) (lanelet_ids n) && inclb (i_left i) (lanelet_ids n).
Definition wfb_inter (n : network) (x : inter) : bool :=
  forallb (fun i => wfb_incoming n i && opt_inb (i_leftof i) (map i_id (x_incs x))) (x_incs x) &&
  inclb (x_cross x) (lanelet_ids n).
Definition wfb (n : network) : bool :=
  nodupb (lanelet_ids n) && nodupb (sign_ids n) && nodupb (light_ids n) && nodupb (inter_ids n) &&
  forallb (wfb_lanelet n) (lanelets n) && forallb (wfb_inter n) (inters n).
