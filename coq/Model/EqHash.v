(* Model/EqHash.v — C12: __eq__ / __hash__ of the scenario-element classes as "comparison specs as data".

   A value universe (numbers over Q, strings, enum members, numpy arrays, lists, sets as lists modulo
   order, dicts as sets of [key; value] pairs, objects = class name + constructor-visible attributes) and,
   per class family, a spec: for every attribute HOW __eq__ compares it and HOW __hash__ hashes it.
   Two generic interpreters:
     eqv  T x y  — the result of  x == y      (normalise both sides attribute by attribute as the spec
                                                 says, then Python's generic == [peq])
     hkey T x    — a key k such that hash(x) = H(k) for an injective-up-to-[peq] H, or None if hash() raises
   The concrete table (Model/EqHashSpecs.v) is hand-written from the sources and validated attribute by
   attribute by the correspondence (Corr/C12.v); the attribute lists A_K are generated (Gen/Tables_C12.v). *)
From Coq Require Import QArith Qround ZArith List Bool String.
From CR Require Import Base.QMod Model.Interval.
Import ListNotations.
Open Scope Q_scope.

Inductive value :=
| VNone
| VBool (b : bool)
| VInt (z : Z)
| VNum (q : Q)                       (* a Python / numpy float *)
| VStr (s : string)
| VEnum (s : string)                 (* "EnumClass.MEMBER" *)
| VArr (shape : list Z) (d : list Q) (* numpy array, row-major data *)
| VList (l : list value)             (* list / tuple *)
| VSet (l : list value)              (* set / frozenset (some iteration order); dict = set of [k; v] *)
| VKey (v : value)                   (* something hashable made of v: tuple(..), frozenset(..), key of an object *)
| VObj (cls : string) (fs : list (string * value)).

(* ------------------------------------------------------------------ numbers and rounding *)
Definition as_num (v : value) : option Q :=
  match v with
  | VBool b => Some (if b then 1 else 0)
  | VInt z => Some (inject_Z z)
  | VNum q => Some q
  | _ => None
  end.

Definition ten10 : Q := inject_Z (10 ^ 10).
(* np.around(x, 10) / round(x, 10): the integer multiple of 1e-10 nearest to x (ties to even) *)
Definition r10 (x : Q) : Z := round_half_even (x * ten10).
Definition round10 (x : Q) : Q := inject_Z (r10 x) / ten10.

(* ------------------------------------------------------------------ Python's generic ==  *)
Fixpoint list_eqb {A} (e : A -> A -> bool) (l l' : list A) : bool :=
  match l, l' with
  | [], [] => true
  | a :: r, b :: r' => e a b && list_eqb e r r'
  | _, _ => false
  end.

Fixpoint peq (x y : value) {struct x} : bool :=
  match x with
  | VNone => match y with VNone => true | _ => false end
  | VBool _ | VInt _ | VNum _ =>
      match as_num x, as_num y with Some a, Some b => Qeq_bool a b | _, _ => false end
  | VStr a => match y with VStr b => String.eqb a b | _ => false end
  | VEnum a => match y with VEnum b => String.eqb a b | _ => false end
  | VArr s d => match y with VArr s' d' => list_eqb Z.eqb s s' && list_eqb Qeq_bool d d' | _ => false end
  | VList l =>
      match y with
      | VList l' =>
          (fix go (l l' : list value) : bool :=
             match l, l' with
             | [], [] => true
             | a :: r, b :: r' => peq a b && go r r'
             | _, _ => false
             end) l l'
      | _ => false
      end
  | VSet l =>
      match y with
      | VSet l' =>
          (fix inc (l : list value) : bool :=
             match l with [] => true | a :: r => existsb (fun b => peq a b) l' && inc r end) l
          && (fix inc2 (m : list value) : bool :=
                match m with
                | [] => true
                | b :: r => (fix ex (l : list value) : bool :=
                               match l with [] => false | a :: q => peq a b || ex q end) l && inc2 r
                end) l'
      | _ => false
      end
  | VKey a => match y with VKey b => peq a b | _ => false end
  | VObj c fs =>
      match y with
      | VObj c' fs' =>
          String.eqb c c' &&
          (fix go (l l' : list (string * value)) : bool :=
             match l, l' with
             | [], [] => true
             | (a, v) :: r, (a', v') :: r' => String.eqb a a' && peq v v' && go r r'
             | _, _ => false
             end) fs fs'
      | _ => false
      end
  end.

(* ------------------------------------------------------------------ specs *)
(* how __eq__ compares one attribute (both sides normalised the same way, then ==) *)
Inductive ekind :=
| KPy          (* self.a == other.a *)
| KArr10       (* np.array_equal(np.around(a, 10), np.around(b, 10)) *)
| KState       (* State.__eq__: position arrays rounded to 10 decimals, floats round(x, 10), then == *)
| KAsSet       (* set(self.a) == set(other.a) *)
| KNoneEmpty   (* (set() if a is None else set(a)) == ... *)
| KStr         (* str(self.a) == str(other.a) *)
| KIgnored.    (* not compared (also: compared with itself) *)

(* how __hash__ turns one attribute into a hashable *)
Inductive hkind :=
| HPy                      (* hash(a) *)
| HArr10                   (* rounded_array_hash(a) *)
| HState                   (* State.__hash__: rounded position tuple / rounded float / hash(a) *)
| HStr                     (* str(a) *)
| HIgnored                 (* not hashed *)
| HTupleOf (h : hkind)     (* tuple(h(e) for e in a) *)
| HFrozenOf (h : hkind)    (* frozenset(h(e) for e in a) *)
| HItemsOf (h : hkind)     (* frozenset((k, h(v)) for k, v in a.items()) *)
| HTupleIfList (h : hkind) (* tuple(a) if isinstance(a, list) else a *)
| HOpt (h : hkind)         (* None if a is None else h(a) *)
| HNoneEmpty (h : hkind).  (* h(a or ()) *)

Inductive hmode := HMTuple | HMValueSet.  (* hash((a1, a2, ...))  |  hash(frozenset({values})) *)

Record fspec := {
  f_eq : list (string * ekind);
  f_eq_default : ekind;          (* attributes not listed (State family: dynamic attributes) *)
  f_hash : list (string * hkind);
  f_hash_default : hkind;
  f_hmode : hmode
}.

Record table := {
  t_family : list (string * string);   (* class -> family whose __eq__/__hash__ it uses (default: itself) *)
  t_spec : list (string * fspec)       (* family -> spec *)
}.

Fixpoint assoc {A} (k : string) (l : list (string * A)) : option A :=
  match l with
  | [] => None
  | (k', v) :: r => if String.eqb k k' then Some v else assoc k r
  end.

Definition family_of (T : table) (c : string) : string :=
  match assoc c (t_family T) with Some f => f | None => c end.
Definition spec_of (T : table) (c : string) : option fspec := assoc (family_of T c) (t_spec T).
Definition ekind_of (sp : fspec) (a : string) : ekind :=
  match assoc a (f_eq sp) with Some k => k | None => f_eq_default sp end.
Definition hkind_of (sp : fspec) (a : string) : hkind :=
  match assoc a (f_hash sp) with Some k => k | None => f_hash_default sp end.

(* ------------------------------------------------------------------ == *)
Definition round_arr (v : value) : value :=
  match v with VArr s d => VArr s (map round10 d) | _ => v end.

(* normalisation applied to an attribute value (already in normal form) before == *)
Definition enorm (k : ekind) (w : value) : value :=
  match k with
  | KPy | KIgnored => w
  | KArr10 => round_arr w
  | KState => match w with
              | VArr _ _ => round_arr w
              | VNum q => VNum (round10 q)
              | _ => w
              end
  | KAsSet => match w with VList l => VSet l | _ => w end
  | KNoneEmpty => match w with VNone => VSet [] | VList l => VSet l | _ => w end
  | KStr => match w with
            | VNum q => VList [VStr "float"; VNum q]
            | VInt z => VList [VStr "int"; VInt z]
            | _ => w
            end
  end.

Definition is_ignored (k : ekind) : bool := match k with KIgnored => true | _ => false end.

(* equality normal form: every object replaced by  family {[attribute; normalised value], ...}  *)
Fixpoint nfe (T : table) (v : value) {struct v} : value :=
  match v with
  | VList l => VList (map (nfe T) l)
  | VSet l => VSet (map (nfe T) l)
  | VKey w => VKey (nfe T w)
  | VObj c fs =>
      match spec_of T c with
      | None => VObj c (map (fun p => (fst p, nfe T (snd p))) fs)
      | Some sp =>
          VObj (family_of T c)
               [(EmptyString,
                 VSet ((fix go (l : list (string * value)) : list value :=
                          match l with
                          | [] => []
                          | (a, w) :: r =>
                              if is_ignored (ekind_of sp a) then go r
                              else VList [VStr a; enorm (ekind_of sp a) (nfe T w)] :: go r
                          end) fs))]
      end
  | _ => v
  end.

(* x == y *)
Definition eqv (T : table) (x y : value) : bool := peq (nfe T x) (nfe T y).

(* ------------------------------------------------------------------ hash *)
Definition hashable (w : value) : bool :=
  match w with
  | VNone | VBool _ | VInt _ | VNum _ | VStr _ | VEnum _ | VKey _ => true
  | _ => false
  end.

Fixpoint mapM {A B} (f : A -> option B) (l : list A) : option (list B) :=
  match l with
  | [] => Some []
  | a :: r => match f a, mapM f r with Some b, Some r' => Some (b :: r') | _, _ => None end
  end.

(* [w]: the attribute value in which every object has already been replaced by its key *)
Fixpoint hnorm (h : hkind) (w : value) : option value :=
  match h with
  | HPy => if hashable w then Some w else None
  | HArr10 => match w with VArr _ _ => Some (VKey (round_arr w)) | _ => None end     (* None.astype raises *)
  | HState => match w with
              | VArr _ _ => Some (VKey (round_arr w))
              | VNum q => Some (VNum (round10 q))
              | _ => if hashable w then Some w else None
              end
  | HStr => match w with
            | VNum q => Some (VKey (VList [VStr "float"; VNum q]))
            | VInt z => Some (VKey (VList [VStr "int"; VInt z]))
            | _ => if hashable w then Some w else None
            end
  | HIgnored => Some VNone
  | HTupleOf h' => match w with
                   | VList l => option_map (fun ks => VKey (VList ks)) (mapM (hnorm h') l)
                   | _ => None
                   end
  | HFrozenOf h' => match w with
                    | VList l | VSet l => option_map (fun ks => VKey (VSet ks)) (mapM (hnorm h') l)
                    | _ => None
                    end
  | HItemsOf h' => match w with
                   | VSet l =>
                       option_map (fun ks => VKey (VSet ks))
                         (mapM (fun p => match p with
                                         | VList [k; v] =>
                                             if hashable k then
                                               option_map (fun kv => VKey (VList [k; kv])) (hnorm h' v)
                                             else None
                                         | _ => None
                                         end) l)
                   | _ => None
                   end
  | HTupleIfList h' => match w with
                       | VList l => option_map (fun ks => VKey (VList ks)) (mapM (hnorm h') l)
                       | _ => if hashable w then Some w else None
                       end
  | HOpt h' => match w with VNone => Some VNone | _ => hnorm h' w end
  | HNoneEmpty h' => match w with VNone => hnorm h' (VList []) | _ => hnorm h' w end
  end.

Definition is_hignored (h : hkind) : bool := match h with HIgnored => true | _ => false end.

Definition obj_key (fam : string) (m : hmode) (ks : list (string * value)) : value :=
  match m with
  | HMTuple => VKey (VList [VStr fam; VSet (map (fun p => VList [VStr (fst p); snd p]) ks)])
  | HMValueSet => VKey (VSet (map snd ks))
  end.

(* hash preparation: every object replaced by its key; None if some hash() raises *)
Fixpoint hv (T : table) (v : value) {struct v} : option value :=
  match v with
  | VList l =>
      option_map VList ((fix go (l : list value) : option (list value) :=
                           match l with
                           | [] => Some []
                           | a :: r => match hv T a, go r with Some b, Some r' => Some (b :: r') | _, _ => None end
                           end) l)
  | VSet l =>
      option_map VSet ((fix go (l : list value) : option (list value) :=
                          match l with
                          | [] => Some []
                          | a :: r => match hv T a, go r with Some b, Some r' => Some (b :: r') | _, _ => None end
                          end) l)
  | VKey w => option_map VKey (hv T w)
  | VObj c fs =>
      match spec_of T c with
      | None => None
      | Some sp =>
          option_map (obj_key (family_of T c) (f_hmode sp))
            ((fix go (l : list (string * value)) : option (list (string * value)) :=
                match l with
                | [] => Some []
                | (a, w) :: r =>
                    if is_hignored (hkind_of sp a) then go r
                    else match hv T w with
                         | None => None
                         | Some w' => match hnorm (hkind_of sp a) w', go r with
                                      | Some k, Some ks => Some ((a, k) :: ks)
                                      | _, _ => None
                                      end
                         end
                end) fs)
      end
  | _ => Some v
  end.

(* the key hash(x) is computed from; None: hash(x) raises *)
Definition hkey (T : table) (x : value) : option value :=
  match hv T x with
  | Some k => if hashable k then Some k else None
  | None => None
  end.

(* hash(x) == hash(y), given both are defined *)
Definition hash_eq (T : table) (x y : value) : option bool :=
  match hkey T x, hkey T y with
  | Some a, Some b => Some (peq a b)
  | _, _ => None
  end.
