(* Model/BenchId.v — benchmark ids (property C13), over [string].
   commonroad/scenario/scenario.py : ScenarioID.__init__ (366-420, incl. the repair that stores a
     one-element prediction-id list as its element), __str__ (453-467), map_name / country_id setters
     (473-493), benchmark_id_pattern (360-365) as a hand-written deterministic recogniser,
     from_benchmark_id (505-547);
   commonroad/common/solution.py : PlanningProblemSolution.vehicle_id / cost_id (445-469),
     Solution.benchmark_id (506-536), CommonRoadSolutionReader._parse_benchmark_id (762-775),
     _parse_vehicle_id (777-789), the cost lookup of _parse_planning_problem_solution (706-709).
   Python ints are [Z]; str(int) / int(str) are the standard library's decimal conversions
   (Decimal / DecimalString).  Exceptions are explicit [Err] values.  The tables (countries,
   behaviours, versions, vehicle models / types, cost functions) come from Gen/Tables_C13.v, which is
   regenerated from the source on every run. *)
From Coq Require Import String Ascii List ZArith NArith Bool Decimal DecimalString.
From CR Require Import Gen.Tables_C13.
Import ListNotations.
Open Scope list_scope.
Open Scope string_scope.   (* [++] is string append here; list append is written (_ ++ _)%list *)

(* ------------------------------------------------------------------ characters and strings *)
Definition in_range (lo hi c : ascii) : bool := Ascii.leb lo c && Ascii.leb c hi.
Definition is_upper (c : ascii) : bool := in_range "A" "Z" c.
Definition is_lower (c : ascii) : bool := in_range "a" "z" c.
Definition is_digit (c : ascii) : bool := in_range "0" "9" c.
Definition is_alnum (c : ascii) : bool := is_lower c || is_upper c || is_digit c.

Fixpoint sforall (p : ascii -> bool) (s : string) : bool :=
  match s with EmptyString => true | String c r => p c && sforall p r end.
Fixpoint sfilter (p : ascii -> bool) (s : string) : string :=
  match s with EmptyString => EmptyString | String c r => if p c then String c (sfilter p r) else sfilter p r end.
(* longest prefix whose characters satisfy p, and the rest *)
Fixpoint span (p : ascii -> bool) (s : string) : string * string :=
  match s with
  | EmptyString => (EmptyString, EmptyString)
  | String c r => if p c then let (a, b) := span p r in (String c a, b) else (EmptyString, s)
  end.
(* Python str.split(sep) for a one-character separator *)
Fixpoint split (sep : ascii) (s : string) : list string :=
  match s with
  | EmptyString => [EmptyString]
  | String c r =>
      if Ascii.eqb c sep then EmptyString :: split sep r
      else match split sep r with
           | h :: t => String c h :: t
           | [] => [String c EmptyString]
           end
  end.
Definition smem (x : string) (l : list string) : bool := existsb (String.eqb x) l.
Definition zmem (x : Z) (l : list Z) : bool := existsb (Z.eqb x) l.
(* s[:-1] and s[-1] *)
Fixpoint init_last (s : string) : option (string * ascii) :=
  match s with
  | EmptyString => None
  | String c r => match init_last r with
                  | None => Some (EmptyString, c)
                  | Some (i, l) => Some (String c i, l)
                  end
  end.

(* str(int) and int(digits) *)
Definition str_z (z : Z) : string := NilZero.string_of_int (Z.to_int z).
Definition int_of_digits (ds : string) : option Z :=
  match NilEmpty.uint_of_string ds with
  | Some u => Some (Z.of_N (Pos.of_uint u))
  | None => None
  end.

(* ------------------------------------------------------------------ ScenarioID *)
Inductive exn := AssertionError | ValueError | SolutionReaderException.
Inductive res (A : Type) : Type := Ok (a : A) | Err (e : exn).
Arguments Ok {A} a.
Arguments Err {A} e.

(* prediction_id : None | int | list of int *)
Inductive pred := PNone | PInt (z : Z) | PList (l : list Z).

(* the stored fields of a ScenarioID (also used for the constructor's arguments; the country
   argument may be None) *)
Record sid := { coop : bool; country : string; mname : string; mid : Z; conf : option Z;
                beh : option string; pid : pred; ver : string }.
Record args := { a_coop : bool; a_country : option string; a_name : string; a_mid : Z;
                 a_conf : option Z; a_beh : option string; a_pid : pred; a_ver : string }.

(* map_name setter: re.sub("[^a-zA-Z0-9]", "", name) *)
Definition clean_name (s : string) : string := sfilter is_alnum s.
(* country_id setter *)
Definition set_country (c : option string) : res string :=
  match c with
  | None => Ok default_country
  | Some c => if smem c countries then Ok c else Err ValueError
  end.

Definition pred_is_none (p : pred) : bool := match p with PNone => true | _ => false end.
(* Python truth value of a prediction id:  x or 1 *)
Definition pred_truthy (p : pred) : bool :=
  match p with PNone => false | PInt z => negb (z =? 0)%Z | PList l => match l with [] => false | _ => true end end.
(* "prediction_id if isinstance(prediction_id, list) else [prediction_id]"; None is not a number *)
Definition pred_all_pos (p : pred) : bool :=
  match p with PNone => false | PInt z => (0 <? z)%Z | PList l => forallb (fun z => (0 <? z)%Z) l end.
Definition opt_is_none {A} (o : option A) : bool := match o with None => true | _ => false end.

Definition ctor (a : args) : res sid :=
  if negb (smem (a_ver a) versions) then Err AssertionError else
  match set_country (a_country a) with
  | Err e => Err e
  | Ok c =>
    let name := clean_name (a_name a) in
    let is_map := opt_is_none (a_conf a) && opt_is_none (a_beh a) && pred_is_none (a_pid a) in
    let has_prediction := negb (opt_is_none (a_beh a)) || negb (pred_is_none (a_pid a)) in
    if negb (pred_is_none (a_pid a)) && opt_is_none (a_beh a) then Err AssertionError else
    let pid1 := if negb is_map && has_prediction
                then (if pred_truthy (a_pid a) then a_pid a else PInt 1) else a_pid a in
    let conf1 := if negb is_map
                 then Some (match a_conf a with Some z => if (z =? 0)%Z then 1%Z else z | None => 1%Z end)
                 else a_conf a in
    (* repair: a list holding a single prediction id is stored as that id *)
    let pid2 := match pid1 with PList [p] => PInt p | _ => pid1 end in
    if negb (match a_beh a with None => true | Some b => smem b behaviours end) then Err AssertionError else
    if negb (0 <? a_mid a)%Z then Err AssertionError else
    if negb (is_map || match conf1 with Some z => (0 <? z)%Z | None => false end) then Err AssertionError else
    if has_prediction && negb (pred_all_pos pid2) then Err AssertionError else
    Ok {| coop := a_coop a; country := c; mname := name; mid := a_mid a; conf := conf1;
          beh := a_beh a; pid := pid2; ver := a_ver a |}
  end.

Definition args_of (s : sid) : args :=
  {| a_coop := coop s; a_country := Some (country s); a_name := mname s; a_mid := mid s;
     a_conf := conf s; a_beh := beh s; a_pid := pid s; a_ver := ver s |}.

(* __str__ *)
Definition pred_strs (p : pred) : list string :=
  match p with PList l => map str_z l | PInt z => [str_z z] | PNone => ["None"] end.
Definition somes {A} (l : list (option A)) : list A :=
  flat_map (fun o => match o with Some x => [x] | None => [] end) l.
Definition print (s : sid) : string :=
  let prediction := match beh s with
                    | Some b => Some (String.concat "-" (b :: pred_strs (pid s)))
                    | None => None
                    end in
  let map_ := mname s ++ "-" ++ str_z (mid s) in
  let parts := [Some (country s); Some map_; option_map str_z (conf s); prediction] in
  let scenario_id := String.concat "_" (somes parts) in
  if coop s then "C-" ++ scenario_id else scenario_id.

(* ------------------------------------------------------------------ the regular expression
   benchmark_id_pattern, used with fullmatch:
     optional "C-" ; 3 x [A-Z] ; "_" ; 1 or more [a-zA-Z0-9] ; "-" ; NUM ;
     optionally ( "_" NUM  optionally ( "_" [STPI] followed by 1 or more ( "-" NUM ) ) )
   where NUM = [1-9] followed by any number of [0-9],
   as a deterministic left-to-right recogniser returning the named groups. *)
Record groups := { g_coop : bool; g_country : string; g_name : string; g_mid : string;
                   g_conf : option string; g_pred : option (string * list string) }.

(* NUM at the head of s: the digits and the rest *)
Definition number (s : string) : option (string * string) :=
  match span is_digit s with
  | (String c ds, rest) => if Ascii.eqb c "0" then None else Some (String c ds, rest)
  | (EmptyString, _) => None
  end.
Definition expect (c : ascii) (s : string) : option string :=
  match s with String d r => if Ascii.eqb d c then Some r else None | EmptyString => None end.
(* one or more ( "-" NUM ) up to the end of the string; fuel = length of the string *)
Fixpoint pred_ids (fuel : nat) (s : string) : option (list string) :=
  match fuel with
  | O => None
  | S f =>
    match expect "-" s with
    | None => None
    | Some r =>
        match number r with
        | Some (n, EmptyString) => Some [n]
        | Some (n, rest) => match pred_ids f rest with Some l => Some (n :: l) | None => None end
        | None => None
        end
    end
  end.
Definition is_behaviour_char (c : ascii) : bool :=
  Ascii.eqb c "S" || Ascii.eqb c "T" || Ascii.eqb c "P" || Ascii.eqb c "I".

Definition strip_coop (b : string) : bool * string :=
  match b with
  | String c (String d r) => if Ascii.eqb c "C" && Ascii.eqb d "-" then (true, r) else (false, b)
  | _ => (false, b)
  end.
(* what may follow the map id: nothing | _NUM | _NUM_[STPI](-NUM)+ *)
Definition rec_tail (s3 : string) : option (option string * option (string * list string)) :=
  match s3 with
  | EmptyString => Some (None, None)
  | _ =>
    match expect "_" s3 with
    | None => None
    | Some s4 =>
      match number s4 with
      | None => None
      | Some (cf, EmptyString) => Some (Some cf, None)
      | Some (cf, s5) =>
        match expect "_" s5 with
        | Some (String t s6) =>
            if is_behaviour_char t then
              match pred_ids (String.length s6) s6 with
              | Some l => Some (Some cf, Some (String t EmptyString, l))
              | None => None
              end
            else None
        | _ => None
        end
      end
    end
  end.

Definition recognise (b : string) : option groups :=
  let (co, s0) := strip_coop b in
  match s0 with
  | String c1 (String c2 (String c3 s1')) =>
    if is_upper c1 && is_upper c2 && is_upper c3 then
      match expect "_" s1' with
      | None => None
      | Some s1 =>
        match span is_alnum s1 with
        | (EmptyString, _) => None
        | (nm, s2') =>
          match expect "-" s2' with
          | None => None
          | Some s2 =>
            match number s2 with
            | None => None
            | Some (m, s3) =>
              match rec_tail s3 with
              | None => None
              | Some (cf, pr) =>
                  Some {| g_coop := co; g_country := String c1 (String c2 (String c3 EmptyString));
                          g_name := nm; g_mid := m; g_conf := cf; g_pred := pr |}
              end
            end
          end
        end
      end
    else None
  | _ => None
  end.

Definition matches (b : string) : bool := match recognise b with Some _ => true | None => false end.

Fixpoint all_some {A} (l : list (option A)) : option (list A) :=
  match l with
  | [] => Some []
  | Some x :: r => match all_some r with Some t => Some (x :: t) | None => None end
  | None :: _ => None
  end.

(* from_benchmark_id: (a warning was issued, result) *)
Definition fallback_args (b : string) : args :=
  {| a_coop := false; a_country := Some "ZAM"; a_name := b; a_mid := 1%Z; a_conf := None;
     a_beh := None; a_pid := PNone; a_ver := default_version |}.
Definition group_args (g : groups) (version : string) : option args :=
  match int_of_digits (g_mid g),
        match g_conf g with Some c => option_map Some (int_of_digits c) | None => Some None end,
        match g_pred g with
        | Some (t, l) => match all_some (map int_of_digits l) with
                         | Some [p] => Some (Some t, PInt p)
                         | Some ps => Some (Some t, PList ps)
                         | None => None
                         end
        | None => Some (None, PNone)
        end with
  | Some m, Some cf, Some (t, p) =>
      Some {| a_coop := g_coop g; a_country := Some (g_country g); a_name := g_name g; a_mid := m;
              a_conf := cf; a_beh := t; a_pid := p; a_ver := version |}
  | _, _, _ => None
  end.
Definition from_benchmark_id (b version : string) : bool * res sid :=
  match recognise b with
  | None => (true, ctor (fallback_args b))
  | Some g => match group_args g version with
              | Some a => (false, ctor a)
              | None => (false, Err ValueError)      (* int() of a non-number: unreachable, see Proofs *)
              end
  end.

(* ------------------------------------------------------------------ solution benchmark ids *)
Definition vehicle_id (v : string * Z) : string := fst v ++ str_z (snd v).
Definition bracket (l : list string) : string :=
  match l with [x] => x | _ => "[" ++ String.concat "," l ++ "]" end.
(* Solution.benchmark_id for the (vehicle model name, vehicle type value) and cost names of its
   planning problem solutions *)
Definition print_bid (vs : list (string * Z)) (cs : list string) (s : sid) : string :=
  bracket (map vehicle_id vs) ++ ":" ++ bracket cs ++ ":" ++ print s ++ ":" ++ ver s.

Definition not_char (x : ascii) (c : ascii) : bool := negb (Ascii.eqb c x).
Definition not_bracket (c : ascii) : bool := negb (Ascii.eqb c "[" || Ascii.eqb c "]").

Definition parse_benchmark_id (b : string) : res (list string * list string * (bool * res sid)) :=
  match split ":" (sfilter (not_char " ") b) with
  | [s0; s1; s2; s3] =>
      Ok (split "," (sfilter not_bracket s0), split "," (sfilter not_bracket s1), from_benchmark_id s2 s3)
  | _ => Err SolutionReaderException
  end.

Definition digit_val (c : ascii) : option Z :=
  if is_digit c then Some (Z.of_N (N_of_ascii c) - 48)%Z else None.
Definition parse_vehicle_id (v : string) : res (string * Z) :=
  let n := String.length v in
  if negb (Nat.eqb n 3) && negb (Nat.eqb n 4) then Err SolutionReaderException else
  match init_last v with
  | None => Err SolutionReaderException
  | Some (m, l) =>
      if negb (smem m vehicle_models) then Err SolutionReaderException else
      match digit_val l with
      | None => Err ValueError
      | Some t => if negb (zmem t vehicle_types) then Err SolutionReaderException else Ok (m, t)
      end
  end.
Definition parse_cost_id (c : string) : res string :=
  if smem c cost_functions then Ok c else Err SolutionReaderException.
