(* Model/ArcLen.v — commonroad/scenario/lanelet.py: Lanelet.distance (lines 293-301),
   _compute_polyline_cumsum_dist (357-366, one polyline), interpolate_position (658-679),
   merge_lanelets (779-836: orientation of the pair, joint test, concatenation, id, pred/succ), over Q.
   Vertices are (x, y, z): the library accepts (n x 2) and (n x 3) polylines (is_valid_polyline) and every
   statement modelled here works on whole rows (np.diff(axis=0), sum(axis=1), row-wise linear combination,
   np.isclose(...).all()); a 2-D vertex is the 3-D vertex with z = 0 (its z terms vanish in every formula).
   The segment lengths sqrt(dx^2+dy^2+dz^2) are oracle values: [distance] takes the list [ls] of the n-1 numbers
   numpy computed; the theorems assume  0 <= l_i  and  l_i^2 == dx_i^2 + dy_i^2 + dz_i^2  (Proofs/ArcLen.v: valid_lens).
   numpy.cumsum is sequential addition (exact here, rounded there); numpy.searchsorted(a, v) (side='left') on a
   sorted array is the first index i with v <= a[i] = the length of the maximal prefix of elements < v. *)
From Coq Require Import QArith Qabs ZArith Bool List.
From CR Require Import Base.QMod.
Import ListNotations.
Open Scope Q_scope.

Definition pt := (Q * Q * Q)%type.
Definition px (p : pt) : Q := fst (fst p).
Definition py (p : pt) : Q := snd (fst p).
Definition pz (p : pt) : Q := snd p.

(* np.diff(polyline, axis=0) *)
Fixpoint deltas (P : list pt) : list pt :=
  match P with
  | a :: ((b :: _) as r) => (px b - px a, py b - py a, pz b - pz a) :: deltas r
  | _ => []
  end.
(* np.square(d).sum(axis=1) *)
Definition norm2 (d : pt) : Q := px d * px d + py d * py d + pz d * pz d.

(* np.cumsum(np.append([0], ls)) = [0, l1, l1+l2, ...] *)
Fixpoint cumsum_from (acc : Q) (ls : list Q) : list Q :=
  match ls with
  | [] => []
  | x :: r => (acc + x) :: cumsum_from (acc + x) r
  end.
Definition cum (ls : list Q) : list Q := 0 :: cumsum_from 0 ls.

(* np.searchsorted(a, v): number of leading elements < v *)
Fixpoint searchsorted (a : list Q) (v : Q) : nat :=
  match a with
  | [] => O
  | x :: r => if Qlt_bool x v then S (searchsorted r v) else O
  end.

(* Python / numpy indexing a[i] with negative indices counted from the end; None = IndexError *)
Definition py_nth {A} (a : list A) (i : Z) : option A :=
  let n := Z.of_nat (List.length a) in
  if (i <? - n)%Z || (n <=? i)%Z then None
  else nth_error a (Z.to_nat (if (i <? 0)%Z then n + i else i)).

(* while not self.distance[idx] <= distance: idx += 1 *)
Fixpoint fix_idx (fuel : nat) (d : list Q) (s : Q) (i : Z) : option Z :=
  match fuel with
  | O => None
  | S f => match py_nth d i with
           | None => None
           | Some x => if Qle_bool x s then Some i else fix_idx f d s (i + 1)%Z
           end
  end.

Definition lerp (r : Q) (p q : pt) : pt :=
  ((1 - r) * px p + r * px q, (1 - r) * py p + r * py q, (1 - r) * pz p + r * pz q).

Inductive ires :=
| IOk (c r l : pt) (idx : Z)      (* (center, right, left, segment id) *)
| IAssert                         (* AssertionError: distance outside [0, length] *)
| IIndex                          (* IndexError *)
| INan.                           (* division 0/0: numpy returns nan without raising *)

Definition interpolate (C R L : list pt) (ls : list Q) (s : Q) : ires :=
  let d := cum ls in
  if negb (Qle_bool s (last d 0) && Qle_bool 0 s) then IAssert else
  let idx0 := (Z.of_nat (searchsorted d s) - 1)%Z in
  match fix_idx (S (S (List.length d))) d s idx0 with
  | None => IIndex
  | Some idx =>
      match py_nth d idx, py_nth d (idx + 1), py_nth C idx, py_nth C (idx + 1),
            py_nth R idx, py_nth R (idx + 1), py_nth L idx, py_nth L (idx + 1) with
      | Some d0, Some d1, Some c0, Some c1, Some r0, Some r1, Some l0, Some l1 =>
          if Qeq_bool (d1 - d0) 0 then INan else
          let r := (s - d0) / (d1 - d0) in
          IOk (lerp r c0 c1) (lerp r r0 r1) (lerp r l0 l1) idx
      | _, _, _, _, _, _, _, _ => IIndex
      end
  end.

(* ------------------------------------------------------------------ merge_lanelets *)
Record lanelet := { l_id : Z; l_left : list pt; l_center : list pt; l_right : list pt;
                    l_succ : list Z; l_pred : list Z }.

Definition memZ (x : Z) (l : list Z) : bool := existsb (Z.eqb x) l.

(* np.isclose(a, b) = |a - b| <= atol + rtol * |b|,  atol = 1e-8, rtol = 1e-5 *)
Definition atol : Q := 1 # 100000000.
Definition rtol : Q := 1 # 100000.
Definition isclose (a b : Q) : bool := Qle_bool (Qabs (a - b)) (atol + rtol * Qabs b).
(* np.isclose(p, q).all() *)
Definition pt_close (p q : pt) : bool := isclose (px p) (px q) && isclose (py p) (py q) && isclose (pz p) (pz q).

(* int(str(a) + str(b)) for naturals: a * 10^digits(b) + b *)
Fixpoint pow10_above (fuel : nat) (p n : Z) : Z :=
  match fuel with
  | O => p
  | S f => if (p <=? n)%Z then pow10_above f (p * 10)%Z n else p
  end.
Definition concat_id (a b : Z) : Z := (a * pow10_above 60 10 b + b)%Z.

Inductive mres := MOk (l : lanelet) | MAssert.

Definition merge (l1 l2 : lanelet) : mres :=
  if negb (memZ (l_id l1) (l_succ l2) || memZ (l_id l2) (l_succ l1) ||
           memZ (l_id l1) (l_pred l2) || memZ (l_id l2) (l_pred l1)) then MAssert else
  let '(pred, suc) := if memZ (l_id l1) (l_pred l2) || memZ (l_id l2) (l_succ l1) then (l1, l2) else (l2, l1) in
  let idx := if pt_close (last (l_left pred) (0, 0, 0)) (hd (0, 0, 0) (l_left suc)) then 1%nat else 0%nat in
  MOk {| l_id := concat_id (l_id pred) (l_id suc);
         l_left := l_left pred ++ skipn idx (l_left suc);
         l_center := l_center pred ++ skipn idx (l_center suc);
         l_right := l_right pred ++ skipn idx (l_right suc);
         l_succ := l_succ suc; l_pred := l_pred pred |}.
