(* Model/Transform.v — commonroad/geometry/transform.py (lines 7-110) over Q.
   3x3 homogeneous matrices exactly as the code builds and multiplies them, including the
   coefficient choice of the two matrix constructors.  cos / sin are oracle inputs [c], [s]
   (DESIGN 2.2): the model never computes them, theorems state which algebraic fact they need
   ([c*c + s*s == 1]) where they need one.
   The model describes the repaired code: translation_rotation_matrix uses (cos a, sin a) for
   every angle (the small-angle branch "cos = 1, sin = a for |a| <= 0.05" was the defect). *)
From Coq Require Import QArith ZArith Bool List.
From CR Require Import Base.QMod.
Open Scope Q_scope.

Definition pt := (Q * Q)%type.
Definition px (p : pt) : Q := fst p.
Definition py (p : pt) : Q := snd p.
Definition pt_eq (p q : pt) : Prop := px p == px q /\ py p == py q.

Record mat3 := M3 { m11 : Q; m12 : Q; m13 : Q;
                    m21 : Q; m22 : Q; m23 : Q;
                    m31 : Q; m32 : Q; m33 : Q }.

(* numpy  A.dot(B)  for 3x3 *)
Definition mmul (A B : mat3) : mat3 :=
  M3 (m11 A * m11 B + m12 A * m21 B + m13 A * m31 B)
     (m11 A * m12 B + m12 A * m22 B + m13 A * m32 B)
     (m11 A * m13 B + m12 A * m23 B + m13 A * m33 B)
     (m21 A * m11 B + m22 A * m21 B + m23 A * m31 B)
     (m21 A * m12 B + m22 A * m22 B + m23 A * m32 B)
     (m21 A * m13 B + m22 A * m23 B + m23 A * m33 B)
     (m31 A * m11 B + m32 A * m21 B + m33 A * m31 B)
     (m31 A * m12 B + m32 A * m22 B + m33 A * m32 B)
     (m31 A * m13 B + m32 A * m23 B + m33 A * m33 B).

(* the coefficient choice of the two constructors.  [a] is the angle, [c] [s] the values
   math.cos(a), math.sin(a) would return *)
(* rotation_translation_matrix, transform.py:43-58:  angle == 0 -> (1, 0) *)
Definition coef_rt (a c s : Q) : Q * Q := if Qeq_bool a 0 then (1, 0) else (c, s).
(* translation_rotation_matrix, transform.py:61-82 (after fix): always (cos a, sin a) *)
Definition coef_tr (a c s : Q) : Q * Q := (c, s).

Definition translation_matrix (t : pt) : mat3 := M3 1 0 (px t)  0 1 (py t)  0 0 1.
Definition rotation_matrix (c s : Q) : mat3 := M3 c (- s) 0  s c 0  0 0 1.

(* translation_rotation_matrix: rotation_matrix.dot(translation_matrix) *)
Definition translation_rotation_matrix (t : pt) (a c s : Q) : mat3 :=
  let cs := coef_tr a c s in mmul (rotation_matrix (fst cs) (snd cs)) (translation_matrix t).
(* rotation_translation_matrix: written out directly by the code *)
Definition rotation_translation_matrix (t : pt) (a c s : Q) : mat3 :=
  let cs := coef_rt a c s in
  M3 (fst cs) (- snd cs) (px t)  (snd cs) (fst cs) (py t)  0 0 1.

(* to_homogeneous_coordinates / M.dot(h^T)^T / from_homogeneous_coordinates for one vertex:
   rows 1 and 2 of M applied to (x, y, 1) *)
Definition mapply (M : mat3) (p : pt) : pt :=
  (m11 M * px p + m12 M * py p + m13 M * 1, m21 M * px p + m22 M * py p + m23 M * 1).

(* transform.translate_rotate / rotate_translate on an (n,2) array *)
Definition translate_rotate_pts (t : pt) (a c s : Q) (vs : list pt) : list pt :=
  map (mapply (translation_rotation_matrix t a c s)) vs.
Definition rotate_translate_pts (t : pt) (a c s : Q) (vs : list pt) : list pt :=
  map (mapply (rotation_translation_matrix t a c s)) vs.

(* ---- specification side: the rigid motion  T(p) = R(c,s)(p + t)  and derived quantities *)
Definition rot (c s : Q) (p : pt) : pt := (c * px p - s * py p, s * px p + c * py p).
Definition padd (p q : pt) : pt := (px p + px q, py p + py q).
Definition pneg (p : pt) : pt := (- px p, - py p).
Definition T (c s : Q) (t : pt) (p : pt) : pt := rot c s (padd p t).
Definition dist2 (p q : pt) : Q := (px p - px q) * (px p - px q) + (py p - py q) * (py p - py q).
Definition cross (p q : pt) : Q := px p * py q - py p * px q.
(* twice the signed shoelace area of the vertex chain v0 v1 ... vn (closed iff v0 = vn, which is how
   Polygon and Rectangle store their vertices) *)
Fixpoint shoelace (vs : list pt) : Q :=
  match vs with
  | p :: ((q :: _) as r) => cross p q + shoelace r
  | _ => 0
  end.
