(* Model/Shapes.v — the shape classes of commonroad/geometry/shape.py and the State of
   commonroad/scenario/state.py as far as translate_rotate touches them:
     Rectangle.translate_rotate   shape.py:160-176      Circle.translate_rotate   shape.py:284-296
     Polygon.translate_rotate     shape.py:390-405      ShapeGroup.translate_rotate shape.py:494-513
     State.translate_rotate       state.py:247-296      make_valid_orientation    util.py:28-33 (Model/Interval.v)
   An AssertionError / TypeError of the implementation is the value [Err]; the two fuelled loops of
   make_valid_orientation(_interval) also yield [Err] when the fuel runs out, which Proofs/Shapes.v
   shows impossible for fuel >= 3 on valid arguments (so on those [Err] means "raises"). *)
From Coq Require Import QArith ZArith Bool List.
From CR Require Import Base.QMod Model.Interval Model.Transform.
Import ListNotations.
Open Scope Q_scope.

(* ShapeGroup holds a list of shapes (which may again be groups) *)
Inductive shape :=
| Rect (len wid : Q) (ctr : pt) (ori : Q)
| Circ (rad : Q) (ctr : pt)
| Poly (vs : list pt)               (* stored vertex chain, first = last *)
| Group (members : list shape).

Inductive position := PPoint (p : pt) | PRegion (sh : shape).
Inductive orientation := OExact (o : Q) | OItv (J : itv).
(* a state: the attributes translate_rotate looks at, the time step, and all remaining attributes
   (velocity, acceleration, yaw rate, ...) as an opaque payload that must not change.
   [s_vec]: the velocity vector (velocity, velocity_y) of a point-mass state whose orientation is the
   read-only property atan2(velocity_y, velocity); such a state has [s_ori = None] (nothing stored). *)
Record state := { s_time : Z; s_pos : option position; s_ori : option orientation; s_vec : option pt;
                  s_rest : list Q }.

Definition bind {A B} (r : res A) (f : A -> res B) : res B := match r with Ok a => f a | Err => Err end.
Notation "'do' x <- r ; k" := (bind r (fun x => k)) (at level 200, x name, r at level 100, k at level 200).

Fixpoint mapM {A B} (f : A -> res B) (l : list A) : res (list B) :=
  match l with
  | [] => Ok []
  | x :: r => do y <- f x; do ys <- mapM f r; Ok (y :: ys)
  end.

Definition optM {A B} (f : A -> res B) (o : option A) : res (option B) :=
  match o with None => Ok None | Some x => do y <- f x; Ok (Some y) end.

Section TR.
  Variable tau : Q.          (* the double TWO_PI as a rational *)
  Variable fuel : nat.
  Variable t : pt.           (* translation *)
  Variables a c s : Q.       (* angle and the oracle values cos a, sin a *)

  (* is_valid_orientation(angle): -TWO_PI <= angle <= TWO_PI *)
  Definition valid_angle : bool := valid_orientation tau a.
  Definition TM : mat3 := translation_rotation_matrix t a c s.
  Definition move (p : pt) : pt := mapply TM p.

  (* make_valid_orientation(o + angle) *)
  Definition shift_orient (o : Q) : res Q :=
    match make_valid_orientation tau fuel (o + a) with Some o' => Ok o' | None => Err end.

  Fixpoint tr_shape (sh : shape) : res shape :=
    match sh with
    | Rect l w ctr o =>
        if valid_angle then
          do o' <- shift_orient o;
          (* Rectangle(...): the orientation setter asserts is_valid_orientation *)
          if valid_orientation tau o' then Ok (Rect l w (move ctr) o') else Err
        else Err
    | Circ r ctr => Ok (Circ r (move ctr))            (* no assertion on the angle here *)
    | Poly vs => if valid_angle then Ok (Poly (map move vs)) else Err
    | Group ms =>
        if valid_angle then
          do ms' <- (fix go (l : list shape) : res (list shape) :=
                       match l with
                       | [] => Ok []
                       | x :: r => do y <- tr_shape x; do ys <- go r; Ok (y :: ys)
                       end) ms;
          Ok (Group ms')
        else Err
    end.

  (* AngleInterval + angle = AngleInterval(start + angle, end + angle) *)
  Definition shift_itv (J : itv) : res itv :=
    match aadd tau fuel J a with Some r => r | None => Err end.

  Definition tr_position (p : position) : res position :=
    match p with
    | PPoint q => Ok (PPoint (move q))
    | PRegion sh => do sh' <- tr_shape sh; Ok (PRegion sh')
    end.
  Definition tr_orientation (o : orientation) : res orientation :=
    match o with
    | OExact x => do x' <- shift_orient x; Ok (OExact x')
    | OItv J => do J' <- shift_itv J; Ok (OItv J')
    end.

  Definition tr_state (st : state) : res state :=
    if valid_angle then
      do p' <- optM tr_position (s_pos st);
      do o' <- optM tr_orientation (s_ori st);
      (* derived orientation (PMState, after fix): the velocity vector is rotated with cos a, sin a *)
      Ok {| s_time := s_time st; s_pos := p'; s_ori := o'; s_vec := option_map (rot c s) (s_vec st);
            s_rest := s_rest st |}
    else Err.
End TR.

(* what a shape is apart from where it is: kind, dimensions, number of vertices, group structure *)
Fixpoint skeleton (sh : shape) : shape :=
  match sh with
  | Rect l w _ _ => Rect l w (0, 0) 0
  | Circ r _ => Circ r (0, 0)
  | Poly vs => Poly (map (fun _ => (0, 0)) vs)
  | Group ms => Group (map skeleton ms)
  end.
