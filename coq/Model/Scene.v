(* Model/Scene.v — the fan-out of translate_rotate over the components of a scenario and of a
   planning-problem set, as a function on a record of components:
     StopLine        common/common_lanelet.py:172-193     Lanelet         scenario/lanelet.py:603-640
     LaneletNetwork  scenario/lanelet.py:1933-1956        TrafficSign     scenario/traffic_sign.py:967-989
     TrafficLight    scenario/traffic_light.py:329-354    Occupancy       prediction/prediction.py:81-92
     SetBasedPrediction prediction.py:198-212             TrajectoryPrediction prediction.py:372-389
     Trajectory      scenario/trajectory.py:156-177       Static/Dynamic/Phantom/EnvironmentObstacle
     scenario/obstacle.py:401-417, 644-662, 822-840, (EnvironmentObstacle.translate_rotate, added by the fix)
     Scenario        scenario/scenario.py:1297-1314       GoalRegion      planning/goal.py:123-131
     PlanningProblem planning/planning_problem.py:96-105  PlanningProblemSet planning_problem.py:187-195
   Which fields each level touches, which it leaves alone, which assertions it makes. *)
From Coq Require Import QArith ZArith Bool List.
From CR Require Import Base.QMod Model.Interval Model.Transform Model.Shapes.
Import ListNotations.
Open Scope Q_scope.

Record lanelet := { l_left : list pt; l_center : list pt; l_right : list pt; l_stop : option (pt * pt) }.
Record network := { n_lanelets : list lanelet; n_signs : list pt; n_lights : list pt }.
(* TrajectoryPrediction(trajectory states, shape) | SetBasedPrediction(occupancy shapes) *)
Inductive prediction := PTraj (sts : list state) (sh : shape) | PSet (occs : list shape).
Inductive obstacle :=
| OStatic (sh : shape) (init : state)
| ODynamic (sh : shape) (init : state) (pred : option prediction)
| OPhantom (pred : option (list shape))
| OEnv (sh : shape).
Record scenario := { sc_net : network; sc_obstacles : list obstacle }.
Record pproblem := { pp_init : state; pp_goals : list state }.

Section FAN.
  Variable tau : Q.
  Variable fuel : nat.
  Variable t : pt.
  Variables a c s : Q.

  Notation valid := (valid_angle tau a).
  Notation mv := (move t a c s).
  Notation trs := (tr_shape tau fuel t a c s).
  Notation trst := (tr_state tau fuel t a c s).

  Definition tr_stop (sl : pt * pt) : res (pt * pt) :=
    if valid then Ok (mv (fst sl), mv (snd sl)) else Err.
  Definition tr_lanelet (l : lanelet) : res lanelet :=
    if valid then
      do sl <- optM tr_stop (l_stop l);
      Ok {| l_left := map mv (l_left l); l_center := map mv (l_center l); l_right := map mv (l_right l);
            l_stop := sl |}
    else Err.
  (* TrafficSign / TrafficLight: position only *)
  Definition tr_post (p : pt) : res pt := if valid then Ok (mv p) else Err.
  Definition tr_network (n : network) : res network :=
    if valid then
      do ls <- mapM tr_lanelet (n_lanelets n);
      do sg <- mapM tr_post (n_signs n);
      do lt <- mapM tr_post (n_lights n);
      Ok {| n_lanelets := ls; n_signs := sg; n_lights := lt |}
    else Err.

  (* Occupancy.translate_rotate asserts, then shape.translate_rotate *)
  Definition tr_occ (sh : shape) : res shape := if valid then trs sh else Err.
  Definition tr_prediction (p : prediction) : res prediction :=
    if valid then
      match p with
      | PTraj sts sh => do sts' <- (if valid then mapM trst sts else Err); Ok (PTraj sts' sh)
      | PSet occs => do occs' <- mapM tr_occ occs; Ok (PSet occs')
      end
    else Err.
  Definition tr_obstacle (o : obstacle) : res obstacle :=
    match o with
    | OStatic sh init => if valid then do i' <- trst init; Ok (OStatic sh i') else Err
    | ODynamic sh init pred =>
        if valid then
          do p' <- optM tr_prediction pred;
          do i' <- trst init;
          Ok (ODynamic sh i' p')
        else Err
    | OPhantom pred =>
        if valid then
          do p' <- optM (fun occs => if valid then mapM tr_occ occs else Err) pred;
          Ok (OPhantom p')
        else Err
    | OEnv sh => if valid then do sh' <- trs sh; Ok (OEnv sh') else Err
    end.
  Definition tr_scenario (sc : scenario) : res scenario :=
    if valid then
      do n' <- tr_network (sc_net sc);
      do os' <- mapM tr_obstacle (sc_obstacles sc);
      Ok {| sc_net := n'; sc_obstacles := os' |}
    else Err.

  (* PlanningProblem / GoalRegion / PlanningProblemSet make no assertion of their own *)
  Definition tr_pproblem (p : pproblem) : res pproblem :=
    do i' <- trst (pp_init p);
    do g' <- mapM trst (pp_goals p);
    Ok {| pp_init := i'; pp_goals := g' |}.
  Definition tr_ppset (ps : list pproblem) : res (list pproblem) := mapM tr_pproblem ps.
End FAN.

(* ---- every stored point / orientation / other number of every component, in one fixed order.
   [APt]: a stored point; [AOri]: a stored orientation; [AItv]: a stored orientation interval;
   [AVec]: the velocity vector of a point-mass state (a free vector: rotated, not translated);
   [ANum]: a number that a rigid motion must leave alone (dimension, time step, velocity, ...) *)
Inductive atom := APt (p : pt) | AOri (o : Q) | AItv (J : itv) | AVec (v : pt) | ANum (x : Q).

Fixpoint atoms_shape (sh : shape) : list atom :=
  match sh with
  | Rect l w ctr o => [ANum l; ANum w; APt ctr; AOri o]
  | Circ r ctr => [ANum r; APt ctr]
  | Poly vs => map APt vs
  | Group ms => ANum (inject_Z (Z.of_nat (List.length ms))) :: flat_map atoms_shape ms
  end.
Definition atoms_opt {A} (f : A -> list atom) (o : option A) : list atom :=
  match o with None => [ANum 0] | Some x => ANum 1 :: f x end.
Definition atoms_position (p : position) : list atom :=
  match p with PPoint q => [APt q] | PRegion sh => ANum 2 :: atoms_shape sh end.
Definition atoms_orientation (o : orientation) : list atom :=
  match o with OExact x => [AOri x] | OItv J => [AItv J] end.
Definition atoms_state (st : state) : list atom :=
  ANum (inject_Z (s_time st)) :: atoms_opt atoms_position (s_pos st) ++ atoms_opt atoms_orientation (s_ori st)
    ++ atoms_opt (fun v => [AVec v]) (s_vec st) ++ map ANum (s_rest st).
Definition atoms_list {A} (f : A -> list atom) (l : list A) : list atom :=
  ANum (inject_Z (Z.of_nat (List.length l))) :: flat_map f l.
Definition atoms_lanelet (l : lanelet) : list atom :=
  atoms_list (fun p => [APt p]) (l_left l) ++ atoms_list (fun p => [APt p]) (l_center l)
  ++ atoms_list (fun p => [APt p]) (l_right l)
  ++ atoms_opt (fun sl => [APt (fst sl); APt (snd sl)]) (l_stop l).
Definition atoms_network (n : network) : list atom :=
  atoms_list atoms_lanelet (n_lanelets n) ++ atoms_list (fun p => [APt p]) (n_signs n)
  ++ atoms_list (fun p => [APt p]) (n_lights n).
Definition atoms_prediction (p : prediction) : list atom :=
  match p with
  | PTraj sts sh => ANum 1 :: atoms_list atoms_state sts
  | PSet occs => ANum 2 :: atoms_list atoms_shape occs
  end.
Definition atoms_obstacle (o : obstacle) : list atom :=
  match o with
  | OStatic sh init => ANum 1 :: atoms_state init
  | ODynamic sh init pred => ANum 2 :: atoms_state init ++ atoms_opt atoms_prediction pred
  | OPhantom pred => ANum 3 :: atoms_opt (atoms_list atoms_shape) pred
  | OEnv sh => ANum 4 :: atoms_shape sh
  end.
Definition atoms_scenario (sc : scenario) : list atom :=
  atoms_network (sc_net sc) ++ atoms_list atoms_obstacle (sc_obstacles sc).
Definition atoms_pproblem (p : pproblem) : list atom :=
  atoms_state (pp_init p) ++ atoms_list atoms_state (pp_goals p).
Definition atoms_ppset (ps : list pproblem) : list atom := atoms_list atoms_pproblem ps.

(* the obstacle's own (local-frame) shapes, which the motion must not touch *)
Definition local_shape (o : obstacle) : list shape :=
  match o with
  | OStatic sh _ => [sh]
  | ODynamic sh _ (Some (PTraj _ sh')) => [sh; sh']
  | ODynamic sh _ _ => [sh]
  | _ => []
  end.
