(* Model/SolutionFmt.v — commonroad/common/solution.py, the solution document as data over the generated
   tables (Gen/Tables_C14.v):
     StateType.get_state_type (228-265), TrajectoryType.valid_vehicle_model (314-327, tabulated),
     PlanningProblemSolution.__init__ (343-399), Solution (470-610: dict of planning-problem solutions,
     benchmark_id, computation_time setter), CommonRoadSolutionReader (638-788),
     CommonRoadSolutionWriter (831-885).
   Numeric leaves are an oracle pair: [fstr] = str(np.float64(x)), [fparse] = float(text); the values are
   abstract ([F]; the correspondence instantiates it with the IEEE bit pattern).  Integers go through
   str/int, modelled by Coq's decimal printer/reader.  Scenario ids (C13) and dates (strftime/strptime) are
   oracle pairs as well.  A Python exception is the result [None]. *)
From Coq Require Import String Ascii List ZArith Bool Decimal DecimalString DecimalZ.
From CR Require Import Model.SolTypes.
Import ListNotations.
Open Scope string_scope.
Open Scope list_scope.

(* ------------------------------------------------------------------ generic helpers *)
Fixpoint lookup {A} (k : string) (l : list (string * A)) : option A :=
  match l with
  | [] => None
  | (k', v) :: r => if String.eqb k k' then Some v else lookup k r
  end.
(* Enum(value): the member name of a value *)
Fixpoint rlookup (v : string) (l : list (string * string)) : option string :=
  match l with
  | [] => None
  | (k, v') :: r => if String.eqb v v' then Some k else rlookup v r
  end.
Fixpoint mapM {A B} (f : A -> option B) (l : list A) : option (list B) :=
  match l with
  | [] => Some []
  | x :: r => match f x, mapM f r with Some y, Some ys => Some (y :: ys) | _, _ => None end
  end.
Definition mem (s : string) (l : list string) : bool := existsb (String.eqb s) l.
Fixpoint nodup_s (l : list string) : bool :=
  match l with [] => true | x :: r => negb (mem x r) && nodup_s r end.

(* str(int) / int(text) *)
Definition ztext (z : Z) : string := NilZero.string_of_int (Z.to_int z).
Definition zparse (s : string) : option Z := option_map Z.of_int (NilZero.int_of_string s).

(* str.split(c) (always at least one segment), c.join(l), removal of characters *)
Fixpoint split (c : ascii) (s : string) : list string :=
  match s with
  | EmptyString => [EmptyString]
  | String a r =>
      if Ascii.eqb a c then EmptyString :: split c r
      else match split c r with
           | h :: t => String a h :: t
           | [] => [String a EmptyString]
           end
  end.
Fixpoint join (c : ascii) (l : list string) : string :=
  match l with
  | [] => EmptyString
  | [x] => x
  | x :: r => x ++ String c (join c r)
  end.
Fixpoint remove_chars (p : ascii -> bool) (s : string) : string :=
  match s with
  | EmptyString => EmptyString
  | String a r => if p a then remove_chars p r else String a (remove_chars p r)
  end.
Fixpoint has_char (p : ascii -> bool) (s : string) : bool :=
  match s with EmptyString => false | String a r => p a || has_char p r end.
Definition is_space (a : ascii) : bool := Ascii.eqb a " ".
Definition is_bracket (a : ascii) : bool := Ascii.eqb a "[" || Ascii.eqb a "]".
Definition is_sep (a : ascii) : bool :=
  Ascii.eqb a ":" || Ascii.eqb a "," || is_space a || is_bracket a.

(* Solution.benchmark_id: "%s:%s:%s:%s" with  x  or  [x,y,...]  for vehicle and cost ids *)
Definition brack (l : list string) : string :=
  match l with
  | [x] => x
  | _ => "[" ++ join "," l ++ "]"
  end.
Definition benchmark_id (vids cids : list string) (sid ver : string) : string :=
  brack vids ++ ":" ++ brack cids ++ ":" ++ sid ++ ":" ++ ver.
(* CommonRoadSolutionReader._parse_benchmark_id, up to ScenarioID.from_benchmark_id *)
Definition parse_bid (b : string) : option (list string * list string * string * string) :=
  match split ":" (remove_chars is_space b) with
  | [a; c; s; v] => Some (split "," (remove_chars is_bracket a), split "," (remove_chars is_bracket c), s, v)
  | _ => None
  end.

(* stable insertion sort by an integer key: sorted(state_list, key=lambda state: state.time_step) *)
Section Sort.
  Context {A : Type} (key : A -> Z).
  (* [x] originally stands before everything in [l]: it goes in front of the first element whose key is
     not smaller, so equal keys keep their order *)
  Fixpoint insert_front (x : A) (l : list A) : list A :=
    match l with
    | [] => [x]
    | y :: r => if (key x <=? key y)%Z then x :: l else y :: insert_front x r
    end.
  Fixpoint sort_by (l : list A) : list A :=
    match l with [] => [] | x :: r => insert_front x (sort_by r) end.
End Sort.

Section Fmt.
  Variable F : Type.                          (* float values *)
  Variable fstr : F -> string.                (* str(np.float64(x)) *)
  Variable fparse : string -> option F.       (* float(text) *)
  Variable fpos : F -> bool.                  (* x > 0 *)
  Variable S : Type.                          (* scenario ids *)
  Variable sid_str : S -> string.             (* str(scenario_id) *)
  Variable sid_ver : S -> string.             (* scenario_id.scenario_version *)
  Variable sid_parse : string -> string -> option S.   (* ScenarioID.from_benchmark_id *)
  Variable D : Type.                          (* datetimes *)
  Variable dstr : D -> string.                (* strftime("%Y-%m-%dT%H:%M:%S") *)
  Variable dparse : string -> option D.       (* strptime with the two formats of _parse_header *)
  Variable cpu : option string.               (* _get_processor_name() *)
  Variable T : tables.

  (* a number held by a state attribute: Python float or int *)
  Inductive num := NF (x : F) | NZ (z : Z).
  (* an attribute value: scalar or array (position) *)
  Inductive fv := FS (n : num) | FA (l : list num).
  (* a state = its attribute dictionary, in insertion order *)
  Definition state := list (string * fv).

  (* _create_sub_element: str(np.float64(value) if isinstance(value, float) else value) *)
  Definition num_text (n : num) : string := match n with NF x => fstr x | NZ z => ztext z end.

  (* ---------------------------------------------------------------- writer: state node *)
  (* for idx, name in enumerate(xml_name): sub_element(name, state_val[idx]) *)
  Fixpoint write_tuple (names : list string) (l : list num) : option (list (string * string)) :=
    match names, l with
    | [], _ => Some []
    | n :: ns, v :: vs => option_map (cons (n, num_text v)) (write_tuple ns vs)
    | _ :: _, [] => None                       (* IndexError *)
    end.
  Definition write_entry (e : xml_entry) (v : fv) : option (list (string * string)) :=
    match e, v with
    | XTuple names, FA l => write_tuple names l
    | XName n, FS x => Some [(n, num_text x)]
    | _, _ => None                             (* scalar indexed / array printed: outside the model's domain *)
    end.
  (* for mapping in zip(xml_fields, fields): getattr(state, field) *)
  Fixpoint write_pairs (xf : list (xml_entry * string)) (st : state) : option (list (string * string)) :=
    match xf with
    | [] => Some []
    | (e, f) :: r =>
        match lookup f st with
        | None => None                         (* AttributeError *)
        | Some v => match write_entry e v, write_pairs r st with
                    | Some a, Some b => Some (a ++ b)
                    | _, _ => None
                    end
        end
    end.
  Definition leaf (p : string * string) : xml := Node (fst p) [] [] (snd p).
  Definition zipped (ty : string) : option (list (xml_entry * string)) :=
    match lookup ty (t_xml T), lookup ty (t_fields T) with
    | Some xs, Some fs => Some (combine xs fs)
    | _, _ => None
    end.
  Definition write_state (ty : string) (st : state) : option xml :=
    match lookup ty (t_stype T), zipped ty with
    | Some stag, Some xf => option_map (fun ps => Node stag [] (map leaf ps) "") (write_pairs xf st)
    | _, _ => None
    end.

  (* ---------------------------------------------------------------- reader: state node *)
  Definition find_kid (name : string) (kids : list xml) : option xml :=
    find (fun k => String.eqb (tag_of k) name) kids.
  (* _parse_sub_element *)
  Definition parse_sub (kids : list xml) (name : string) (as_float : bool) : option num :=
    match find_kid name kids with
    | None => None                             (* SolutionReaderException *)
    | Some k => if as_float then option_map NF (fparse (text_of k)) else option_map NZ (zparse (text_of k))
    end.
  Definition read_entry (kids : list xml) (e : xml_entry) : option fv :=
    match e with
    | XTuple names => option_map FA (mapM (fun n => parse_sub kids n true) names)
    | XName n => option_map FS (parse_sub kids n (negb (String.eqb n "time")))
    end.
  (* state_vals: a dict keyed by field name *)
  Fixpoint dict_set {A} (k : string) (v : A) (d : list (string * A)) : list (string * A) :=
    match d with
    | [] => [(k, v)]
    | (k', v') :: r => if String.eqb k k' then (k, v) :: r else (k', v') :: dict_set k v r
    end.
  Fixpoint read_pairs (kids : list xml) (xf : list (xml_entry * string)) (acc : state) : option state :=
    match xf with
    | [] => Some acc
    | (e, f) :: r => match read_entry kids e with
                     | None => None
                     | Some v => read_pairs kids r (dict_set f v acc)
                     end
    end.
  (* state_types[state_type] applied to the keyword dict state_vals: every keyword must be a field of the class; fields of the class
     that got no value keep their default None and are not part of the populated state *)
  Definition construct (ty : string) (vals : state) : option (list string * state) :=
    match lookup ty (t_reader T) with
    | None => None                             (* KeyError *)
    | Some (_, attrs) => if forallb (fun kv => mem (fst kv) attrs) vals then Some (attrs, vals) else None
    end.
  Definition read_state (ty : string) (x : xml) : option (list string * state) :=
    match lookup ty (t_stype T), zipped ty with
    | Some stag, Some xf =>
        if String.eqb (tag_of x) stag then
          match read_pairs (kids_of x) xf [] with
          | Some vals => construct ty vals
          | None => None
          end
        else None
    | _, _ => None
    end.

  (* ---------------------------------------------------------------- get_state_type, PlanningProblemSolution *)
  Definition fits_ge (attrs fs : list string) : bool :=
    (length fs <=? length attrs)%nat && forallb (fun f => mem f attrs) fs.
  Definition get_state_type (attrs : list string) (vm : string) : option string :=
    match lookup vm (t_fields T) with
    | None => None                             (* StateFields[vm.name]: KeyError *)
    | Some _ =>
        let first := [vm; "Input"; "PMInput"] in
        let order := first ++ filter (fun n => negb (mem n first)) (map fst (t_fields T)) in
        match find (fun n => match lookup n (t_fields T) with
                             | Some fs => fits_ge attrs fs
                             | None => false end) order with
        | None => None                         (* StateTypeException *)
        | Some n => match lookup n (t_stype T) with Some _ => Some n | None => None end
        end
    end.
  Definition valid_vm (ty vm : string) : bool :=
    match lookup ty (t_valid_vm T) with Some l => mem vm l | None => false end.
  Definition cost_supported (vm cost : string) : bool :=
    match lookup vm (t_supported T) with Some l => mem cost l | None => false end.

  Record pps := { p_id : Z; p_vm : string; p_vt : Z; p_cost : string; p_ty : string; p_states : list state }.

  (* PlanningProblemSolution.__init__ on a trajectory whose first state has attribute list [attrs0] *)
  Definition pps_ctor (id : Z) (vm : string) (vt : Z) (cost : string) (attrs0 : list string)
             (states : list state) : option pps :=
    match get_state_type attrs0 vm with
    | None => None
    | Some ty => if valid_vm ty vm && cost_supported vm cost
                 then Some {| p_id := id; p_vm := vm; p_vt := vt; p_cost := cost; p_ty := ty; p_states := states |}
                 else None
    end.

  (* ---------------------------------------------------------------- trajectory node *)
  Definition write_traj (p : pps) : option xml :=
    match lookup (p_ty p) (t_ttype T) with
    | None => None
    | Some ttag => option_map (fun ks => Node ttag [("planningProblem", ztext (p_id p))] ks "")
                              (mapM (write_state (p_ty p)) (p_states p))
    end.

  Definition time_of (st : state) : option Z :=
    match lookup "time_step" st with Some (FS (NZ z)) => Some z | _ => None end.
  Definition key_of (st : state) : Z := match time_of st with Some z => z | None => 0%Z end.

  (* _parse_trajectory: tag -> TrajectoryType, planningProblem attribute, states, sorted by time step;
     Trajectory(...) asserts at least one state and natural time steps *)
  Definition read_traj (x : xml) : option (Z * string * list string * list state) :=
    match rlookup (tag_of x) (t_ttype T) with
    | None => None                             (* SolutionReaderException: invalid trajectory type *)
    | Some ty =>
        match lookup "planningProblem" (attrs_of x) with
        | None => None
        | Some ppt =>
            match zparse ppt, mapM (read_state ty) (kids_of x) with
            | Some id, Some ((attrs, st0) :: rest) =>
                let sts := st0 :: map snd rest in
                if forallb (fun st => match time_of st with Some z => (0 <=? z)%Z | None => false end) sts
                then Some (id, ty, attrs, sort_by key_of sts)
                else None
            | _, _ => None
            end
        end
    end.

  (* ---------------------------------------------------------------- header, solution *)
  Record solution := { s_sid : S; s_pps : list pps; s_date : option D; s_ctime : option num;
                       s_pname : option string }.

  Definition vehicle_id (p : pps) : string := p_vm p ++ ztext (p_vt p).
  (* _parse_vehicle_id *)
  Definition parse_vehicle_id (s : string) : option (string * Z) :=
    let n := String.length s in
    if (n =? 3)%nat || (n =? 4)%nat then
      let pre := substring 0 (n - 1) s in
      if mem pre (map fst (t_vmodel T)) then
        match zparse (substring (n - 1) 1 s) with
        | Some z => if existsb (Z.eqb z) (map snd (t_vtype T)) then Some (pre, z) else None
        | None => None
        end
      else None
    else None.

  Definition opt_attr (k : string) (v : option string) : list (string * string) :=
    match v with Some s => [(k, s)] | None => [] end.
  Definition pname_out (pn : option string) : option string :=
    match pn with
    | Some s => if String.eqb s "auto" then cpu else Some s
    | None => None
    end.
  Definition write_solution (s : solution) : option xml :=
    match s_pps s with
    | [] => None                               (* vehicle_ids[0]: IndexError *)
    | _ =>
        let bid := benchmark_id (map vehicle_id (s_pps s)) (map p_cost (s_pps s))
                                (sid_str (s_sid s)) (sid_ver (s_sid s)) in
        let attrs := [("benchmark_id", bid)]
                     ++ opt_attr "computation_time" (option_map num_text (s_ctime s))
                     ++ opt_attr "date" (option_map dstr (s_date s))
                     ++ opt_attr "processor_name" (pname_out (s_pname s)) in
        option_map (fun ks => Node "CommonRoadSolution" attrs ks "") (mapM write_traj (s_pps s))
    end.

  (* Solution.planning_problem_solutions setter: {s.planning_problem_id: s for s in ...} *)
  Fixpoint put_pps (p : pps) (d : list pps) : list pps :=
    match d with
    | [] => [p]
    | q :: d' => if (p_id q =? p_id p)%Z then p :: d' else q :: put_pps p d'
    end.
  Fixpoint dict_pps (acc : list pps) (l : list pps) : list pps :=
    match l with
    | [] => acc
    | p :: r => dict_pps (put_pps p acc) r
    end.
  Definition num_pos (n : num) : bool := match n with NF x => fpos x | NZ z => (0 <? z)%Z end.

  Fixpoint read_ppss (idx : nat) (vids cids : list string) (kids : list xml) : option (list pps) :=
    match kids with
    | [] => Some []
    | k :: r =>
        match nth_error vids idx, nth_error cids idx with
        | Some vid, Some cid =>
            match parse_vehicle_id vid, read_traj k with
            | Some (vm, vt), Some (id, _, attrs, sts) =>
                if mem cid (map fst (t_cost T)) then
                  match pps_ctor id vm vt cid attrs sts, read_ppss (Datatypes.S idx) vids cids r with
                  | Some p, Some ps => Some (p :: ps)
                  | _, _ => None
                  end
                else None
            | _, _ => None
            end
        | _, _ => None                         (* IndexError *)
        end
    end.

  Definition read_solution (x : xml) : option solution :=
    match lookup "benchmark_id" (attrs_of x) with
    | None => None
    | Some bid =>
        let date := match lookup "date" (attrs_of x) with
                    | None => Some None
                    | Some d => option_map Some (dparse d) end in
        let ct := match lookup "computation_time" (attrs_of x) with
                  | None => Some None
                  | Some c => option_map (fun v => Some (NF v)) (fparse c) end in
        match date, ct, parse_bid bid with
        | Some date, Some ct, Some (vids, cids, sids, ver) =>
            match sid_parse sids ver, read_ppss 0 vids cids (kids_of x) with
            | Some sid, Some ps =>
                if match ct with Some c => num_pos c | None => true end then
                  Some {| s_sid := sid; s_pps := dict_pps [] ps; s_date := date; s_ctime := ct;
                          s_pname := lookup "processor_name" (attrs_of x) |}
                else None
            | _, _ => None
            end
        | _, _, _ => None
        end
    end.

  (* ---------------------------------------------------------------- side conditions on the tables *)
  Definition flat_names (xs : list xml_entry) : list string :=
    flat_map (fun e => match e with XName n => [n] | XTuple l => l end) xs.
  (* the entry that carries "time" must be aligned with the field "time_step", and only that one *)
  Definition time_aligned (xf : list (xml_entry * string)) : bool :=
    forallb (fun p => match fst p with
                      | XName n => Bool.eqb (String.eqb n "time") (String.eqb (snd p) "time_step")
                      | XTuple _ => negb (String.eqb (snd p) "time_step")
                      end) xf
    && existsb (fun p => String.eqb (snd p) "time_step") xf.
  Definition type_aligned (ty : string) : bool :=
    match lookup ty (t_fields T), lookup ty (t_xml T), lookup ty (t_stype T), lookup ty (t_ttype T),
          lookup ty (t_reader T) with
    | Some fs, Some xs, Some _, Some _, Some (_, attrs) =>
        (length fs =? length xs)%nat && nodup_s (flat_names xs) && nodup_s fs
        && time_aligned (combine xs fs) && forallb (fun f => mem f attrs) fs
    | _, _, _, _, _ => false
    end.
  Definition type_names : list string := map fst (t_stype T).
  Definition clean (s : string) : bool := negb (has_char is_sep s).
  Definition all_vehicle_ids_parse : bool :=
    forallb (fun vm => forallb (fun vt =>
      match parse_vehicle_id (fst vm ++ ztext (snd vt)) with
      | Some (m, z) => String.eqb m (fst vm) && (z =? snd vt)%Z
      | None => false end && clean (fst vm ++ ztext (snd vt))) (t_vtype T)) (t_vmodel T).
  (* the reader's class for a type, re-classified by PlanningProblemSolution for every admissible vehicle
     model, gives the type back *)
  Definition reader_reclassifies : bool :=
    forallb (fun ty =>
      match lookup ty (t_reader T), lookup ty (t_valid_vm T) with
      | Some (_, attrs), Some vms =>
          forallb (fun vm => match get_state_type attrs vm with
                             | Some ty' => String.eqb ty' ty | None => false end) vms
      | _, _ => false
      end) type_names.
  Definition tables_aligned : bool :=
    nodup_s type_names && nodup_s (map snd (t_stype T)) && nodup_s (map fst (t_ttype T))
    && nodup_s (map snd (t_ttype T))
    && forallb type_aligned type_names
    && forallb (fun n => mem n type_names) (map fst (t_ttype T))
    && forallb (fun n => mem n type_names) (map fst (t_fields T))
    && forallb (fun c => clean (fst c)) (t_cost T)
    && all_vehicle_ids_parse && reader_reclassifies.

  (* ---------------------------------------------------------------- admissible documents *)
  Definition entry_wt (e : xml_entry) (v : fv) : bool :=
    match e, v with
    | XTuple names, FA l => (length l =? length names)%nat
    | XName n, FS x => if String.eqb n "time" then match x with NZ z => (0 <=? z)%Z | NF _ => false end else true
    | _, _ => false
    end.
  Definition state_wt (ty : string) (st : state) : bool :=
    match zipped ty with
    | Some xf => forallb (fun p => match lookup (snd p) st with
                                   | Some v => entry_wt (fst p) v | None => false end) xf
    | None => false
    end.
  Definition pps_ok (p : pps) : bool :=
    mem (p_ty p) type_names
    && valid_vm (p_ty p) (p_vm p) && cost_supported (p_vm p) (p_cost p)
    && mem (p_vm p) (map fst (t_vmodel T)) && existsb (Z.eqb (p_vt p)) (map snd (t_vtype T))
    && mem (p_cost p) (map fst (t_cost T))
    && match p_states p with [] => false | _ => true end
    && forallb (state_wt (p_ty p)) (p_states p).
  Fixpoint nodup_z (l : list Z) : bool :=
    match l with [] => true | x :: r => negb (existsb (Z.eqb x) r) && nodup_z r end.
  Definition is_colon_space (a : ascii) : bool := Ascii.eqb a ":" || is_space a.
  Definition clean_sid (i : S) : bool :=
    negb (has_char is_colon_space (sid_str i)) && negb (has_char is_colon_space (sid_ver i)).
  Definition solution_ok (s : solution) : bool :=
    match s_pps s with [] => false | _ => true end
    && forallb pps_ok (s_pps s) && nodup_z (map p_id (s_pps s))
    && clean_sid (s_sid s)
    && match s_ctime s with Some c => num_pos c | None => true end.
End Fmt.
