(* Model/ShapeCache.v — C06, "a rectangle is the l-by-w box at its pose" for objects that were queried and then changed
   through their public setters: the primary data of Rectangle / Circle / Polygon (commonroad/geometry/shape.py) with
   the geometry they cache, every public setter with exactly the caches the code invalidates or rebuilds (after the
   repairs 26019d9, f1d0f2d, 81f16ab), and the queries that fill the lazily computed caches.

     Rectangle  length / width / center / orientation setters            -> _invalidate_geometry (both caches dropped)
                vertices (property)                                       -> fills _vertices
                shapely_object / contains_point (_shapely_polygon)        -> fills _vertices and the polygon
     Circle     radius / center setters                                   -> _shapely_circle dropped
                shapely_object                                            -> fills it
     Polygon    vertices setter                                           -> stores vertices, bounding box AND rebuilds the polygon
                shapely_object / contains_point / center                  -> read the stored polygon

   What a cache holds when it is filled (the geometry) is abstract: Section variables.  The theorems are about the
   invalidation logic only; [code] selects the repaired code or the code as it was found (setters that leave the
   caches alone), for which the coherence statement is refuted by a witness. *)
From Coq Require Import List Bool.
Import ListNotations.

Section ShapeCache.
  Variables num pt verts geom : Type.
  Variable rect_verts : num -> num -> pt -> num -> verts.   (* Rectangle._compute_vertices *)
  Variable poly_geom : verts -> geom.                       (* shapely.geometry.Polygon(vertices) *)
  Variable circ_geom : num -> pt -> geom.                   (* Point(center).buffer(radius / 2) *)
  Variable box_of : verts -> verts.                         (* (min, max) over the vertices: Polygon._min / _max *)

  Variable repaired : bool.                                 (* true: the setters invalidate (current code) *)

  (* ================================================================ Rectangle *)
  Record rect := { r_l : num; r_w : num; r_c : pt; r_o : num; r_verts : option verts; r_geom : option geom }.
  Inductive rop := RSetL (x : num) | RSetW (x : num) | RSetC (p : pt) | RSetO (x : num) | RQVerts | RQGeom.
  Inductive rres := RUnit | RVerts (v : verts) | RGeom (g : geom).

  Definition rect_new (l w : num) (c : pt) (o : num) : rect :=
    {| r_l := l; r_w := w; r_c := c; r_o := o; r_verts := None; r_geom := None |}.
  Definition r_keep (r : rect) (l w : num) (c : pt) (o : num) : rect :=
    if repaired then rect_new l w c o
    else {| r_l := l; r_w := w; r_c := c; r_o := o; r_verts := r_verts r; r_geom := r_geom r |}.
  (* the vertices property *)
  Definition r_fill_verts (r : rect) : rect * verts :=
    match r_verts r with
    | Some v => (r, v)
    | None => let v := rect_verts (r_l r) (r_w r) (r_c r) (r_o r) in
              ({| r_l := r_l r; r_w := r_w r; r_c := r_c r; r_o := r_o r; r_verts := Some v; r_geom := r_geom r |}, v)
    end.
  (* the _shapely_polygon property: Polygon(self.vertices) *)
  Definition r_fill_geom (r : rect) : rect * geom :=
    match r_geom r with
    | Some g => (r, g)
    | None => let (r1, v) := r_fill_verts r in
              let g := poly_geom v in
              ({| r_l := r_l r1; r_w := r_w r1; r_c := r_c r1; r_o := r_o r1; r_verts := r_verts r1; r_geom := Some g |}, g)
    end.
  Definition rstep (r : rect) (o : rop) : rect * rres :=
    match o with
    | RSetL x => (r_keep r x (r_w r) (r_c r) (r_o r), RUnit)
    | RSetW x => (r_keep r (r_l r) x (r_c r) (r_o r), RUnit)
    | RSetC p => (r_keep r (r_l r) (r_w r) p (r_o r), RUnit)
    | RSetO x => (r_keep r (r_l r) (r_w r) (r_c r) x, RUnit)
    | RQVerts => let (r1, v) := r_fill_verts r in (r1, RVerts v)
    | RQGeom => let (r1, g) := r_fill_geom r in (r1, RGeom g)
    end.
  Definition rrun (r : rect) (ops : list rop) : rect := fold_left (fun s o => fst (rstep s o)) ops r.

  (* a filled cache holds what recomputation from the current attributes gives *)
  Definition r_coherent (r : rect) : Prop :=
    (forall v, r_verts r = Some v -> v = rect_verts (r_l r) (r_w r) (r_c r) (r_o r)) /\
    (forall g, r_geom r = Some g -> g = poly_geom (rect_verts (r_l r) (r_w r) (r_c r) (r_o r))).
  (* the object freshly constructed from the current attribute values *)
  Definition r_rebuilt (r : rect) : rect := rect_new (r_l r) (r_w r) (r_c r) (r_o r).

  (* ================================================================ Circle *)
  Record circ := { c_r : num; c_c : pt; c_geom : option geom }.
  Inductive cop := CSetR (x : num) | CSetC (p : pt) | CQGeom.
  Definition circ_new (r : num) (c : pt) : circ := {| c_r := r; c_c := c; c_geom := None |}.
  Definition c_keep (s : circ) (r : num) (c : pt) : circ :=
    if repaired then circ_new r c else {| c_r := r; c_c := c; c_geom := c_geom s |}.
  Definition cstep (s : circ) (o : cop) : circ * option geom :=
    match o with
    | CSetR x => (c_keep s x (c_c s), None)
    | CSetC p => (c_keep s (c_r s) p, None)
    | CQGeom => match c_geom s with
                | Some g => (s, Some g)
                | None => let g := circ_geom (c_r s) (c_c s) in ({| c_r := c_r s; c_c := c_c s; c_geom := Some g |}, Some g)
                end
    end.
  Definition crun (s : circ) (ops : list cop) : circ := fold_left (fun x o => fst (cstep x o)) ops s.
  Definition c_coherent (s : circ) : Prop := forall g, c_geom s = Some g -> g = circ_geom (c_r s) (c_c s).
  Definition c_rebuilt (s : circ) : circ := circ_new (c_r s) (c_c s).

  (* ================================================================ Polygon (the polygon is built eagerly) *)
  Record poly := { p_v : verts; p_box : verts; p_geom : geom }.
  Inductive pop := PSetV (v : verts) | PQGeom.
  Definition poly_new (v : verts) : poly := {| p_v := v; p_box := box_of v; p_geom := poly_geom v |}.
  Definition pstep (s : poly) (o : pop) : poly * option geom :=
    match o with
    | PSetV v => (if repaired then poly_new v else {| p_v := v; p_box := box_of v; p_geom := p_geom s |}, None)
    | PQGeom => (s, Some (p_geom s))
    end.
  Definition prun (s : poly) (ops : list pop) : poly := fold_left (fun x o => fst (pstep x o)) ops s.
  Definition p_coherent (s : poly) : Prop := p_geom s = poly_geom (p_v s) /\ p_box s = box_of (p_v s).
End ShapeCache.

Arguments RSetL {num pt}. Arguments RSetW {num pt}. Arguments RSetC {num pt}. Arguments RSetO {num pt}.
Arguments RQVerts {num pt}. Arguments RQGeom {num pt}.
Arguments RUnit {verts geom}. Arguments RVerts {verts geom}. Arguments RGeom {verts geom}.
Arguments CSetR {num pt}. Arguments CSetC {num pt}. Arguments CQGeom {num pt}.
Arguments PSetV {verts}. Arguments PQGeom {verts}.
