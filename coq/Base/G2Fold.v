(* Base/G2Fold.v — op-sequence runner and invariant lifting (DESIGN B.1), used by C09 and C10.
   A machine is [step : S -> O -> S * R]; [ok] is the admissibility guard of DESIGN 2.7. *)
From Coq Require Import List Bool.
Import ListNotations.

Section Machine.
  Context {S O R : Type}.
  Variable step : S -> O -> S * R.
  Variable Inv : S -> Prop.
  Variable ok : S -> O -> bool.

  Definition run (ops : list O) (s : S) : S := fold_left (fun s o => fst (step s o)) ops s.

  Fixpoint trace (ops : list O) (s : S) : list R :=
    match ops with
    | [] => []
    | o :: r => snd (step s o) :: trace r (fst (step s o))
    end.

  Fixpoint all_ok (ops : list O) (s : S) : bool :=
    match ops with
    | [] => true
    | o :: r => ok s o && all_ok r (fst (step s o))
    end.

  Hypothesis step_inv : forall s o, Inv s -> ok s o = true -> Inv (fst (step s o)).

  Theorem run_inv : forall ops s, Inv s -> all_ok ops s = true -> Inv (run ops s).
  Proof.
    induction ops as [|o r IH]; simpl; intros s Hs Hok; [exact Hs|].
    apply andb_true_iff in Hok. destruct Hok as [H1 H2].
    apply IH; [apply step_inv; assumption | exact H2].
  Qed.

  Lemma run_app : forall a b s, run (a ++ b) s = run b (run a s).
  Proof. intros; unfold run; apply fold_left_app. Qed.

  Lemma all_ok_app : forall a b s, all_ok (a ++ b) s = all_ok a s && all_ok b (run a s).
  Proof.
    induction a as [|o r IH]; simpl; intros; [reflexivity|].
    rewrite IH, andb_assoc. reflexivity.
  Qed.
End Machine.
