(* Base/QMod.v — rational helpers shared by the models: boolean comparisons,
   floor-based modulus with period [tau], used by the angle models (C16, C08, C05).
   Every Python float is a dyadic rational, so statements over all of Q cover all floats. *)
From Coq Require Import QArith Qround ZArith Lia Lqa Bool Qminmax.
Open Scope Q_scope.

Definition Qlt_bool (a b : Q) : bool := negb (Qle_bool b a).

Lemma Qlt_bool_iff a b : Qlt_bool a b = true <-> a < b.
Proof.
  unfold Qlt_bool. rewrite negb_true_iff. split; intro H.
  - apply Qnot_le_lt. intro Hle. apply Qle_bool_iff in Hle. congruence.
  - destruct (Qle_bool b a) eqn:E; auto. apply Qle_bool_iff in E. exfalso; lra.
Qed.

Lemma Qle_bool_false a b : Qle_bool a b = false <-> b < a.
Proof.
  split; intro H.
  - apply Qnot_le_lt. intro Hle. apply Qle_bool_iff in Hle. congruence.
  - destruct (Qle_bool a b) eqn:E; auto. apply Qle_bool_iff in E. exfalso; lra.
Qed.

Lemma Qle_bool_spec a b : reflect (a <= b) (Qle_bool a b).
Proof. apply iff_reflect. symmetry. apply Qle_bool_iff. Qed.

Lemma Qlt_bool_spec a b : reflect (a < b) (Qlt_bool a b).
Proof. apply iff_reflect. symmetry. apply Qlt_bool_iff. Qed.

Definition Qeq_dec_bool (a b : Q) : bool := Qeq_bool a b.

(* x mod tau, the representative of x in [0, tau) *)
Definition qmod (tau x : Q) : Q := x - tau * inject_Z (Qfloor (x / tau)).

Lemma qmod_range tau x : 0 < tau -> 0 <= qmod tau x /\ qmod tau x < tau.
Proof.
  intro Ht. unfold qmod.
  pose proof (Qfloor_le (x / tau)) as Hlo.
  pose proof (Qlt_floor (x / tau)) as Hhi.
  set (k := Qfloor (x / tau)) in *.
  assert (Hx : x == tau * (x / tau)) by (field; lra).
  assert (H1 : tau * inject_Z k <= tau * (x / tau)) by (apply Qmult_le_l; assumption).
  assert (H2 : tau * (x / tau) < tau * inject_Z (k + 1)) by (apply Qmult_lt_l; assumption).
  rewrite inject_Z_plus in H2. change (inject_Z 1) with 1 in H2.
  split; lra.
Qed.

(* uniqueness: a representative in [0,tau) congruent to x is qmod *)
Lemma qmod_unique tau x k :
  0 < tau -> 0 <= x + inject_Z k * tau -> x + inject_Z k * tau < tau ->
  qmod tau x == x + inject_Z k * tau.
Proof.
  intros Ht H0 H1. unfold qmod.
  assert (Hk : Qfloor (x / tau) = (- k)%Z).
  { symmetry. apply Z.le_antisymm.
    - apply Qfloor_resp_le_inv || idtac.
      (* -k <= floor(x/tau)  <-  inject(-k) <= x/tau *)
      assert (inject_Z (-k) <= x / tau).
      { rewrite inject_Z_opp. apply Qle_shift_div_l; lra. }
      pose proof (Qfloor_resp_le _ _ H) as HH. rewrite Qfloor_Z in HH. exact HH.
    - assert (x / tau < inject_Z (-k + 1)).
      { rewrite inject_Z_plus, inject_Z_opp. change (inject_Z 1) with 1.
        apply Qlt_shift_div_r; lra. }
      pose proof (Qfloor_le (x / tau)) as HH.
      assert (inject_Z (Qfloor (x / tau)) < inject_Z (-k + 1)) by lra.
      rewrite <- Zlt_Qlt in H2. lia. }
  rewrite Hk, inject_Z_opp. ring.
Qed.

Lemma qmod_shift tau x k : 0 < tau -> qmod tau (x + inject_Z k * tau) == qmod tau x.
Proof.
  intro Ht.
  destruct (qmod_range tau x Ht) as [H0 H1].
  set (j := Qfloor (x / tau)) in *.
  assert (E : qmod tau x == x + inject_Z (- j) * tau).
  { unfold qmod. fold j. rewrite inject_Z_opp. ring. }
  rewrite (qmod_unique tau (x + inject_Z k * tau) (- j - k)%Z Ht).
  - rewrite E. unfold Z.sub. rewrite inject_Z_plus, !inject_Z_opp. ring.
  - rewrite E in H0. unfold Z.sub. rewrite inject_Z_plus, !inject_Z_opp in *. lra.
  - rewrite E in H1. unfold Z.sub. rewrite inject_Z_plus, !inject_Z_opp in *. lra.
Qed.

Lemma qmod_congr tau x : 0 < tau -> exists k : Z, qmod tau x == x + inject_Z k * tau.
Proof.
  intro Ht. exists (- Qfloor (x / tau))%Z. unfold qmod. rewrite inject_Z_opp. ring.
Qed.

Global Instance qmod_Proper : Proper (Qeq ==> Qeq ==> Qeq) qmod.
Proof.
  intros t1 t2 Ht x1 x2 Hx. unfold qmod.
  assert (E : Qfloor (x1 / t1) = Qfloor (x2 / t2)).
  { apply Qfloor_comp. rewrite Ht, Hx. reflexivity. }
  rewrite E, Ht, Hx. reflexivity.
Qed.
