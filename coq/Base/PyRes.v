(* Base/PyRes.v — result of a translated Python function that can raise: the value, or the class name of the
   exception (harness/vlib/py2coq.py, result style "pyres"; Model/Interval.v's [res] forgets the class).
   "nan" is not a Python exception: it marks a path on which a numpy float64 division by zero was evaluated
   (numpy returns nan / inf without raising) and the function returned normally. *)
From Coq Require Import String.

Inductive pyres (A : Type) : Type :=
| POk (a : A)
| PRaise (exc : string).
Arguments POk {A} a.
Arguments PRaise {A} exc.
