(* Base/G5Machine.v — op-sequence runner, invariant lifting (DESIGN B.1) and the refinement of a
   cached system to cache-free recomputation, used by C11 (Model/Caches.v) and C18 (Model/ReadOnly.v).
   A machine is [step : S -> O -> S * R]; [ok] is the admissibility guard of DESIGN 2.7. *)
From Coq Require Import List Bool.
Import ListNotations.

Section Machine.
  Context {S O R : Type}.
  Variable step : S -> O -> S * R.
  Variable ok : S -> O -> bool.

  Definition run (ops : list O) (s : S) : S := fold_left (fun s o => fst (step s o)) ops s.

  Fixpoint trace (ops : list O) (s : S) : list R :=
    match ops with
    | [] => []
    | o :: r => snd (step s o) :: trace r (fst (step s o))
    end.

  (* the states passed through, the start excluded *)
  Fixpoint states (ops : list O) (s : S) : list S :=
    match ops with
    | [] => []
    | o :: r => fst (step s o) :: states r (fst (step s o))
    end.

  Fixpoint all_ok (ops : list O) (s : S) : bool :=
    match ops with
    | [] => true
    | o :: r => ok s o && all_ok r (fst (step s o))
    end.

  Lemma run_app : forall a b s, run (a ++ b) s = run b (run a s).
  Proof. intros; unfold run; apply fold_left_app. Qed.

  Lemma all_ok_app : forall a b s, all_ok (a ++ b) s = all_ok a s && all_ok b (run a s).
  Proof.
    induction a as [|o r IH]; simpl; intros; [reflexivity|].
    rewrite IH, andb_assoc. reflexivity.
  Qed.

  Section Invariant.
    Variable Inv : S -> Prop.
    Hypothesis step_inv : forall s o, Inv s -> ok s o = true -> Inv (fst (step s o)).

    Theorem run_inv : forall ops s, Inv s -> all_ok ops s = true -> Inv (run ops s).
    Proof.
      induction ops as [|o r IH]; simpl; intros s Hs Hok; [exact Hs|].
      apply andb_true_iff in Hok. destruct Hok as [H1 H2].
      apply IH; [apply step_inv; assumption | exact H2].
    Qed.

    Theorem states_inv : forall ops s, Inv s -> all_ok ops s = true -> Forall Inv (states ops s).
    Proof.
      induction ops as [|o r IH]; simpl; intros s Hs Hok; [constructor|].
      apply andb_true_iff in Hok. destruct Hok as [H1 H2].
      constructor; [apply step_inv; assumption|]. apply IH; [apply step_inv; assumption | exact H2].
    Qed.
  End Invariant.

  (* Refinement: [prim] projects the primary data out of a state (forgetting the caches),
     [fresh p] is the system a constructor builds from primary data.  The reference run rebuilds the
     system from its primary data before every single operation. *)
  Section Refinement.
    Context {P : Type}.
    Variable prim : S -> P.
    Variable fresh : P -> S.
    Variable Inv : S -> Prop.

    Fixpoint ftrace (ops : list O) (p : P) : list R :=
      match ops with
      | [] => []
      | o :: r => snd (step (fresh p) o) :: ftrace r (prim (fst (step (fresh p) o)))
      end.

    Definition prun (ops : list O) (p : P) : P :=
      fold_left (fun p o => prim (fst (step (fresh p) o))) ops p.

    Hypothesis step_inv : forall s o, Inv s -> ok s o = true -> Inv (fst (step s o)).
    (* the primary data evolve independently of what the caches hold *)
    Hypothesis step_prim : forall s o, Inv s -> ok s o = true ->
                                       prim (fst (step s o)) = prim (fst (step (fresh (prim s)) o)).
    (* on a coherent state every operation answers as on the freshly built system *)
    Hypothesis step_answer : forall s o, Inv s -> ok s o = true ->
                                         snd (step s o) = snd (step (fresh (prim s)) o).

    Theorem prim_run : forall ops s, Inv s -> all_ok ops s = true -> prim (run ops s) = prun ops (prim s).
    Proof.
      induction ops as [|o r IH]; simpl; intros s Hs Hok; [reflexivity|].
      apply andb_true_iff in Hok. destruct Hok as [H1 H2].
      unfold run, prun in *; simpl. rewrite (IH _ (step_inv s o Hs H1) H2), (step_prim s o Hs H1). reflexivity.
    Qed.

    Theorem trace_fresh : forall ops s, Inv s -> all_ok ops s = true -> trace ops s = ftrace ops (prim s).
    Proof.
      induction ops as [|o r IH]; simpl; intros s Hs Hok; [reflexivity|].
      apply andb_true_iff in Hok. destruct Hok as [H1 H2].
      rewrite (step_answer s o Hs H1). f_equal.
      rewrite (IH _ (step_inv s o Hs H1) H2), (step_prim s o Hs H1). reflexivity.
    Qed.

    (* the form used in the property statement: after any admissible history, a query answers as on
       the object freshly built from the current primary data *)
    Theorem query_after_run : forall ops q s, Inv s -> all_ok (ops ++ [q]) s = true ->
      snd (step (run ops s) q) = snd (step (fresh (prim (run ops s))) q).
    Proof.
      intros ops q s Hs Hok. rewrite all_ok_app in Hok. apply andb_true_iff in Hok. destruct Hok as [H1 H2].
      simpl in H2. rewrite andb_true_r in H2.
      apply step_answer; [apply (run_inv Inv step_inv); assumption | exact H2].
    Qed.
  End Refinement.

  (* The two refinement hypotheses follow from a simulation: two coherent states with the same primary data
     answer alike and keep the same primary data. *)
  Section Simulation.
    Context {P : Type}.
    Variable prim : S -> P.
    Variable fresh : P -> S.
    Variable Inv : S -> Prop.
    Hypothesis step_inv : forall s o, Inv s -> ok s o = true -> Inv (fst (step s o)).
    Hypothesis fresh_inv : forall s, Inv s -> Inv (fresh (prim s)).
    Hypothesis fresh_prim : forall s, Inv s -> prim (fresh (prim s)) = prim s.
    Hypothesis sim : forall s1 s2 o, Inv s1 -> Inv s2 -> prim s1 = prim s2 -> ok s1 o = true ->
      snd (step s1 o) = snd (step s2 o) /\ prim (fst (step s1 o)) = prim (fst (step s2 o)).

    Theorem sim_trace_fresh : forall ops s, Inv s -> all_ok ops s = true -> trace ops s = ftrace prim fresh ops (prim s).
    Proof.
      apply (trace_fresh prim fresh Inv step_inv).
      - intros s o Hs Hok. apply sim; auto. symmetry; apply fresh_prim; exact Hs.
      - intros s o Hs Hok. apply sim; auto. symmetry; apply fresh_prim; exact Hs.
    Qed.

    Theorem sim_query_after_run : forall ops q s, Inv s -> all_ok (ops ++ [q]) s = true ->
      snd (step (run ops s) q) = snd (step (fresh (prim (run ops s))) q).
    Proof.
      apply (query_after_run prim fresh Inv step_inv).
      intros s o Hs Hok. apply sim; auto. symmetry; apply fresh_prim; exact Hs.
    Qed.

    Theorem sim_prim_run : forall ops s, Inv s -> all_ok ops s = true -> prim (run ops s) = prun prim fresh ops (prim s).
    Proof.
      apply (prim_run prim fresh Inv step_inv).
      intros s o Hs Hok. apply sim; auto. symmetry; apply fresh_prim; exact Hs.
    Qed.
  End Simulation.
End Machine.
