(* Props/C12.v — property C12: equality and hashing of scenario elements follow their contract.
   Statements only.  Generic theorems (for EVERY spec table, every value): [exact <lemma of Proofs/EqHash*.v>].
   Side conditions on the concrete table T_C12 = (Model/EqHashSpecs.v, transcribed from every __eq__/__hash__ and
   validated attribute by attribute by Corr/C12.v) x (Gen/Tables_C12.v, regenerated from the source on every run):
   booleans re-proved by vm_compute on every run, so a new constructor parameter, a new State subclass, an
   attribute that __eq__ stops comparing or that __hash__ hashes finer than __eq__ compares breaks this file.

   Model: Model/EqHash.v.  x == y is [eqv T x y]; hash(x) is H([hkey T x]) for a function H that maps ==-equal
   keys to equal integers ([hkey] = None: hash() raises TypeError). *)
From Coq Require Import QArith Qabs ZArith List Bool String Permutation.
Import ListNotations.
From CR Require Import Model.EqHash Model.EqHashTypes Gen.Tables_C12 Model.EqHashSpecs.
From CR Require Import Proofs.EqHash Proofs.EqHashH Proofs.EqHashT.
Open Scope Q_scope.

(* ---------------------------------------------------------------- reflexive, symmetric (every table, every value) *)
Theorem C12_eq_refl : forall T x, eqv T x x = true.
Proof. exact eqv_refl. Qed.

Theorem C12_eq_sym : forall T x y, eqv T x y = eqv T y x.
Proof. exact eqv_sym. Qed.

(* ---------------------------------------------------------------- independent of the insertion order of sets *)
(* [vperm T x y]: y is x with the elements of sets (anywhere inside), and of lists that __eq__ compares as sets,
   in another order *)
Theorem C12_eq_perm_invariant : forall T x y, vperm T x y -> eqv T x y = true.
Proof. exact eq_perm_invariant. Qed.

(* ---------------------------------------------------------------- sensitive to every constructor-visible attribute *)
(* side condition: every attribute of the generated table A_K has a comparison kind other than "ignored" *)
Theorem C12_table_covers : covers T_C12 attrs_C12 = true.
Proof. vm_compute. reflexivity. Qed.

(* x == y  ->  every constructor-visible attribute of x is held by y with a close value: equal (nested objects: ==),
   equal as sets for id lists, and for reals / arrays element-wise within 1e-10 ([attr_close], [num_close]).
   Contrapositive: a single attribute that differs (reals: by more than 1e-10) makes the objects unequal. *)
Theorem C12_eq_sensitive :
  forall c attrs, In (c, attrs) attrs_C12 ->
  forall fs c' fs' sp', spec_of T_C12 c' = Some sp' -> eqv T_C12 (VObj c fs) (VObj c' fs') = true ->
  forall a v, In a attrs -> In (a, v) fs ->
  exists sp v', spec_of T_C12 c = Some sp /\ ekind_of sp a <> KIgnored /\
                In (a, v') fs' /\ attr_close T_C12 (ekind_of sp a) v v'.
Proof. exact (eq_sensitive_visible T_C12 attrs_C12 C12_table_covers). Qed.

(* states (all generated State subclasses, incl. CustomState with freely named attributes) and signal states:
   every attribute the instance holds is compared *)
Theorem C12_table_states : all_compared_classes T_C12 ("SignalState"%string :: state_classes_C12) = true.
Proof. vm_compute. reflexivity. Qed.

Theorem C12_eq_sensitive_states :
  forall c, In c ("SignalState"%string :: state_classes_C12) ->
  forall fs c' fs' sp', spec_of T_C12 c' = Some sp' -> eqv T_C12 (VObj c fs) (VObj c' fs') = true ->
  forall a v, In (a, v) fs ->
  exists sp v', spec_of T_C12 c = Some sp /\ ekind_of sp a <> KIgnored /\
                In (a, v') fs' /\ attr_close T_C12 (ekind_of sp a) v v'.
Proof. exact (eq_sensitive_dynamic T_C12 _ C12_table_states). Qed.

Theorem C12_eq_differs : forall T c fs c' fs' sp sp' a v,
  spec_of T c = Some sp -> spec_of T c' = Some sp' -> In (a, v) fs -> is_ignored (ekind_of sp a) = false ->
  (forall v', In (a, v') fs' -> ~ attr_close T (ekind_of sp a) v v') ->
  eqv T (VObj c fs) (VObj c' fs') = false.
Proof. exact eq_differs. Qed.

(* what "close" means for reals compared after rounding to 10 decimals *)
Theorem C12_round10_close : forall x y, round10 x == round10 y -> Qabs (x - y) <= 1 # (10 ^ 10).
Proof. exact round10_eq_close. Qed.

Theorem C12_eq_same_family : forall T c fs c' fs' sp sp',
  spec_of T c = Some sp -> spec_of T c' = Some sp' -> eqv T (VObj c fs) (VObj c' fs') = true ->
  family_of T c = family_of T c'.
Proof. exact eq_same_family. Qed.

(* ---------------------------------------------------------------- the transcribed table vs the source text *)
(* src_eq_C12 / src_hash_C12 (generated from the syntax tree of every __eq__ / __hash__): every attribute that
   T_C12 claims compared is read on BOTH self and other, no attribute is read on one side only ("compared with
   itself"), every attribute T_C12 claims hashed is read by __hash__; all classes are listed *)
Theorem C12_table_source_eq : src_eq_ok T_C12 = true.
Proof. vm_compute. reflexivity. Qed.
Theorem C12_table_source_hash : src_hash_ok T_C12 = true.
Proof. vm_compute. reflexivity. Qed.
Theorem C12_table_source_complete : src_complete = true.
Proof. vm_compute. reflexivity. Qed.

(* ---------------------------------------------------------------- equal objects have equal hashes *)
(* side condition: attribute by attribute, what __hash__ does identifies at least what __eq__ identifies *)
Theorem C12_table_hash_coarser : hash_coarser T_C12 = true.
Proof. vm_compute. reflexivity. Qed.

Theorem C12_eq_hash : forall x y kx ky,
  eqv T_C12 x y = true -> hkey T_C12 x = Some kx -> hkey T_C12 y = Some ky -> peq kx ky = true.
Proof. exact (eq_hash_consistent T_C12 C12_table_hash_coarser). Qed.

(* ---------------------------------------------------------------- hash() does not raise *)
(* side conditions: every class / constructor parameter of the generated table A_K has a generated type
   (from the constructors' type annotations; None is an alternative iff the default instance holds None), and the
   hash preparation of every attribute accepts every value of the attribute's type *)
Theorem C12_table_types_cover :
  forallb (fun ca => forallb (fun a => match attr_ty types_C12 (fst ca) a with Some _ => true | None => false end)
                             (snd ca) &&
                     match assoc (fst ca) types_C12 with Some _ => true | None => false end) attrs_C12 = true.
Proof. vm_compute. reflexivity. Qed.

Theorem C12_table_types_hashable : types_hashable T_C12 types_C12 = true.
Proof. vm_compute. reflexivity. Qed.

(* an object all of whose attributes hold, recursively, values of their declared types (optional ones possibly
   None) has a hash: hash() returns for everything the public constructors accept as documented *)
Theorem C12_hash_total : forall c fs,
  has_ty types_C12 (VObj c fs) (TY [AObj c]) = true -> exists k, hkey T_C12 (VObj c fs) = Some k.
Proof. exact (hash_total_obj T_C12 types_C12 C12_table_types_hashable). Qed.

Theorem C12_hash_total_nested : forall v t, has_ty types_C12 v t = true -> exists u, hv T_C12 v = Some u.
Proof. exact (hash_total T_C12 types_C12 C12_table_types_hashable). Qed.

(* ---------------------------------------------------------------- non-vacuity *)
Definition rect (cx : Q) : value :=
  VObj "Rectangle" [("length", VNum 4); ("width", VNum 2); ("center", VArr [2%Z] [cx; 1]); ("orientation", VNum 0)].
Definition obst (ids : list value) : value :=
  VObj "StaticObstacle" [("obstacle_id", VInt 7); ("obstacle_type", VEnum "ObstacleType.PARKED_VEHICLE");
                         ("obstacle_shape", rect 0);
                         ("initial_state", VObj "InitialState" [("time_step", VInt 0); ("position", VArr [2%Z] [5000; 1]);
                                                                ("orientation", VNum (1 # 2))]);
                         ("initial_center_lanelet_ids", VSet ids); ("initial_shape_lanelet_ids", VNone);
                         ("initial_signal_state", VNone); ("signal_series", VNone)].

Example C12_nonvacuous :
  (* a centre moved by 3e-10 is seen, one moved by 2e-11 is not; hashes are defined and agree when equal *)
  eqv T_C12 (rect 5000) (rect (5000 + (3 # 10 ^ 10))) = false /\
  eqv T_C12 (rect 5000) (rect (5000 + (2 # 10 ^ 11))) = true /\
  hash_eq T_C12 (rect 5000) (rect (5000 + (2 # 10 ^ 11))) = Some true /\
  hash_eq T_C12 (rect 5000) (rect (5000 + (3 # 10 ^ 10))) = Some false /\
  (* the id sets {0, 8} and {8, 0} (colliding in CPython's set table); None defaults hash *)
  vperm T_C12 (obst [VInt 0; VInt 8]) (obst [VInt 8; VInt 0]) /\
  eqv T_C12 (obst [VInt 0; VInt 8]) (obst [VInt 8; VInt 0]) = true /\
  hash_eq T_C12 (obst [VInt 0; VInt 8]) (obst [VInt 8; VInt 0]) = Some true /\
  eqv T_C12 (obst [VInt 0; VInt 8]) (obst [VInt 0; VInt 16]) = false /\
  has_ty types_C12 (obst [VInt 0; VInt 8]) (TY [AObj "StaticObstacle"]) = true /\
  In ("Rectangle"%string, ["length"; "width"; "center"; "orientation"]%string) attrs_C12.
Proof.
  repeat split; try (vm_compute; reflexivity).
  - apply vp_obj. repeat (apply vpf_cons; [apply vp_refl|]).
    apply vpf_cons; [|apply vpf_cons; [apply vp_refl|]; repeat (apply vpf_cons; [apply vp_refl|]); apply vpf_nil].
    eapply vp_set; [repeat constructor; apply vp_refl|]. apply perm_swap.
  - vm_compute. tauto.
Qed.

Print Assumptions C12_eq_refl.
Print Assumptions C12_eq_sym.
Print Assumptions C12_eq_perm_invariant.
Print Assumptions C12_table_covers.
Print Assumptions C12_eq_sensitive.
Print Assumptions C12_table_states.
Print Assumptions C12_eq_sensitive_states.
Print Assumptions C12_eq_differs.
Print Assumptions C12_round10_close.
Print Assumptions C12_eq_same_family.
Print Assumptions C12_table_source_eq.
Print Assumptions C12_table_source_hash.
Print Assumptions C12_table_source_complete.
Print Assumptions C12_table_hash_coarser.
Print Assumptions C12_eq_hash.
Print Assumptions C12_table_types_cover.
Print Assumptions C12_table_types_hashable.
Print Assumptions C12_hash_total.
Print Assumptions C12_hash_total_nested.
Print Assumptions C12_nonvacuous.
