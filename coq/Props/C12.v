From Coq Require Import QArith ZArith List Bool String.
From CR Require Import Model.EqHash Proofs.EqHash.
Theorem C12_placeholder : True. Proof. exact placeholder. Qed.
Print Assumptions C12_placeholder.
