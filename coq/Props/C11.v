(* Props/C11.v — property C11: derived data never goes stale under mutation.
   Statements only; every proof is [exact <lemma of Proofs/Caches.v or Proofs/CachesEx.v>].
   W : world holds the abstract recomputation functions and geometry (Model/Caches.v); the statements hold for every W.
   [trace step ops s] = the answers of the cached system along a history; [ftrace step prim build ops p] = the answers
   of the reference that rebuilds the object from its primary data (through the constructor) before every operation. *)
From Coq Require Import List ZArith Bool Arith.
From CR Require Import Base.G5Machine Model.Caches Proofs.Caches Corr.C11 Proofs.CachesEx.
From CR Require Model.CacheTable Gen.Src_cachetable Proofs.SrcCacheTable.
Import ListNotations.
Open Scope Z_scope.

(* --- coherence (every populated cache = recomputation from the primary data) on every reachable state *)
Theorem C11_pred_coh_reachable : forall W ops p, PCoh W p -> PCoh W (run (pstep W) ops p).
Proof. exact pred_coh_reachable. Qed.
Theorem C11_obstacle_coh_reachable : forall W ops o, OInv W o -> all_ok (ostep W) (o_ok W) ops o = true ->
  OInv W (run (ostep W) ops o).
Proof. exact obst_inv_reachable. Qed.
Theorem C11_lanelet_coh_reachable : forall W ops l, LCoh W l -> LCoh W (run (lstep W) ops l).
Proof. exact lanelet_coh_reachable. Qed.
Theorem C11_cycle_coh_reachable : forall W ops c, CCoh W c -> CCoh W (run (cstep W) ops c).
Proof. exact cycle_coh_reachable. Qed.
Theorem C11_network_coh_reachable : forall W ops n, NCoh W n -> all_ok (nstep W) (n_ok W) ops n = true ->
  NCoh W (run (nstep W) ops n).
Proof. exact net_coh_reachable. Qed.
Theorem C11_scenario_coh_reachable : forall W ops s, SCoh W s -> all_ok (sstep W) (s_ok W) ops s = true ->
  SCoh W (run (sstep W) ops s).
Proof. exact scen_coh_reachable. Qed.

(* --- every answer along every history = the answer of the object rebuilt from the current primary data *)
Theorem C11_pred_answers_fresh : forall W ops p, PCoh W p ->
  trace (pstep W) ops p = ftrace (pstep W) (p_prim W) (p_build W) ops (p_prim W p).
Proof. exact pred_answers_fresh. Qed.
Theorem C11_obstacle_answers_fresh : forall W ops o, OInv W o -> all_ok (ostep W) (o_ok W) ops o = true ->
  trace (ostep W) ops o = ftrace (ostep W) (o_prim W) (o_build W) ops (o_prim W o).
Proof. exact obst_answers_fresh. Qed.
Theorem C11_lanelet_answers_fresh : forall W ops l, LCoh W l ->
  trace (lstep W) ops l = ftrace (lstep W) (l_prim W) (l_build W) ops (l_prim W l).
Proof. exact lanelet_answers_fresh. Qed.
Theorem C11_cycle_answers_fresh : forall W ops c, CCoh W c ->
  trace (cstep W) ops c = ftrace (cstep W) (c_prim W) (c_build W) ops (c_prim W c).
Proof. exact cycle_answers_fresh. Qed.
Theorem C11_network_answers_fresh : forall W ops n, NCoh W n -> all_ok (nstep W) (n_ok W) ops n = true ->
  trace (nstep W) ops n = ftrace (nstep W) (n_prim W) (n_build W) ops (n_prim W n).
Proof. exact net_answers_fresh. Qed.
Theorem C11_scenario_answers_fresh : forall W ops s, SCoh W s -> all_ok (sstep W) (s_ok W) ops s = true ->
  trace (sstep W) ops s = ftrace (sstep W) (s_prim W) (s_build W) ops (s_prim W s).
Proof. exact scen_answers_fresh. Qed.
(* the wording of the property: query q (run ops s0) = query q (fresh (primary (run ops s0))) *)
Theorem C11_query_after_history : forall W ops q s, SCoh W s -> all_ok (sstep W) (s_ok W) (ops ++ [q]) s = true ->
  snd (sstep W (run (sstep W) ops s) q) = snd (sstep W (s_build W (s_prim W (run (sstep W) ops s))) q).
Proof. exact scen_query_after_history. Qed.
(* objects coming out of the constructors are coherent, so the theorems apply to every constructed object *)
Theorem C11_constructors_coherent : forall W,
  (forall x, PCoh W (p_build W x)) /\ (forall x, OCoh W (o_build W x)) /\ (forall x, LCoh W (l_build W x)) /\
  (forall x, CCoh W (c_build W x)) /\ (forall x, NCoh W (n_build W x)).
Proof. exact (fun W => conj (p_build_coh W) (conj (o_build_coh W) (conj (l_build_coh W) (conj (c_build_coh W) (n_build_coh W))))). Qed.

(* --- the repaired mutators re-establish coherence whatever the caches held *)
Theorem C11_prediction_translate_rotate : forall W p m, PCoh W (fst (pstep W p (PMove W m))).
Proof. exact pred_move_any. Qed.
Theorem C11_cycle_setters : forall W c e k,
  CCoh W (fst (cstep W c (CSetElems W e))) /\ CCoh W (fst (cstep W c (CSetOffset W k))).
Proof. exact cycle_setters_any. Qed.
Theorem C11_network_translate_rotate : forall W n m,
  n_buffered W (n_move W n m) = map (entry W) (n_lanelets W (n_move W n m)) /\
  n_tree W (n_move W n m) = Some (n_buffered W (n_move W n m)) /\
  Forall (LCoh W) (n_lanelets W (n_move W n m)).
Proof. exact net_move_index. Qed.
Theorem C11_lanelet_translate_rotate_convert : forall W l m,
  LCoh W (fst (lstep W l (LMove W m))) /\ LCoh W (fst (lstep W l (LConv2d W))).
Proof. exact lanelet_move_any. Qed.
(* the public vertex setters of a lanelet (repaired by 5260073): whatever the lanelet had cached, afterwards it is
   coherent, its cumulative distance is that of the new centre line and its polygon that of the new boundaries *)
Theorem C11_lanelet_vertex_setters : forall W l v,
  LCoh W (fst (lstep W l (LSetVerts W v))) /\
  snd (lstep W (fst (lstep W l (LSetVerts W v))) (LQDist W)) = LRDists W (dist_of W v) /\
  snd (lstep W (fst (lstep W l (LSetVerts W v))) (LQPoly W)) = LRRing W (poly_of W v).
Proof. exact lanelet_set_verts_any. Qed.

(* --- update_initial_state: the last max_history_length previous states, in order, equal lengths *)
Theorem C11_history_lastn : forall W o cur sg cen shp m, (0 < m)%nat ->
  let o' := fst (ostep W o (OUpdateInit W cur sg cen shp m)) in
  let d := o_data W o in let d' := o_data W o' in
  d_hist W d' = lastn m (d_hist W d ++ [d_init W d]) /\
  d_init W d' = cur /\ d_sig W d' = sg /\ o_pred W o' = PNone W /\
  o_init_occ W o' = oshape_of W (d_shape W d') cur /\
  (length (d_sighist W d) = length (d_hist W d) -> length (d_cenhist W d) = length (d_hist W d) ->
   length (d_shphist W d) = length (d_hist W d) ->
   d_sighist W d' = lastn m (d_sighist W d ++ [d_sig W d]) /\
   d_cenhist W d' = lastn m (d_cenhist W d ++ [d_cen W d]) /\
   d_shphist W d' = lastn m (d_shphist W d ++ [d_shp W d]) /\
   length (d_hist W d') = Nat.min m (S (length (d_hist W d))) /\
   length (d_sighist W d') = length (d_hist W d') /\ length (d_cenhist W d') = length (d_hist W d') /\
   length (d_shphist W d') = length (d_hist W d')).
Proof. exact update_initial_state_spec. Qed.
Theorem C11_history_rejects_zero : forall W o cur sg cen shp,
  ostep W o (OUpdateInit W cur sg cen shp 0%nat) = (o, ORErr W AssertionError).
Proof. exact update_initial_state_rejects. Qed.

(* --- non-vacuity, and witnesses that the demand is real (token world of Corr/C11.v) *)
Example C11_nonvacuous_prediction :
  trace (pstep TokW) [PQOccSet TokW; PMove TokW 7; PQOccSet TokW; PQOccAt TokW 3] p0
  = [PROccs TokW (T 1, T 2); PRUnit TokW; PROccs TokW (T 1, Mv 7 (T 2)); PROcc TokW (Some (3%Z, (T 1, Mv 7 (T 2))))]
  /\ p_status (run (pstep TokW) [PQOccSet TokW; PMove TokW 7] p0) = [Empty]
  /\ p_status (run (pstep TokW) [PQOccSet TokW; PMove TokW 7; PQOccSet TokW] p0) = [Valid].
Proof. exact ex_pred_history. Qed.
Example C11_nonvacuous_scenario :
  let ops := [SQOccs TokW 6; SNet TokW (NQPos TokW tt); SMove TokW 9; SQOccs TokW 6; SNet TokW (NQPos TokW tt)] in
  all_ok (sstep TokW) (s_ok TokW) ops s0 = true /\
  nth 3 (trace (sstep TokW) ops s0) (SRUnit TokW) = SROccs TokW [(6%Z, (T 6, Mv 9 (T 7)))] /\
  s_status (run (sstep TokW) ops s0) = [Valid; Valid; Valid; Empty; Empty; Empty; Valid; Valid].
Proof. exact ex_scenario_history. Qed.
(* without the invalidation (the code before the repairs) coherence is lost *)
Example C11_unrepaired_prediction_refuted :
  let p := fst (pstep TokW p0 (PQOccSet TokW)) in PCoh TokW p /\ ~ PCoh TokW (pmove_old p 7).
Proof. exact old_pred_move_stale. Qed.
Example C11_unrepaired_network_refuted :
  n_status n0 = [Valid; Valid; Valid; Empty; Empty; Valid; Empty; Empty] /\
  n_status (n_move_old n0 5) = [Stale; Stale; Valid; Empty; Empty; Valid; Empty; Empty] /\
  n_status (fst (nstep TokW n0 (NMove TokW 5))) = [Valid; Valid; Valid; Empty; Empty; Valid; Empty; Empty].
Proof. exact old_net_move_stale. Qed.
(* the admissible-domain cuts are necessary *)
Example C11_member_move_outside_domain :
  n_ok TokW n0 (NLanelet TokW 0 (LMove TokW 5)) = false /\
  ~ NCoh TokW (fst (nstep TokW n0 (NLanelet TokW 0 (LMove TokW 5)))).
Proof. exact member_move_breaks. Qed.

(* ---- the invalidation logic of the setters is the source's: the effects the vertex setters of Lanelet, the trajectory /
   shape setters of TrajectoryPrediction and the initial_state / obstacle_shape setters of Obstacle have on the derived
   attributes are parsed from the source on every run (Gen/Src_cachetable.v); see Props/C06.v for the statement. *)
Theorem C11_lanelet_setters_are_source : SrcCacheTable.class_statement Src_cachetable.src_lanelet_caches Src_cachetable.src_lanelet_deps Src_cachetable.src_lanelet_setters.
Proof. exact SrcCacheTable.src_lanelet_coherent. Qed.
Theorem C11_trajectory_prediction_setters_are_source : SrcCacheTable.class_statement Src_cachetable.src_trajectory_prediction_caches Src_cachetable.src_trajectory_prediction_deps Src_cachetable.src_trajectory_prediction_setters.
Proof. exact SrcCacheTable.src_trajectory_prediction_coherent. Qed.
Theorem C11_obstacle_setters_are_source : SrcCacheTable.class_statement Src_cachetable.src_obstacle_caches Src_cachetable.src_obstacle_deps Src_cachetable.src_obstacle_setters.
Proof. exact SrcCacheTable.src_obstacle_coherent. Qed.
(* TrafficLightCycle: cycle_elements / time_offset drop the memoised cumulative durations, active leaves it alone (it is
   not read by the code that fills the memo) *)
Theorem C11_traffic_light_cycle_setters_are_source : SrcCacheTable.class_statement Src_cachetable.src_traffic_light_cycle_caches Src_cachetable.src_traffic_light_cycle_deps Src_cachetable.src_traffic_light_cycle_setters.
Proof. exact SrcCacheTable.src_traffic_light_cycle_coherent. Qed.
Example C11_cycle_table_nonvacuous :
  (length Src_cachetable.src_traffic_light_cycle_setters = 3)%nat /\
  CacheTable.setter_ok Src_cachetable.src_traffic_light_cycle_caches Src_cachetable.src_traffic_light_cycle_deps {| CacheTable.s_attr := 1%nat; CacheTable.s_main := [CacheTable.EStore]; CacheTable.s_tail := [] |} = false /\
  CacheTable.setter_ok Src_cachetable.src_traffic_light_cycle_caches Src_cachetable.src_traffic_light_cycle_deps {| CacheTable.s_attr := 2%nat; CacheTable.s_main := [CacheTable.EStore]; CacheTable.s_tail := [] |} = true.
Proof. exact SrcCacheTable.cycle_setter_without_drop_refused. Qed.
Example C11_setter_tables_nonvacuous :
  (length Src_cachetable.src_lanelet_setters = 3 /\ length Src_cachetable.src_trajectory_prediction_setters = 2 /\
   length Src_cachetable.src_obstacle_setters = 2)%nat /\
  CacheTable.setter_ok Src_cachetable.src_lanelet_caches Src_cachetable.src_lanelet_deps {| CacheTable.s_attr := 1%nat; CacheTable.s_main := [CacheTable.EStore; CacheTable.EDrop 1%nat; CacheTable.ERebuild 2%nat]; CacheTable.s_tail := [] |} = false /\
  CacheTable.setter_ok Src_cachetable.src_trajectory_prediction_caches Src_cachetable.src_trajectory_prediction_deps
    {| CacheTable.s_attr := 1%nat; CacheTable.s_main := []; CacheTable.s_tail := [CacheTable.EStore; CacheTable.EDrop 0%nat] |} = false.
Proof. vm_compute. repeat split; reflexivity. Qed.

Print Assumptions C11_pred_coh_reachable.
Print Assumptions C11_obstacle_coh_reachable.
Print Assumptions C11_lanelet_coh_reachable.
Print Assumptions C11_cycle_coh_reachable.
Print Assumptions C11_network_coh_reachable.
Print Assumptions C11_scenario_coh_reachable.
Print Assumptions C11_pred_answers_fresh.
Print Assumptions C11_obstacle_answers_fresh.
Print Assumptions C11_lanelet_answers_fresh.
Print Assumptions C11_cycle_answers_fresh.
Print Assumptions C11_network_answers_fresh.
Print Assumptions C11_scenario_answers_fresh.
Print Assumptions C11_query_after_history.
Print Assumptions C11_constructors_coherent.
Print Assumptions C11_prediction_translate_rotate.
Print Assumptions C11_cycle_setters.
Print Assumptions C11_network_translate_rotate.
Print Assumptions C11_lanelet_translate_rotate_convert.
Print Assumptions C11_history_lastn.
Print Assumptions C11_history_rejects_zero.
Print Assumptions C11_nonvacuous_prediction.
Print Assumptions C11_nonvacuous_scenario.
Print Assumptions C11_unrepaired_prediction_refuted.
Print Assumptions C11_unrepaired_network_refuted.
Print Assumptions C11_member_move_outside_domain.
Print Assumptions C11_lanelet_vertex_setters.
Print Assumptions C11_lanelet_setters_are_source.
Print Assumptions C11_trajectory_prediction_setters_are_source.
Print Assumptions C11_obstacle_setters_are_source.
Print Assumptions C11_traffic_light_cycle_setters_are_source.
Print Assumptions C11_cycle_table_nonvacuous.
Print Assumptions C11_setter_tables_nonvacuous.
