From Coq Require Import QArith ZArith Bool List.
From CR Require Import Model.Occupancy.
Theorem C04_stub : True.
Proof. exact I. Qed.
Print Assumptions C04_stub.
