(* Props/C04.v — property C04: obstacle occupancy is the shape placed at the state, for every time step.
   Statements only; every proof is [exact <lemma of Proofs/Occupancy.v>].
   Model: Model/Occupancy.v.  (i) dispatch: generic in the type S of states and R of regions, [tstep] = state.time_step,
   [place s] = occupancy_shape_from_state(obstacle shape, s); all time steps are Z.  (ii) placement over Q with the
   values of cos / sin / atan2 as oracle inputs.  (iii) enclosing rectangle for uncertain states: the algebraic part,
   under explicit hypotheses on the oracle values ([orc_ok], [dev_ok]); named ..._partial where those hypotheses stand
   for trigonometric facts that are not proved here (they are spelled out at the theorem). *)
From Coq Require Import QArith Qabs ZArith Bool List Permutation.
Import ListNotations.
From CR Require Import Base.QMod Model.Interval Model.Transform Model.Shapes Model.Scene Proofs.Shapes
  Model.Occupancy Proofs.Occupancy.
From CR Require Import Base.PyRes Model.DispatchCfg Gen.Src_dispatch Proofs.SrcDispatch.

(* ================================================================== (i) dispatch, for every integer t *)
Section Dispatch.
  Open Scope Z_scope.
  Variables S R : Type.
  Variable tstep : S -> Z.
  Variable place : S -> R.
  Notation occ_at := (occupancy_at_time S R tstep place).
  Notation st_at := (state_at_time S R tstep).
  Notation placed_at := (occ_of S R place).      (* occ_of t s = Occupancy(t, shape placed at s) *)
  Notation consecutive := (consecutive S tstep). (* state i of the trajectory carries time step t_init + i (DESIGN 2.7) *)

  (* THE statement: for static obstacles, dynamic obstacles without prediction and dynamic obstacles with a trajectory
     prediction, the occupancy at t is the shape placed at the obstacle's state at t, and None iff it has no state at t *)
  Theorem C04_occupancy_is_shape_at_state : forall o t, state_based S R tstep o = true ->
    occ_at o t = option_map (placed_at t) (st_at o t).
  Proof. exact (occupancy_is_placed_state S R tstep place). Qed.

  (* which state: the initial state at its own time step, state_list[t - t_init] of the trajectory afterwards,
     none before the initial time step / in a gap / beyond the last state *)
  Theorem C04_dynamic_state_dispatch : forall i ty init tr t, consecutive tr = true ->
    st_at (Dynamic i ty init (Some (PrTraj tr))) t =
      if Z.eqb t (tstep init) then Some init
      else if Z.ltb (tstep init) t && Z.leb (t_init tr) t && Z.ltb t (t_init tr + Z.of_nat (List.length (t_states tr)))
           then nth_error (t_states tr) (Z.to_nat (t - t_init tr)) else None.
  Proof. exact (dynamic_state_dispatch S R tstep). Qed.
  (* the state returned for t is the one whose time step is t *)
  Theorem C04_dynamic_state_has_time_t : forall i ty init pred t s, state_based S R tstep (Dynamic i ty init pred) = true ->
    st_at (Dynamic i ty init pred) t = Some s -> tstep s = t.
  Proof. exact (dynamic_state_time S R tstep place). Qed.
  (* None exactly outside the time horizon *)
  Theorem C04_dynamic_none_outside_horizon : forall i ty init tr t, consecutive tr = true ->
    (occ_at (Dynamic i ty init (Some (PrTraj tr))) t = None <->
     t < tstep init \/ (tstep init < t /\ (t < t_init tr \/ t_init tr + Z.of_nat (List.length (t_states tr)) <= t))).
  Proof. exact (dynamic_occupancy_none_iff S R tstep place). Qed.
  Theorem C04_dynamic_without_prediction : forall i ty init t,
    occ_at (Dynamic i ty init None) t = if Z.eqb t (tstep init) then Some (placed_at t init) else None.
  Proof. exact (dynamic_no_prediction S R tstep place). Qed.

  (* Trajectory.state_at_time_step: defined exactly on [t_init, t_init + n); with consecutive time steps it returns
     the state with time step t and None iff there is none *)
  Theorem C04_trajectory_defined_iff : forall (tr : traj S) t,
    (exists s, state_at_time_step S tr t = Some s) <-> t_init tr <= t < t_init tr + Z.of_nat (List.length (t_states tr)).
  Proof. exact (state_at_time_step_defined S R tstep place). Qed.
  Theorem C04_trajectory_state_with_time_t : forall tr t s, consecutive tr = true ->
    (state_at_time_step S tr t = Some s <-> List.In s (t_states tr) /\ tstep s = t).
  Proof. exact (state_at_time_step_consecutive S R tstep place). Qed.
  Theorem C04_trajectory_none_iff_no_state : forall tr t, consecutive tr = true ->
    (state_at_time_step S tr t = None <-> forall s, List.In s (t_states tr) -> tstep s <> t).
  Proof. exact (state_at_time_step_consecutive_none S R tstep place). Qed.
  (* TrajectoryPrediction.occupancy_at_time_step = the shape placed at that state *)
  Theorem C04_trajectory_occupancy : forall tr t, consecutive tr = true ->
    pred_occupancy_at S R tstep place (PrTraj tr) t = option_map (placed_at t) (state_at_time_step S tr t).
  Proof. exact (traj_occupancy_is_placed_state S R tstep place). Qed.

  (* stored occupancies (set-based predictions, phantom obstacles): the FIRST stored occupancy whose time step /
     interval covers t; None iff none covers t *)
  Theorem C04_stored_occupancy_first_covering : forall (l : list (occ R)) t o, lookup R l t = Some o <->
    exists pre post, l = pre ++ o :: post /\ key_covers (o_time o) t /\ Forall (fun x => ~ key_covers (o_time x) t) pre.
  Proof. exact (lookup_some R). Qed.
  Theorem C04_stored_occupancy_none_iff : forall (l : list (occ R)) t,
    lookup R l t = None <-> Forall (fun x => ~ key_covers (o_time x) t) l.
  Proof. exact (lookup_none R). Qed.
  Theorem C04_dynamic_set_based : forall i ty init l t,
    occ_at (Dynamic i ty init (Some (PrSet l))) t =
      (if Z.eqb t (tstep init) then Some (placed_at t init) else if Z.ltb (tstep init) t then lookup R l t else None) /\
    st_at (Dynamic i ty init (Some (PrSet l))) t = (if Z.eqb t (tstep init) then Some init else None).
  Proof. exact (dynamic_set_based S R tstep place). Qed.
  Theorem C04_phantom : forall i p t,
    occ_at (Phantom i p) t = match p with Some l => lookup R l t | None => None end /\ st_at (Phantom i p) t = None.
  Proof. exact (phantom_dispatch S R tstep place). Qed.

  (* static and environment obstacles: the same region at all times, never None *)
  Theorem C04_static : forall i ty init t,
    occ_at (Static i ty init) t = Some (placed_at t init) /\ st_at (Static i ty init) t = Some init.
  Proof. exact (static_same_region S R tstep place). Qed.
  Theorem C04_time_invariant_region : forall o t t', ob_role S R o = RStatic \/ ob_role S R o = REnvironment ->
    option_map (@o_region R) (occ_at o t) = option_map (@o_region R) (occ_at o t') /\ occ_at o t <> None.
  Proof. exact (time_invariant_region S R tstep place). Qed.

  (* ---- obstacles with a history: update_initial_state installs the new initial state (occupancy = the shape placed
     at it, at its time step; nothing else until a new prediction arrives), the initial_state setter likewise; after a
     following update_prediction the main statement holds again and the state at the new initial time step is the new
     initial state.  (Every theorem above is quantified over all obstacle values, i.e. over the result of any history;
     that the implementation keeps no stale cache is what the correspondence checks on obstacles with histories.) *)
  Theorem C04_after_update_initial_state : forall i ty init p st t,
    occ_at (update_initial_state S R (Dynamic i ty init p) st) t =
      (if Z.eqb t (tstep st) then Some (placed_at t st) else None) /\
    st_at (update_initial_state S R (Dynamic i ty init p) st) t = (if Z.eqb t (tstep st) then Some st else None).
  Proof. exact (after_update_initial_state S R tstep place). Qed.
  Theorem C04_after_set_initial_state_static : forall i ty init st t,
    occ_at (set_initial_state S R (Static i ty init) st) t = Some (placed_at t st).
  Proof. exact (after_set_initial_state_static S R tstep place). Qed.
  Theorem C04_after_update_then_prediction : forall i ty init p st tr t, consecutive tr = true ->
    let o := set_prediction S R (update_initial_state S R (Dynamic i ty init p) st) (Some (PrTraj tr)) in
    occ_at o t = option_map (placed_at t) (st_at o t) /\ st_at o (tstep st) = Some st.
  Proof. exact (after_update_then_prediction S R tstep place). Qed.

  (* ---- scenario level: exactly what the per-obstacle answers imply *)
  (* Scenario.obstacles lists every stored obstacle exactly once *)
  Theorem C04_all_obstacles : forall obs : list (obstacle S R), Permutation (all_obstacles S R obs) obs.
  Proof. exact (all_obstacles_perm S R). Qed.
  (* occupancies_at_time_step (t >= 0): one entry for every obstacle of the requested role that has an occupancy at
     t, namely that occupancy; nothing else *)
  Theorem C04_occupancies_at_time_step : forall obs t r, 0 <= t ->
    exists l, occupancies_at_time_step S R tstep place obs t r = Ok l /\
              Permutation l (flat_map (occ_sel S R tstep place r t) obs) /\
              (forall i oc, List.In (i, oc) l <->
                 exists o, List.In o obs /\ ob_id S R o = i /\ role_ok S R r o = true /\ occ_at o t = Some oc).
  Proof. exact (occupancies_at_time_step_spec S R tstep place). Qed.
  Theorem C04_occupancies_negative_time : forall obs t r, t < 0 -> occupancies_at_time_step S R tstep place obs t r = Err.
  Proof. exact (occupancies_at_time_step_negative S R tstep place). Qed.
  (* obstacle_states_at_time_step (t >= 0): the states of exactly the static and dynamic obstacles that have one *)
  Theorem C04_obstacle_states_at_time_step : forall obs t, 0 <= t ->
    exists l, obstacle_states_at_time_step S R tstep obs t = Ok l /\
      (forall i s, List.In (i, s) l <->
         exists o, List.In o obs /\ ob_id S R o = i /\ (ob_role S R o = RStatic \/ ob_role S R o = RDynamic) /\
                   st_at o t = Some s).
  Proof. exact (obstacle_states_at_time_step_spec S R tstep). Qed.
  (* obstacles_by_role_and_type: every obstacle of the role and type, once; a phantom obstacle has no type *)
  Theorem C04_obstacles_by_role_and_type : forall obs r ty,
    Permutation (obstacles_by_role_and_type S R obs r ty) (flat_map (type_sel S R r ty) obs) /\
    (forall i, List.In i (obstacles_by_role_and_type S R obs r ty) <->
       exists o, List.In o obs /\ ob_id S R o = i /\ role_ok S R r o = true /\ type_ok S R ty o = true).
  Proof. exact (obstacles_by_role_and_type_spec S R). Qed.
  (* obstacles_by_position_intervals: the obstacles of the requested roles whose centre (of the occupancy at t /
     the initial position / the stored shape) lies in the box; regions without a centre always count *)
  Theorem C04_obstacles_by_position_intervals :
    forall (rcenter : R -> option (Q * Q)) (spos : S -> option (Q * Q)) (inside : Q * Q -> bool) obs roles t i,
    List.In i (by_position S R tstep place rcenter spos inside obs roles t) <->
    exists o, List.In o obs /\ ob_id S R o = i /\ existsb (role_eqb (ob_role S R o)) roles = true /\
              pos_sel S R tstep place rcenter spos inside t o = true.
  Proof. exact (by_position_spec S R tstep place). Qed.
End Dispatch.

(* ================================================================== (ii) placement at an exact state *)
Open Scope Q_scope.

(* rotate_translate_local(pos, th) places every shape kind, member-wise through shape groups: rectangle: centre + pos,
   orientation + th modulo tau, in [-tau, tau]; circle: centre + pos; polygon: every vertex rotated about the
   centroid by th and shifted by pos ([placed] is that relation, Proofs/Occupancy.v) *)
Theorem C04_placement : forall tau, 0 < tau -> forall fuel pos th c s sh sh',
  rotate_translate_local tau fuel pos th c s sh = Ok sh' -> placed tau pos th c s sh sh'.
Proof. exact rtl_placed. Qed.
(* ... and raises only for an invalid angle / an invalid stored rectangle orientation *)
Theorem C04_placement_total : forall tau, 0 < tau -> forall fuel pos th c s, (3 <= fuel)%nat ->
  valid_orientation tau th = true -> forall sh, valid_shape tau sh = true ->
  exists sh', rotate_translate_local tau fuel pos th c s sh = Ok sh'.
Proof. exact rtl_total. Qed.
(* a placed vertex in coordinates: g + R(th)(v - g) + pos; with the reference point at the origin: R(th) v + pos *)
Theorem C04_placed_vertex : forall pos c s g v,
  px (place_vertex g pos c s v) == px g + (c * (px v - px g) - s * (py v - py g)) + px pos /\
  py (place_vertex g pos c s v) == py g + (s * (px v - px g) + c * (py v - py g)) + py pos.
Proof. exact place_vertex_coords. Qed.
Theorem C04_placed_vertex_origin : forall pos c s g v, pt_eq g (0, 0) ->
  pt_eq (place_vertex g pos c s v) (padd (rot c s v) pos).
Proof. exact place_vertex_origin. Qed.
(* rectangles: the stored corners are centre + R(orientation) corner, and the corners of the placed rectangle are the
   placed corners (rotation about the centre), given the addition theorem for the oracle values of orientation + th *)
Theorem C04_rectangle_vertices : forall l w ctr o c s, exact_at_zero o c s ->
  Forall2 pt_eq (rect_vertices l w ctr o c s) (map (fun k => padd ctr (rot c s k)) (rect_corners l w)).
Proof. exact rect_vertices_closed. Qed.
Theorem C04_rectangle_vertices_placed : forall pos c s l w ctr o co so o' c' s',
  exact_at_zero o co so -> exact_at_zero o' c' s' -> c' == co * c - so * s -> s' == so * c + co * s ->
  Forall2 pt_eq (rect_vertices l w (padd ctr pos) o' c' s') (map (place_vertex ctr pos c s) (rect_vertices l w ctr o co so)).
Proof. exact rect_vertices_placed. Qed.
(* the orientation used: the stored one; atan2(velocity_y, velocity) for point-mass states (the arguments the oracle
   receives are fixed by the statement); an exact state is placed with rotate_translate_local at (position, heading) *)
Theorem C04_heading_stored : forall atan2f st o, s_ori st = Some o -> heading atan2f st = Some o.
Proof. exact heading_stored. Qed.
Theorem C04_heading_point_mass : forall atan2f st vx vy, s_ori st = None -> s_vec st = Some (vx, vy) ->
  heading atan2f st = Some (OExact (atan2f vy vx)).
Proof. exact heading_point_mass. Qed.
Theorem C04_exact_state_placement : forall tau fuel cosf sinf atan2f sh st p th,
  s_pos st = Some (PPoint p) -> heading atan2f st = Some (OExact th) ->
  occupancy_exact tau fuel cosf sinf atan2f sh st = rotate_translate_local tau fuel p th (cosf th) (sinf th) sh /\
  is_uncertain atan2f st = false.
Proof. exact occupancy_exact_eq. Qed.

(* ================================================================== (iii) enclosure for uncertain states *)
(* PARTIAL.  Proved: for a polygon / rectangle with bounding box b (of the unplaced shape) and centre of rotation ref,
   every point u of b placed at ANY admissible position p and ANY admissible orientation psi_d + delta lies in the
   returned rectangle.  Admissible position ([pos_admissible]): the exact point; for a Rectangle / Polygon region every
   point that, rotated by -psi_d about the region's centre, lies in the measured bounds of the rotated region; for a
   Circle region the disc.  The orientation enters through (cdl, sdl) = (cos delta, sin delta), (cos_d, sin_d) =
   (cos psi_d, sin psi_d); the placed point uses the addition theorem for cos / sin (psi_d + delta).
   NOT proved (hypotheses [orc_ok], [dev_ok] on the oracle values — real trigonometry, DESIGN 2.2): unit circle
   identities; |off_v| = sqrt(.); for |delta| <= delta_psi: l|cos delta| + w|sin delta| <= l cos(delta_l) + w sin(delta_l)
   with delta_l = min(delta_psi, arctan(w/l)) (and with l, w swapped) and sin^2(delta/2) <= sin^2(delta_psi/2).
   C04_dev_len_saturated / _unsaturated below reduce the monotonicity fact to the subtraction theorem and
   Cauchy-Schwarz.  Also not proved: that a point of a NON-convex polygonal region rotated by -psi_d lies in the bounds of
   the rotated region, and that shapely's bounds are the min / max over the vertices (for the model's [bbox] and convex
   regions: C04_bbox_contains, C04_region_vertex_admissible, C04_admissible_positions_convex). *)
Theorem C04_enclosure_encloses_partial : forall orc b ref pm om L W C psi,
  enclosure1 (box_len b) (box_wid b) ref (padd (box_mid b) (pneg ref)) pm om orc = Ok (Rect L W C psi) ->
  orc_ok (padd (box_mid b) (pneg ref)) orc ->
  forall u p cdl sdl,
    in_box b u -> pos_admissible pm (cos_d orc) (sin_d orc) p -> dev_ok (box_len b) (box_wid b) orc cdl sdl ->
    in_rect L W C (cos_d orc) (sin_d orc)
      (place_vertex ref p (cos_d orc * cdl - sin_d orc * sdl) (sin_d orc * cdl + cos_d orc * sdl) u).
Proof. exact enclosure1_encloses. Qed.
(* circles: every point of the disc placed at any admissible position (no hypothesis on the orientation) *)
Theorem C04_enclosure_encloses_circle_partial : forall orc r ctr0 pm om L W C psi,
  enclosure1 (2 * r) (2 * r) ctr0 (0, 0) pm om orc = Ok (Rect L W C psi) ->
  orc_ok (0, 0) orc -> 0 <= r ->
  forall p e, pos_admissible pm (cos_d orc) (sin_d orc) p -> px e * px e + py e * py e <= r * r ->
    in_rect L W C (cos_d orc) (sin_d orc) (padd (padd ctr0 p) e).
Proof. exact enclosure1_encloses_circle. Qed.
(* with the bounds computed from the polygon's own vertices: every placed vertex is enclosed (and, the rectangle
   being convex, every point of the polygon) *)
Theorem C04_enclosure_encloses_polygon_partial : forall orc vs b pm om L W C psi,
  bbox vs = Some b ->
  enclosure (SMBox b (centroid vs)) pm om orc = Ok (Rect L W C psi) ->
  orc_ok (padd (box_mid b) (pneg (centroid vs))) orc ->
  forall v p cdl sdl,
    List.In v vs -> pos_admissible pm (cos_d orc) (sin_d orc) p -> dev_ok (box_len b) (box_wid b) orc cdl sdl ->
    in_rect L W C (cos_d orc) (sin_d orc)
      (place_vertex (centroid vs) p (cos_d orc * cdl - sin_d orc * sdl) (sin_d orc * cdl + cos_d orc * sdl) v).
Proof. exact enclosure_encloses_polygon. Qed.
Theorem C04_enclosure_encloses_rectangle_partial : forall orc l w ctr o co so b pm om L W C psi,
  bbox (rect_vertices l w ctr o co so) = Some b ->
  enclosure (SMBox b ctr) pm om orc = Ok (Rect L W C psi) ->
  orc_ok (padd (box_mid b) (pneg ctr)) orc ->
  forall v p cdl sdl,
    List.In v (rect_vertices l w ctr o co so) -> pos_admissible pm (cos_d orc) (sin_d orc) p ->
    dev_ok (box_len b) (box_wid b) orc cdl sdl ->
    in_rect L W C (cos_d orc) (sin_d orc)
      (place_vertex ctr p (cos_d orc * cdl - sin_d orc * sdl) (sin_d orc * cdl + cos_d orc * sdl) v).
Proof. exact enclosure_encloses_rectangle. Qed.
Theorem C04_bbox_contains : forall vs b v, bbox vs = Some b -> List.In v vs -> in_box b v.
Proof. exact bbox_contains. Qed.
Theorem C04_in_rect_convex : forall l w ctr c s x y t, 0 <= t -> t <= 1 ->
  in_rect l w ctr c s x -> in_rect l w ctr c s y ->
  in_rect l w ctr c s ((1 - t) * px x + t * px y, (1 - t) * py x + t * py y).
Proof. exact in_rect_convex. Qed.
(* admissible positions of a polygonal / rectangular region when the bounds are those of its vertices rotated by
   -psi_d about the region's centre: every vertex, and every convex combination of admissible positions (so every
   point of a convex region) *)
Theorem C04_region_vertex_admissible : forall c0 cd sd vs b v,
  bbox (map (rot_about c0 cd (- sd)) vs) = Some b -> List.In v vs -> pos_admissible (PMBox c0 b) cd sd v.
Proof. exact region_vertex_admissible. Qed.
Theorem C04_admissible_positions_convex : forall c0 b cd sd p q t, 0 <= t -> t <= 1 ->
  pos_admissible (PMBox c0 b) cd sd p -> pos_admissible (PMBox c0 b) cd sd q ->
  pos_admissible (PMBox c0 b) cd sd ((1 - t) * px p + t * px q, (1 - t) * py p + t * py q).
Proof. exact pos_admissible_convex. Qed.
(* the formula returns a rectangle with the reference orientation, and raises only for a ShapeGroup as position region;
   shape groups are handled member by member *)
Theorem C04_enclosure_result : forall l_v w_v ref off pm om orc,
  (pm = PMGroup /\ enclosure1 l_v w_v ref off pm om orc = Err) \/
  (exists L W C, enclosure1 l_v w_v ref off pm om orc = Ok (Rect L W C (psi_of om))).
Proof. exact enclosure1_shape. Qed.
Theorem C04_enclosure_group_memberwise : forall ms pm om orc sh,
  enclosure (SMGroup ms) pm om orc = Ok sh ->
  exists shs, sh = Group shs /\ Forall2 (fun mo y => enclosure (fst mo) pm om (snd mo) = Ok y) ms shs.
Proof. exact enclosure_group_memberwise. Qed.
(* the part of [dev_ok] that is algebra: saturated case (delta_psi >= arctan(w/l); cos / sin of arctan(w/l) are l/d, w/d)
   for every unit vector; unsaturated case from the subtraction theorem *)
Theorem C04_dev_len_saturated : forall l w d cl sl a b,
  0 <= l -> 0 <= w -> 0 < d -> d * d == l * l + w * w -> cl * d == l -> sl * d == w ->
  a * a + b * b == 1 -> l * Qabs a + w * Qabs b <= l * cl + w * sl.
Proof. exact dev_len_saturated. Qed.
Theorem C04_dev_len_unsaturated : forall l w c2 s2 ce se a b,
  ce <= 1 -> 0 <= se -> 0 <= l * c2 + w * s2 -> 0 <= w * c2 - l * s2 ->
  a == c2 * ce + s2 * se -> b == s2 * ce - c2 * se -> l * a + w * b <= l * c2 + w * s2.
Proof. exact dev_len_unsaturated. Qed.

(* ================================================================== non-vacuity *)
Theorem C04_dispatch_nonvacuous :
  let o := Dynamic (R := Z) 7 0 (2, 20)%Z (Some (PrTraj {| t_init := 4; t_states := [(4, 40); (5, 50); (6, 60)]%Z |})) in
  state_based (Z * Z) Z fst o = true /\
  map (fun t => option_map (@o_region Z) (occupancy_at_time (Z * Z) Z fst snd o t)) [1; 2; 3; 4; 5; 6; 7]%Z
    = [None; Some 20; None; Some 40; Some 50; Some 60; None]%Z /\
  map (state_at_time (Z * Z) Z fst o) [1; 2; 3; 4; 6; 7]%Z
    = [None; Some (2, 20); None; Some (4, 40); Some (6, 60); None]%Z.
Proof. exact dispatch_nonvacuous. Qed.
Theorem C04_enclosure_nonvacuous :
  exists L W C psi,
    enclosure1 (box_len ex_box) (box_wid ex_box) (0, 0) (padd (box_mid ex_box) (pneg (0, 0)))
               (PMBox (1, 2) {| b_minx := 0; b_miny := 1; b_maxx := 2; b_maxy := 3 |})
               (OMItv {| lo := 0; hi := 1 |}) ex_orc = Ok (Rect L W C psi) /\
    orc_ok (padd (box_mid ex_box) (pneg (0, 0))) ex_orc /\
    in_box ex_box (6, 8) /\
    pos_admissible (PMBox (1, 2) {| b_minx := 0; b_miny := 1; b_maxx := 2; b_maxy := 3 |}) (3 # 5) (4 # 5) (1, 2) /\
    dev_ok (box_len ex_box) (box_wid ex_box) ex_orc (4 # 5) (- (3 # 5)) /\ ~ (4 # 5) == 1.
Proof. exact enclosure_nonvacuous. Qed.

(* ================================================================== the model is the code (translator tie)
   Gen/Src_dispatch.v is regenerated on every run from scenario/trajectory.py, prediction/prediction.py and
   scenario/obstacle.py by symbolic execution (harness/vlib/py2coq.py + harness/props/c04_src.py), one definition per
   translated method and static configuration.  Each equals the dispatch function of Model/Occupancy.v, which the
   theorems of part (i) are about, on the embedded object (Proofs/SrcDispatch.v); Trajectory.state_at_time_step never
   raises IndexError.  [dyn_shape_ok] / [static_shape_ok] / [occs_ok] say that the cached attributes the translation
   reads as fields (_initial_occupancy_shape, TrajectoryPrediction.occupancy_set) hold what their producers compute. *)
Section ModelIsSource.
  Open Scope Z_scope.
  Variables S R : Type.
  Variable tstep : S -> Z.
  Variable place : S -> R.
  Notation occ_at := (occupancy_at_time S R tstep place).
  Notation st_at := (state_at_time S R tstep).
  Notation pred_at := (pred_occupancy_at S R tstep place).
  Notation shape_ok := (dyn_shape_ok S R place).
  Notation cache_ok := (occs_ok S R tstep place).
  Notation dyn := (emb_dyn S R).
  Notation e_traj := (emb_traj S R).
  Notation e_step := (emb_set_step S R).
  Notation e_itv := (emb_set_itv S R).
  Theorem C04_model_is_source :
    (forall tr t, src_traj_state_at S tr t = POk (state_at_time_step S tr t))
    /\ (forall p t, src_pred_occ_step R p t = pred_at (e_step p) t)
    /\ (forall p t, src_pred_occ_itv R p t = pred_at (e_itv p) t)
    /\ (forall p t, cache_ok p -> src_pred_occ_traj S R p t = pred_at (e_traj p) t)
    /\ (forall i ty o t, static_shape_ok S R place o -> Some (src_static_occ S R o t) = occ_at (emb_static S R i ty o) t)
    /\ (forall i ty o t, Some (src_static_state S R o t) = st_at (emb_static S R i ty o) t)
    /\ (forall i ty o t, shape_ok o -> src_dyn_occ_none S R tstep o t = occ_at (dyn i ty (fun _ => None) o) t)
    /\ (forall i ty o t, src_dyn_state_none S R tstep o t = st_at (dyn i ty (fun _ => None) o) t)
    /\ (forall i ty o t, shape_ok o -> cache_ok (do_pred o) ->
          src_dyn_occ_traj S R tstep o t = occ_at (dyn i ty (fun p => Some (e_traj p)) o) t)
    /\ (forall i ty o t, src_dyn_state_traj S R tstep o t = POk (st_at (dyn i ty (fun p => Some (e_traj p)) o) t))
    /\ (forall i ty o t, shape_ok o ->
          src_dyn_occ_set_step S R tstep o t = occ_at (dyn i ty (fun p => Some (e_step p)) o) t)
    /\ (forall i ty o t, src_dyn_state_set_step S R tstep o t = st_at (dyn i ty (fun p => Some (e_step p)) o) t)
    /\ (forall i ty o t, shape_ok o ->
          src_dyn_occ_set_itv S R tstep o t = occ_at (dyn i ty (fun p => Some (e_itv p)) o) t)
    /\ (forall i ty o t, src_dyn_state_set_itv S R tstep o t = st_at (dyn i ty (fun p => Some (e_itv p)) o) t).
  Proof. exact (model_dispatch_is_source S R tstep place). Qed.
  (* EnvironmentObstacle.occupancy_at_time (translated too): the stored region at every time step *)
  Theorem C04_model_is_source_environment : forall i ty (o : env_obs R) t,
    Some (src_env_occ R o t) = occ_at (Env i ty (eo_shape o)) t.
  Proof. exact (src_env_occ_eq S R tstep place). Qed.
End ModelIsSource.
(* TrajectoryPrediction._create_occupancy_set is translated too (states that carry an orientation, no wheelbase
   lengths): the list it returns is the model's [occupancy_set], one occupancy per state of the trajectory, at the
   state's time step, the prediction's shape placed at the state; and a prediction whose cached occupancy_set is that
   value needs no cache hypothesis: the translated occupancy_at_time_step / occupancy_at_time are the model's. *)
Section CreateIsSource.
  Variables S R : Type.
  Variable tstep : S -> Z.
  Variable osfs : R -> S -> R.        (* occupancy_shape_from_state(shape, state) *)
  Theorem C04_create_occupancy_set_is_source : forall q : traj_pred_src S R,
    map occ_of_step (src_create_occs S R tstep osfs q) = occupancy_set S R tstep (osfs (ts_shape q)) (ts_traj q).
  Proof. exact (src_create_occs_eq S R tstep osfs). Qed.
  Theorem C04_trajectory_prediction_is_source : forall q p t,
    cache_from_source S R tstep osfs q p ->
    src_pred_occ_traj S R p t = pred_occupancy_at S R tstep (osfs (ts_shape q)) (emb_traj S R p) t.
  Proof. exact (src_pred_occ_traj_from_source S R tstep osfs). Qed.
  Theorem C04_dynamic_with_trajectory_is_source : forall i ty q (o : dyn_obs S R (traj_pred S R)) t,
    dyn_shape_ok S R (osfs (ts_shape q)) o -> cache_from_source S R tstep osfs q (do_pred o) ->
    src_dyn_occ_traj S R tstep o t
    = occupancy_at_time S R tstep (osfs (ts_shape q)) (emb_dyn S R i ty (fun p => Some (emb_traj S R p)) o) t.
  Proof. exact (src_dyn_occ_traj_from_source S R tstep osfs). Qed.
End CreateIsSource.
Example C04_create_is_source_nonvacuous :
  cache_from_source Z Z (fun s => s) (fun sh s => sh * s)%Z
    {| ts_traj := {| t_init := 3; t_states := [3; 4]%Z |}; ts_shape := 10%Z; ts_wheelbase := tt |}
    {| tp_traj := {| t_init := 3; t_states := [3; 4]%Z |}; tp_occs := [(3, 30); (4, 40)]%Z |}.
Proof. exact cache_from_source_example. Qed.
(* the cache hypothesis is satisfiable: a trajectory prediction whose cached set is what _create_occupancy_set computes *)
Example C04_model_is_source_nonvacuous :
  occs_ok Z Z (fun s => s) (fun s => 10 * s)%Z
    {| tp_traj := {| t_init := 3; t_states := [3; 4]%Z |}; tp_occs := [(3, 30); (4, 40)]%Z |}.
Proof. exact occs_ok_example. Qed.


Print Assumptions C04_occupancy_is_shape_at_state.
Print Assumptions C04_dynamic_state_dispatch.
Print Assumptions C04_dynamic_state_has_time_t.
Print Assumptions C04_dynamic_none_outside_horizon.
Print Assumptions C04_dynamic_without_prediction.
Print Assumptions C04_trajectory_defined_iff.
Print Assumptions C04_trajectory_state_with_time_t.
Print Assumptions C04_trajectory_none_iff_no_state.
Print Assumptions C04_trajectory_occupancy.
Print Assumptions C04_stored_occupancy_first_covering.
Print Assumptions C04_stored_occupancy_none_iff.
Print Assumptions C04_dynamic_set_based.
Print Assumptions C04_phantom.
Print Assumptions C04_static.
Print Assumptions C04_time_invariant_region.
Print Assumptions C04_after_update_initial_state.
Print Assumptions C04_after_set_initial_state_static.
Print Assumptions C04_after_update_then_prediction.
Print Assumptions C04_all_obstacles.
Print Assumptions C04_occupancies_at_time_step.
Print Assumptions C04_occupancies_negative_time.
Print Assumptions C04_obstacle_states_at_time_step.
Print Assumptions C04_obstacles_by_role_and_type.
Print Assumptions C04_obstacles_by_position_intervals.
Print Assumptions C04_placement.
Print Assumptions C04_placement_total.
Print Assumptions C04_placed_vertex.
Print Assumptions C04_placed_vertex_origin.
Print Assumptions C04_rectangle_vertices.
Print Assumptions C04_rectangle_vertices_placed.
Print Assumptions C04_heading_stored.
Print Assumptions C04_heading_point_mass.
Print Assumptions C04_exact_state_placement.
Print Assumptions C04_enclosure_encloses_partial.
Print Assumptions C04_enclosure_encloses_circle_partial.
Print Assumptions C04_enclosure_encloses_polygon_partial.
Print Assumptions C04_enclosure_encloses_rectangle_partial.
Print Assumptions C04_bbox_contains.
Print Assumptions C04_in_rect_convex.
Print Assumptions C04_region_vertex_admissible.
Print Assumptions C04_admissible_positions_convex.
Print Assumptions C04_enclosure_result.
Print Assumptions C04_enclosure_group_memberwise.
Print Assumptions C04_dev_len_saturated.
Print Assumptions C04_dev_len_unsaturated.
Print Assumptions C04_dispatch_nonvacuous.
Print Assumptions C04_enclosure_nonvacuous.
Print Assumptions C04_model_is_source.
Print Assumptions C04_model_is_source_nonvacuous.
Print Assumptions C04_model_is_source_environment.
Print Assumptions C04_create_occupancy_set_is_source.
Print Assumptions C04_trajectory_prediction_is_source.
Print Assumptions C04_dynamic_with_trajectory_is_source.
Print Assumptions C04_create_is_source_nonvacuous.
