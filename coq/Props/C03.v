(* Props/C03.v — property C03: every written XML scenario file is valid against the 2020a schema.
   Statements only.
   (1) element ORDER (the writer's generated table vs the xs:sequence order of the shipped XSD) and plain
       decimal NOTATION of float_to_str - the earlier theorems, kept;
   (2) the Gallina XSD validator (Model/XsdCheck.v) on the schema GENERATED from the shipped XSD
       (Gen/Xsd2020a.v): static conformance of the writer's table + a schema-expressible value (DESIGN 2.7:
       occurrence counts within bounds, positive dimensions, integer ranges, enumeration members) =>
       the validator accepts what the generic writer emits: children sequences incl. occurrence bounds,
       attributes (declared, required present), every leaf text in the lexical space of its simple type.
   Outside the theorem, named ..._partial: the id / ref identity constraints (checked by [validates], compared
   with lxml on every document, not derived from the value), and the number printer (hypothesis
   [num_printer_ok]: plain decimal text, positive stays positive - its lexical half is proved for
   float_to_str, C03_float_to_str_text_is_xs_decimal). *)
From Coq Require Import QArith ZArith String List Bool.
From CR Require Import Model.Codec Model.DecStr Proofs.Order Proofs.DecStr Gen.XmlFmt Gen.XsdOrder Proofs.XsdOrder.
From CR Require Import Model.XsdCheck Gen.Xsd2020a Proofs.XsdCheck Proofs.XsdC03.
Import ListNotations.
Open Scope string_scope.
Open Scope list_scope.

(* generic: the children of a written record follow the table order *)
Theorem C03_children_in_table_order : forall fs vs ks, write_fields fs vs = Some ks ->
  InOrder (field_tags fs) (map tag_of ks).
Proof. exact write_fields_in_order. Qed.

(* side condition on the two generated tables: for each of the element kinds whose XSD type is an
   xs:sequence, the writer's element order is a subsequence of the schema's *)
Theorem C03_table_order_conforms : forallb CR.Proofs.XsdOrder.order_ok xsd_sequences = true.
Proof. exact table_order_conforms. Qed.
Theorem C03_table_covers : Nat.leb 20 (length xsd_sequences) = true.
Proof. exact xsd_table_nonempty. Qed.

(* hence: for every such element kind and every value, the element children appear in schema order *)
Theorem C03_elements_in_schema_order : forall n fs order, In (n, FRec fs, order) xsd_sequences ->
  forall tag vs ks, write (FRec fs) tag (VRec vs) = Some (Node tag ks) ->
  InOrder order (filter nonattr (map tag_of ks)).
Proof. exact elements_in_schema_order. Qed.

(* numbers written through float_to_str stay in plain decimal notation (never an exponent) and denote
   a number within 10^-d *)
Theorem C03_float_to_str_plain : forall d x, digits_ok (fp x) = true ->
  let y := float_to_str d x in
  (abs_val y <= abs_val x /\ abs_val x < abs_val y + 1 / pow10 d)%Q /\
  (plain_decimal x = true -> plain_decimal y = true).
Proof. intros d x H. destruct (float_to_str_contract d x H) as [A [B C]]. split; [split; assumption|exact C]. Qed.

(* non-vacuity: a lanelet-shaped value written by the generated table; its children are in schema order *)
Example C03_nonvacuous : exists order, In ("point", W.f_point, order) xsd_sequences /\ order = ["x"; "y"; "z"].
Proof. eexists. split; [vm_compute; tauto|reflexivity]. Qed.

(* ------------------------------------------------------------------ the XSD validator *)
(* greedy matching never needs to backtrack on children emitted in a conforming table order *)
Theorem C03_greedy_sequence_complete : forall gs bs, CR.Model.XsdCheck.order_ok gs (map fst bs) = true -> counts_fit gs bs = true ->
  match_seq gs (expand bs) = true.
Proof. exact seq_complete. Qed.

(* generic, element level: conforms (static, on the tables) + expressible (the value) => accepted *)
Theorem C03_write_valid : forall sch numtext, num_printer_ok numtext -> forall f ty tag v t,
  conforms sch ty f = true -> expressible sch ty f v = true -> write f tag v = Some t ->
  valid_el sch ty (render numtext t) = true.
Proof. exact write_valid. Qed.

(* generic, document level; partial: the identity constraints (keys_ok) are not part of the conclusion *)
Theorem C03_doc_valid_structure_partial : forall sch numtext, num_printer_ok numtext -> forall f v t extra,
  conforms_doc sch (map fst extra) f = true -> doc_extra_ok sch extra = true ->
  expressible sch (s_root_type sch) f v = true -> write f (s_root sch) v = Some t ->
  validates_structure sch (add_attrs extra (render numtext t)) = true.
Proof. exact doc_valid_structure. Qed.

(* side condition on the two generated tables, by vm_compute *)
Theorem C03_conforms_xml : conforms_doc xsd2020a ["date"] W.xml_root = true.
Proof. exact conforms_xml. Qed.
Theorem C03_elements_conform : forallb (fun r => conforms xsd2020a (TC (fst r)) (snd r)) element_rows = true.
Proof. exact elements_conform. Qed.

(* hence, for the shipped schema and the writer's table: every schema-expressible document value is written
   as a structurally valid document (the date attribute is supplied by the writer outside the table) *)
Theorem C03_xml_valid_structure_partial : forall numtext, num_printer_ok numtext -> forall v t d,
  simple_accepts xsd2020a "xs:date" d = true ->
  expressible xsd2020a (TC "<commonRoad>") W.xml_root v = true ->
  write W.xml_root "commonRoad" v = Some t ->
  validates_structure xsd2020a (add_attrs [("date", d)] (render numtext t)) = true.
Proof. exact xml_valid_structure. Qed.
Theorem C03_xml_element_valid : forall numtext, num_printer_ok numtext -> forall n f, In (n, f) element_rows ->
  forall tag v t, expressible xsd2020a (TC n) f v = true -> write f tag v = Some t ->
  valid_el xsd2020a (TC n) (render numtext t) = true.
Proof. exact xml_element_valid. Qed.

(* leaf texts: integers are printed in the lexical space of xs:integer with their own value; the text
   float_to_str produces for a plain decimal is an xs:decimal *)
Theorem C03_int_text_value : forall z, int_value (Ztext z) = Some z.
Proof. exact int_value_Ztext. Qed.
Theorem C03_float_to_str_text_is_xs_decimal : forall d x, plain_decimal x = true ->
  accepts (mk_stype PDecimal None None None None) (dec_text (float_to_str d x)) = true.
Proof. exact float_to_str_text_decimal. Qed.

(* non-vacuity / sensitivity *)
Example C03_rect_expressible : expressible xsd2020a (TC "rectangle") W.f_rectangle rect_val = true.
Proof. exact rect_expressible. Qed.
Example C03_zero_length_not_expressible :
  expressible xsd2020a (TC "rectangle") W.f_rectangle (VRec [VAtom (ANum 0); VAtom (ANum 2); VNone; VNone]) = false.
Proof. exact rect_zero_not_expressible. Qed.
Example C03_swapped_table_rejected :
  conforms xsd2020a (TC "rectangle")
    (FRec (FCons "width" MReq (FLeaf KNum) (FCons "length" MReq (FLeaf KNum) FNil))) = false.
Proof. exact swapped_table_rejected. Qed.
Example C03_wrong_leaf_kind_rejected :
  conforms xsd2020a (TC "circle") (FRec (FCons "radius" MReq (FLeaf KBool) FNil)) = false.
Proof. exact wrong_leaf_kind_rejected. Qed.
Example C03_missing_id_rejected :
  conforms xsd2020a (TC "environmentObstacle")
    (FRec (FCons "type" MReq (FLeaf KStr) (FCons "shape" MReq W.f_shape FNil))) = false.
Proof. exact missing_id_rejected. Qed.
(* the validator itself, on concrete elements: accepts a rectangle, rejects exponent notation, a missing
   required child, children in the wrong order *)
Example C03_validator_discriminates :
  valid_el xsd2020a (TC "rectangle") (XE "rectangle" [] [XE "length" [] [] "4.5"; XE "width" [] [] "2"] "") = true /\
  valid_el xsd2020a (TC "rectangle") (XE "rectangle" [] [XE "length" [] [] "1e-05"; XE "width" [] [] "2"] "") = false /\
  valid_el xsd2020a (TC "rectangle") (XE "rectangle" [] [XE "length" [] [] "4.5"] "") = false /\
  valid_el xsd2020a (TC "rectangle") (XE "rectangle" [] [XE "width" [] [] "2"; XE "length" [] [] "4.5"] "") = false.
Proof. exact validator_discriminates. Qed.

Print Assumptions C03_children_in_table_order.
Print Assumptions C03_table_order_conforms.
Print Assumptions C03_table_covers.
Print Assumptions C03_elements_in_schema_order.
Print Assumptions C03_float_to_str_plain.
Print Assumptions C03_nonvacuous.
Print Assumptions C03_greedy_sequence_complete.
Print Assumptions C03_write_valid.
Print Assumptions C03_doc_valid_structure_partial.
Print Assumptions C03_conforms_xml.
Print Assumptions C03_elements_conform.
Print Assumptions C03_xml_valid_structure_partial.
Print Assumptions C03_xml_element_valid.
Print Assumptions C03_int_text_value.
Print Assumptions C03_float_to_str_text_is_xs_decimal.
Print Assumptions C03_rect_expressible.
Print Assumptions C03_zero_length_not_expressible.
Print Assumptions C03_swapped_table_rejected.
Print Assumptions C03_wrong_leaf_kind_rejected.
Print Assumptions C03_missing_id_rejected.
Print Assumptions C03_validator_discriminates.
