(* Props/C03.v — property C03: every written XML scenario file is valid against the 2020a schema.
   Statements only.  Proved here: element ORDER (the writer's generated table vs the xs:sequence order
   generated from the shipped XSD) and plain decimal NOTATION of the numbers written by float_to_str.
   Required elements, enumeration values and key constraints depend on the value written and are decided
   by validating every generated document with lxml against the shipped XSD (oracle) - see DESIGN. *)
From Coq Require Import QArith ZArith String List Bool.
From CR Require Import Model.Codec Model.DecStr Proofs.Order Proofs.DecStr Gen.XmlFmt Gen.XsdOrder Proofs.XsdOrder.
Import ListNotations.
Open Scope string_scope.
Open Scope list_scope.

(* generic: the children of a written record follow the table order *)
Theorem C03_children_in_table_order : forall fs vs ks, write_fields fs vs = Some ks ->
  InOrder (field_tags fs) (map tag_of ks).
Proof. exact write_fields_in_order. Qed.

(* side condition on the two generated tables: for each of the element kinds whose XSD type is an
   xs:sequence, the writer's element order is a subsequence of the schema's *)
Theorem C03_table_order_conforms : forallb order_ok xsd_sequences = true.
Proof. exact table_order_conforms. Qed.
Theorem C03_table_covers : Nat.leb 20 (length xsd_sequences) = true.
Proof. exact xsd_table_nonempty. Qed.

(* hence: for every such element kind and every value, the element children appear in schema order *)
Theorem C03_elements_in_schema_order : forall n fs order, In (n, FRec fs, order) xsd_sequences ->
  forall tag vs ks, write (FRec fs) tag (VRec vs) = Some (Node tag ks) ->
  InOrder order (filter nonattr (map tag_of ks)).
Proof. exact elements_in_schema_order. Qed.

(* numbers written through float_to_str stay in plain decimal notation (never an exponent) and denote
   a number within 10^-d *)
Theorem C03_float_to_str_plain : forall d x, digits_ok (fp x) = true ->
  let y := float_to_str d x in
  (abs_val y <= abs_val x /\ abs_val x < abs_val y + 1 / pow10 d)%Q /\
  (plain_decimal x = true -> plain_decimal y = true).
Proof. intros d x H. destruct (float_to_str_contract d x H) as [A [B C]]. split; [split; assumption|exact C]. Qed.

(* non-vacuity: a lanelet-shaped value written by the generated table; its children are in schema order *)
Example C03_nonvacuous : exists order, In ("point", W.f_point, order) xsd_sequences /\ order = ["x"; "y"; "z"].
Proof. eexists. split; [vm_compute; tauto|reflexivity]. Qed.

Print Assumptions C03_children_in_table_order.
Print Assumptions C03_table_order_conforms.
Print Assumptions C03_table_covers.
Print Assumptions C03_elements_in_schema_order.
Print Assumptions C03_float_to_str_plain.
Print Assumptions C03_nonvacuous.
