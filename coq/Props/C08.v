(* Props/C08.v — property C08: goal-region membership is decided correctly.
   Statements only; every proof is [exact <lemma of Proofs/Goal.v>].
   [inside] (shape containment, C06), [hypot], [atan2] are arbitrary functions: the theorems fix which
   arguments reach them.  [sat g s] = goal state g is satisfied by s in every attribute g constrains, with
   speed = hypot(vx, vy) and heading = atan2(vy, vx) for states that store both velocity components. *)
From Coq Require Import QArith ZArith Bool List.
From CR Require Import Base.QMod Model.Interval Proofs.Interval Model.Goal Proofs.Goal.
From CR Require Import Model.GoalSrc Gen.Src_goal Proofs.SrcGoal.
Import ListNotations.
Open Scope Q_scope.

(* is_reached: never the error value on admissible inputs (every orientation interval shorter than tau, the
   state has the attributes the goal constrains), and true exactly when some goal state is satisfied *)
Theorem C08_is_reached : forall tau, 0 < tau ->
  forall (pos shape : Type) (inside : shape -> pos -> bool) (hypot atan2 : Q -> Q -> Q)
         (G : list (gstate shape)) (s : state pos),
  Forall (wf_goal tau shape) G ->
  (forall g, List.In g G -> admissible pos shape hypot atan2 g s) ->
  exists b, is_reached tau pos shape inside hypot atan2 G s = Ok b /\
            (b = true <-> exists g, List.In g G /\ sat tau pos shape inside hypot atan2 g s).
Proof. exact is_reached_spec. Qed.

(* the ValueError is raised exactly when the state lacks an attribute some goal state constrains *)
Theorem C08_error_iff_inadmissible : forall tau (pos shape : Type) (inside : shape -> pos -> bool)
         (hypot atan2 : Q -> Q -> Q) (G : list (gstate shape)) (s : state pos),
  is_reached tau pos shape inside hypot atan2 G s = Err <->
  exists g, List.In g G /\ ~ admissible pos shape hypot atan2 g s.
Proof. exact is_reached_err. Qed.

(* point-mass state: the heading compared is atan2(vy, vx), the speed hypot(vx, vy) *)
Theorem C08_point_mass : forall tau, 0 < tau ->
  forall (pos shape : Type) (inside : shape -> pos -> bool) (hypot atan2 : Q -> Q -> Q)
         (T : itv) (S : shape) (O V : itv) (t : Q) (p : pos) (vx vy : Q),
  WF O -> hi O - lo O < tau ->
  is_reached tau pos shape inside hypot atan2
    [ {| g_time := Some T; g_pos := Some S; g_orient := Some O; g_vel := Some V |} ]
    {| s_time := Some t; s_pos := Some p; s_orient := None; s_vel := Some vx; s_vely := Some vy |} = Ok true
  <-> (lo T <= t /\ t <= hi T) /\ inside S p = true /\
      (exists k : Z, lo O <= atan2 vy vx + inject_Z k * tau /\ atan2 vy vx + inject_Z k * tau <= hi O) /\
      (lo V <= hypot vx vy /\ hypot vx vy <= hi V).
Proof. exact pm_state_iff. Qed.

(* goal_reached: (true, j) with state j satisfying some goal state iff some trajectory state does,
   otherwise (false, -1); never the error value on admissible trajectories *)
Theorem C08_goal_reached : forall tau, 0 < tau ->
  forall (pos shape : Type) (inside : shape -> pos -> bool) (hypot atan2 : Q -> Q -> Q)
         (G : list (gstate shape)) (states : list (state pos)),
  Forall (wf_goal tau shape) G ->
  (forall s g, List.In s states -> List.In g G -> admissible pos shape hypot atan2 g s) ->
  exists b j, goal_reached tau pos shape inside hypot atan2 G states = Ok (b, j) /\
    (b = true <-> exists s g, List.In s states /\ List.In g G /\ sat tau pos shape inside hypot atan2 g s) /\
    (b = true -> (0 <= j)%Z /\ exists s g, nth_error states (Z.to_nat j) = Some s /\ List.In g G /\
                                           sat tau pos shape inside hypot atan2 g s) /\
    (b = false -> j = (-1)%Z).
Proof. exact goal_reached_adm. Qed.

(* non-vacuity: the defect witness of DESIGN 5/C08 — PMState(velocity=-1, velocity_y=1) against the
   orientation goal [2,3]: with atan2(1,-1) = 2.356.. the model accepts; it rejects when handed the value
   atan2 would give for the arguments (vy, hypot) the unrepaired code passed *)
Example C08_nonvacuous :
  let tau := 710 # 113 in
  let g := {| g_time := Some {| lo := 0; hi := 10 |}; g_pos := None;
              g_orient := Some {| lo := 2; hi := 3 |}; g_vel := None |} in
  let s := {| s_time := Some 1; s_pos := Some tt; s_orient := None; s_vel := Some (-1); s_vely := Some 1 |} in
  let hyp := fun _ _ : Q => 1414 # 1000 in
  let at2 := fun y x : Q => if Qeq_bool x (-1) then 2356 # 1000 else 615 # 1000 in
  wf_goal tau unit g /\ admissible unit unit hyp at2 g s /\
  is_reached tau unit unit (fun _ _ => true) hyp at2 [g] s = Ok true /\
  is_reached tau unit unit (fun _ _ => true) hyp (fun y x => at2 y (hyp x y)) [g] s = Ok false.
Proof.
  cbv zeta. split; [|split; [|split]].
  - intros I E. inversion E; subst. unfold WF; simpl. split; [discriminate | reflexivity].
  - repeat split; intros _; reflexivity.
  - vm_compute. reflexivity.
  - vm_compute. reflexivity.
Qed.

(* ---- the model is the source: GoalRegion._harmonize_state_types, the checks of GoalRegion.is_reached (their order,
   guards and tests), and the frames of is_reached / _check_value_in_interval / PlanningProblem.goal_reached are parsed
   from commonroad/planning/goal.py and planning_problem.py on every run (Gen/Src_goal.v, harness/props/c08_src.py).
   Run by the interpreter of Model/GoalSrc.v, the parsed programs give, for every goal state and every state, the
   model's answer: the same Boolean, the ValueError exactly where the model has Err, no other exception (Some). *)
Theorem C08_reached1_is_source : forall tau (pos shape : Type) (inside : shape -> pos -> bool) (hypot atan2 : Q -> Q -> Q)
    (g : gstate shape) (s : state pos),
  run_reached1 tau pos shape inside hypot atan2 src_harmonize src_checks g s
  = Some (reached1 tau pos shape inside hypot atan2 g s).
Proof. exact src_reached1_is_model. Qed.
Theorem C08_is_reached_is_source : forall tau (pos shape : Type) (inside : shape -> pos -> bool) (hypot atan2 : Q -> Q -> Q)
    (G : list (gstate shape)) (s : state pos),
  run_is_reached tau pos shape inside hypot atan2 src_harmonize src_checks G s
  = Some (is_reached tau pos shape inside hypot atan2 G s).
Proof. exact src_is_reached_is_model. Qed.
(* the main statement, about the parsed programs directly *)
Theorem C08_source_is_reached : forall tau, 0 < tau ->
  forall (pos shape : Type) (inside : shape -> pos -> bool) (hypot atan2 : Q -> Q -> Q)
         (G : list (gstate shape)) (s : state pos),
  Forall (wf_goal tau shape) G ->
  (forall g, List.In g G -> admissible pos shape hypot atan2 g s) ->
  exists b, run_is_reached tau pos shape inside hypot atan2 src_harmonize src_checks G s = Some (Ok b) /\
            (b = true <-> exists g, List.In g G /\ sat tau pos shape inside hypot atan2 g s).
Proof. exact src_is_reached_spec. Qed.
(* the frames (compared as text up to the names of locals) are the ones the interpreter and the model's list
   recursion / reversed scan stand for *)
Theorem C08_frames_are_source :
  src_prologue = PrologueStd /\ src_loop = LoopAppendAny /\ src_check_value = CivContains /\
  src_goal_reached = ScanReversedFirstHit.
Proof. exact src_frames. Qed.
(* non-vacuity: the parsed programs, run on the point-mass witness above, take the harmonising branch and accept *)
Example C08_source_nonvacuous :
  let tau := 710 # 113 in
  let g := {| g_time := Some {| lo := 0; hi := 10 |}; g_pos := None;
              g_orient := Some {| lo := 2; hi := 3 |}; g_vel := None |} in
  let s := {| s_time := Some 1; s_pos := Some tt; s_orient := None; s_vel := Some (-1); s_vely := Some 1 |} in
  let hyp := fun _ _ : Q => 1414 # 1000 in
  let at2 := fun y x : Q => if Qeq_bool x (-1) then 2356 # 1000 else 615 # 1000 in
  run_reached1 tau unit unit (fun _ _ => true) hyp at2 src_harmonize src_checks g s = Some (Ok true) /\
  run_reached1 tau unit unit (fun _ _ => true) hyp at2 src_harmonize src_checks g
    {| s_time := None; s_pos := Some tt; s_orient := Some 1; s_vel := Some 1; s_vely := None |} = Some Err.
Proof. split; vm_compute; reflexivity. Qed.

Print Assumptions C08_is_reached.
Print Assumptions C08_error_iff_inadmissible.
Print Assumptions C08_point_mass.
Print Assumptions C08_goal_reached.
Print Assumptions C08_nonvacuous.
Print Assumptions C08_reached1_is_source.
Print Assumptions C08_is_reached_is_source.
Print Assumptions C08_frames_are_source.
Print Assumptions C08_source_nonvacuous.
Print Assumptions C08_source_is_reached.
