(* Props/C02.v — property C02: protobuf write -> read is lossless.  Statements only.
   The protobuf format is data: tables W (what the writer fills) and R (what the reader consumes) are GENERATED
   into Gen/PbFmt.v on every run from one description (harness/props/c02_pbfmt.py: message types with required /
   optional-HasField / repeated fields, doubles exact, enums by member name, nested messages), whose presence
   discipline is re-derived from the writer / reader source (props/c02_scan.py), cross-checked against the *_pb2
   descriptors (pb_desc, generated too), and tied to the real writer / reader by the correspondence relations of
   Corr/C02.v (A: written message = write W v; B: read-back value = read R tree), exact, evaluated in Coq. *)
From Coq Require Import QArith ZArith String List Bool.
From CR Require Import Model.Codec Proofs.Codec Model.EnumName Proofs.EnumName Gen.PbEnums Proofs.PbEnums
                       Model.PbDesc Gen.PbFmt Proofs.PbFmt.
Import ListNotations.
Open Scope string_scope.
Open Scope list_scope.

(* generic: for every table with pairwise distinct field names per message, reading what was written gives the
   value back - nothing dropped, duplicated, re-ordered or altered, absent optional data stays absent *)
Theorem C02_generic_roundtrip : forall f, wf f = true ->
  forall tag v t, write f tag v = Some t -> read f t = Some v.
Proof. exact roundtrip. Qed.
Theorem C02_generic_injective : forall f, wf f = true -> forall tag v1 v2 t,
  write f tag v1 = Some t -> write f tag v2 = Some t -> v1 = v2.
Proof. exact write_injective. Qed.

(* the generated tables satisfy the side condition *)
Theorem C02_writer_table_wf : wf W.pb_root = true.
Proof. exact writer_table_wf. Qed.
Theorem C02_reader_table_wf : wf R.pb_root = true.
Proof. exact reader_table_wf. Qed.

(* the reader's own table differs nowhere from the writer's: every field the writer fills is consumed under the
   same name with the same presence discipline (HasField where the writer guards) and the same leaf kind *)
Theorem C02_reader_agrees_with_writer : tdiff W.pb_root R.pb_root = [].
Proof. exact tables_agree. Qed.
Theorem C02_agreeing_tables_roundtrip : forall w r, tdiff w r = [] -> wf w = true ->
  forall tag v t, write w tag v = Some t -> read r t = Some v.
Proof. exact agreeing_roundtrip. Qed.

(* whole documents (scenario information, tags, location, lanelet network, all obstacle roles, planning
   problems), written with the writer's table and read with the READER's own table; doubles are exact, so the
   leaves are identities and the result is the value itself *)
Theorem C02_document_roundtrip : forall v t,
  write W.pb_root "CommonRoad" v = Some t -> read R.pb_root t = Some v.
Proof. exact document_roundtrip. Qed.
Theorem C02_document_injective : forall v1 v2 t,
  write W.pb_root "CommonRoad" v1 = Some t -> write W.pb_root "CommonRoad" v2 = Some t -> v1 = v2.
Proof. exact document_injective. Qed.

(* both tables are legal uses of the shipped message types (field exists, repeated <-> MMany, required by the
   .proto => MReq and present in the table, leaf kind fits the scalar type, nested table = a table of the
   field's message type) *)
Theorem C02_tables_conform_to_descriptors :
  conforms pb_desc pb_ignored W.records = true /\ conforms pb_desc pb_ignored R.records = true.
Proof. exact (conj writer_tables_conform reader_tables_conform). Qed.

(* ... and this judgement is sound for the protobuf runtime's own demands: every message the model's writer emits
   under a table of W (at every nesting level) holds only fields of its message type, a singular field at most
   once and every field the .proto requires *)
Theorem C02_conforming_table_writes_legal_messages : forall d ign recs mname fs dfs,
  conforms_rec d ign recs (mname, FRec fs) = true -> lookup mname d = Some dfs -> wf (FRec fs) = true ->
  forall vs ks, write_fields fs vs = Some ks -> wire_ok ign mname dfs ks = true.
Proof. exact conforms_wire_ok. Qed.
Theorem C02_written_messages_legal : forall mname fs dfs,
  In (mname, FRec fs) W.records -> lookup mname pb_desc = Some dfs ->
  forall vs ks, write_fields fs vs = Some ks -> wire_ok pb_ignored mname dfs ks = true.
Proof. exact written_messages_wire_ok. Qed.

(* what a deviation of the reader would look like: an optional field consumed without HasField is reported by
   tdiff and loses exactly the objects that lack the datum *)
Theorem C02_unguarded_read_detected : tdiff W.f_Rectangle rectangle_unguarded = [["orientation"]].
Proof. exact unguarded_read_detected. Qed.
Theorem C02_unguarded_read_refuted : exists t, write W.f_Rectangle "rectangle" plain_rectangle = Some t /\
  read R.f_Rectangle t = Some plain_rectangle /\ read rectangle_unguarded t = None.
Proof. exact unguarded_read_refuted. Qed.

(* enums travel by member NAME: every enum-typed field of the tables is enum-typed in the descriptor and its enum
   table (generated from the *_pb2 descriptors) has pairwise distinct numbers ... *)
Theorem C02_enum_fields_known : forallb enum_field_ok pb_enum_fields = true.
Proof. exact enum_fields_known. Qed.
Theorem C02_enum_tables_distinct : forallb (fun row => numbers_distinct (snd row)) pb_enums = true.
Proof. exact all_tables_distinct. Qed.
(* ... hence every member whose name exists in the .proto is transported unchanged *)
Theorem C02_enum_transport : forall ename t, In (ename, t) pb_enums ->
  forall member z, encode t member = Some z -> decode t z = Some member.
Proof. exact enum_transport. Qed.
(* and a member whose name is not in the .proto is rejected, never mapped to a different member *)
Theorem C02_enum_absent_rejected : forall t name, ~ In name (map fst t) -> encode t name = None.
Proof. exact encode_absent. Qed.

(* non-vacuity: an enum member, and a concrete rectangle with centre and without orientation *)
Example C02_nonvacuous : exists t z, In ("TrafficLightState", t) pb_enums /\ encode t "GREEN" = Some z /\
                                      decode t z = Some "GREEN".
Proof. eexists. eexists. split; [vm_compute; tauto|]. split; vm_compute; reflexivity. Qed.
Example C02_nonvacuous_message :
  let v := VRec [VAtom (ANum (2#1)); VAtom (ANum (1#1)); VSome (VRec [VAtom (ANum (3#1)); VAtom (ANum (4#1))]); VNone] in
  exists t, write W.f_Rectangle "rectangle" v = Some t /\ read R.f_Rectangle t = Some v.
Proof. eexists. split; vm_compute; reflexivity. Qed.

Print Assumptions C02_generic_roundtrip.
Print Assumptions C02_generic_injective.
Print Assumptions C02_writer_table_wf.
Print Assumptions C02_reader_table_wf.
Print Assumptions C02_reader_agrees_with_writer.
Print Assumptions C02_agreeing_tables_roundtrip.
Print Assumptions C02_document_roundtrip.
Print Assumptions C02_document_injective.
Print Assumptions C02_tables_conform_to_descriptors.
Print Assumptions C02_conforming_table_writes_legal_messages.
Print Assumptions C02_written_messages_legal.
Print Assumptions C02_unguarded_read_detected.
Print Assumptions C02_unguarded_read_refuted.
Print Assumptions C02_enum_fields_known.
Print Assumptions C02_enum_tables_distinct.
Print Assumptions C02_enum_transport.
Print Assumptions C02_enum_absent_rejected.
Print Assumptions C02_nonvacuous.
Print Assumptions C02_nonvacuous_message.
