(* Props/C02.v — property C02: protobuf write -> read is lossless.  Statements only.
   Proved: (1) the generic codec theorem, which covers message trees with optional (HasField) and repeated
   fields exactly as it covers XML elements; (2) enum transport by member name over the protobuf enum tables
   GENERATED from the *_pb2 descriptors.  The mapping objects <-> messages of the real writer / reader is
   decided by the round-trip oracle on generated scenarios (no format table for protobuf was built). *)
From Coq Require Import ZArith String List Bool.
From CR Require Import Model.Codec Proofs.Codec Model.EnumName Proofs.EnumName Gen.PbEnums Proofs.PbEnums.
Import ListNotations.
Open Scope string_scope.

Theorem C02_generic_roundtrip : forall f, wf f = true ->
  forall tag v t, write f tag v = Some t -> read f t = Some v.
Proof. exact roundtrip. Qed.

(* every enum of the shipped protobuf definition has pairwise distinct numbers ... *)
Theorem C02_enum_tables_distinct : forallb (fun row => numbers_distinct (snd row)) pb_enums = true.
Proof. exact all_tables_distinct. Qed.
(* ... hence every member whose name exists in the .proto is transported unchanged *)
Theorem C02_enum_transport : forall ename t, In (ename, t) pb_enums ->
  forall member z, encode t member = Some z -> decode t z = Some member.
Proof. exact enum_transport. Qed.
(* and a member whose name is not in the .proto is rejected, never mapped to a different member *)
Theorem C02_enum_absent_rejected : forall t name, ~ In name (map fst t) -> encode t name = None.
Proof. exact encode_absent. Qed.

Example C02_nonvacuous : exists t z, In ("TrafficLightState", t) pb_enums /\ encode t "GREEN" = Some z /\
                                      decode t z = Some "GREEN".
Proof. eexists. eexists. split; [vm_compute; tauto|]. split; vm_compute; reflexivity. Qed.

Print Assumptions C02_generic_roundtrip.
Print Assumptions C02_enum_tables_distinct.
Print Assumptions C02_enum_transport.
Print Assumptions C02_enum_absent_rejected.
Print Assumptions C02_nonvacuous.
