(* Props/C09.v — property C09: object ids in a scenario stay unique and the id pool stays exact.
   Statements only; every proof is [exact <lemma of Proofs/IdPool.v>].
   Model: Model/IdPool.v (state machine [step] over the operations of Scenario; [ok] is the admissibility
   guard of DESIGN 2.7: a removal names distinct objects that are contained; everything else is admissible). *)
From Coq Require Import ZArith List Bool.
Import ListNotations.
From CR Require Import Base.G2Fold Model.IdPool Proofs.IdPool.
From CR Require Import Model.IdPoolSrc Gen.Src_idpool Proofs.SrcIdPool.
From CR Require Import Model.IdRemoveSrc Gen.Src_idremove Proofs.SrcIdRemove.
From CR Require Import Model.IdAddSrc Gen.Src_idadd Proofs.SrcIdAdd.
From CR Require Import Model.IdHangSrc Gen.Src_idhang Proofs.SrcIdHang.
Open Scope Z_scope.

(* what the invariant says: no two contained objects share an id, the id set is exactly the set of ids of the
   contained objects, and no generated id exceeds the counter *)
Theorem C09_inv_meaning : forall s, Inv s ->
  NoDup (contents_ids s) /\ NoDup (idset s) /\ (forall z, In z (idset s) <-> In z (contents_ids s)) /\
  (forall g, In g (generated s) -> exists c, counter s = Some c /\ g <= c).
Proof. exact inv_meaning. Qed.

Theorem C09_init : Inv init.
Proof. exact Inv_init. Qed.

(* every operation keeps it: add_objects (single object, network, list; accepted or rejected),
   remove_obstacle / remove_lanelet (with or without referenced elements) / remove_traffic_sign /
   remove_traffic_light / remove_intersection in single and list form, replace_lanelet_network, generate_object_id *)
Theorem C09_step_inv : forall s o, Inv s -> ok s o = true -> Inv (fst (step s o)).
Proof. exact step_inv. Qed.

(* ... hence it holds after every finite history *)
Theorem C09_reachable_inv : forall ops, all_ok step ok ops init = true -> Inv (run step ops init).
Proof. exact reachable_inv. Qed.

(* adding an object (or network) one of whose ids is in use, or occurs twice in it, raises ValueError and leaves
   the whole state unchanged *)
Theorem C09_free_all_meaning : forall s ids, Inv s ->
  (free_all ids s = true <-> NoDup ids /\ forall z, In z ids -> ~ In z (contents_ids s)).
Proof. exact free_all_meaning. Qed.
Theorem C09_add_rejected_unchanged : forall s a lids, Inv s -> free_all (arg_ids a) s = false ->
  step s (Add a lids) = (s, RErr ValueError).
Proof. exact add_rejected_unchanged. Qed.
(* otherwise it is accepted and the contained ids are the argument's ids and those that were there
   (for a network argument: those of the obstacles, the old network leaves) *)
Theorem C09_add_accepted : forall s a lids, Inv s -> free_all (arg_ids a) s = true ->
  snd (step s (Add a lids)) = RUnit /\
  (forall z, In z (contents_ids (fst (step s (Add a lids)))) <-> In z (arg_ids a) \/ In z (kept_ids a s)).
Proof. exact add_accepted. Qed.
(* the list form adds element by element and stops at the first rejected one *)
Theorem C09_add_list : forall s a r lids, Inv s ->
  step s (AddList (a :: r) lids) =
  if free_all (arg_ids a) s then step (fst (step s (Add a lids))) (AddList r lids) else (s, RErr ValueError).
Proof. exact add_list_unfold. Qed.

(* generate_object_id: an id that no contained object uses and that was never returned before;
   nothing else changes *)
Theorem C09_generate_fresh : forall s, Inv s ->
  exists g, snd (step s Generate) = RId g /\ ~ In g (contents_ids s) /\ ~ In g (generated s) /\
            generated (fst (step s Generate)) = g :: generated s /\
            contents_ids (fst (step s Generate)) = contents_ids s /\ idset (fst (step s Generate)) = idset s.
Proof. exact generate_fresh. Qed.

(* an admissible removal raises nothing, the ids it names leave the contents and the id set,
   and nothing new appears *)
Theorem C09_removal_total_frees : forall s o, Inv s -> ok s o = true -> is_removal o = true ->
  snd (step s o) = RUnit /\
  (forall z, In z (removed_ids o) -> ~ In z (contents_ids (fst (step s o))) /\ ~ In z (idset (fst (step s o)))) /\
  (forall z, In z (contents_ids (fst (step s o))) -> In z (contents_ids s)).
Proof. exact removal_total_frees. Qed.
(* any id that is not among the contents is free (covers the signs / lights that leave with a lanelet) *)
Theorem C09_free_after_leaving : forall s z, Inv s -> ~ In z (contents_ids s) -> ~ In z (idset s).
Proof. exact free_after_leaving. Qed.
(* so a removed object can be added again, whichever removal operation removed it *)
Theorem C09_readd_after_removal : forall s o a lids, Inv s -> ok s o = true -> is_removal o = true ->
  NoDup (arg_ids a) -> incl (arg_ids a) (removed_ids o) ->
  snd (step (fst (step s o)) (Add a lids)) = RUnit.
Proof. exact readd_after_removal. Qed.

(* replace_lanelet_network: the old network leaves (its ids become free), the obstacles stay, the new network
   is contained iff the call returned normally; the only exception possible is ValueError *)
Theorem C09_replace : forall s n, Inv s ->
  Inv (fst (step s (Replace n))) /\
  (snd (step s (Replace n)) = RUnit \/ snd (step s (Replace n)) = RErr ValueError) /\
  obstacle_ids (fst (step s (Replace n))) = obstacle_ids s /\
  (forall z, In z (contents_ids (fst (step s (Replace n)))) <->
             (snd (step s (Replace n)) = RUnit /\ In z (net_ids n)) \/ In z (obstacle_ids s)).
Proof. exact replace_spec. Qed.

(* non-vacuity: an admissible history with a rejected add, a list-form removal, a re-add and a generated id *)
Example C09_nonvacuous :
  all_ok step ok demo_ops init = true /\
  trace step demo_ops init = [RUnit; RErr ValueError; RUnit; RUnit; RId 52] /\
  idset (run step demo_ops init) = [51; 50].
Proof. exact demo_run. Qed.

(* ---- the id-pool primitives of the model are the source ---------------------------------------------------------
   Gen/Src_idpool.v holds Scenario._is_object_id_used, _mark_object_id_as_used, _mark_object_ids_as_used and
   generate_object_id as parsed on every run into the statement language of Model/IdPoolSrc.v
   (harness/props/c09_src.py, fail-closed).  Run by that language's interpreter from the id set and counter of any
   model state, the parsed programs end with the id set and counter of [mark_one] / [mark_all] / [generate], raise
   exactly when the model returns an exception, and generate the model's id.  [R p s]: same id set, same counter. *)
Theorem C09_mark_one_is_source : forall z s,
  let (p', r) := run_mark_one src_mark_one z (of_st s) in
  let (s', e) := mark_one z s in R p' s' /\ r = raised e.
Proof. exact src_mark_one_is_model. Qed.
Theorem C09_mark_all_is_source : forall ids s,
  let (p', r) := run_mark_all src_mark_one src_mark_all_check src_mark_all_body ids (of_st s) in
  let (s', e) := mark_all ids s in R p' s' /\ r = raised e.
Proof. exact src_mark_all_is_model. Qed.
Theorem C09_generate_is_source : forall s,
  let (p', ret) := run_generate src_generate (of_st s) in
  let (s', g) := generate s in R p' s' /\ ret = Some g.
Proof. exact src_generate_is_model. Qed.
(* non-vacuity: the parsed programs really run - a rejected id list leaves the pool alone, an accepted one is added,
   the next generated id is above everything *)
Example C09_source_nonvacuous :
  let s0 := {| p_ids := [7; 3]; p_ctr := Some 3; p_new := [] |} in
  run_mark_all src_mark_one src_mark_all_check src_mark_all_body [5; 7] s0 = ({| p_ids := [7; 3]; p_ctr := Some 3; p_new := [5] |}, true) /\
  run_mark_all src_mark_one src_mark_all_check src_mark_all_body [5; 5] s0 = ({| p_ids := [7; 3]; p_ctr := Some 3; p_new := [5] |}, true) /\
  fst (run_mark_all src_mark_one src_mark_all_check src_mark_all_body [5; 9] s0) = {| p_ids := [9; 5; 7; 3]; p_ctr := Some 3; p_new := [9; 5] |} /\
  snd (run_generate src_generate s0) = Some 8.
Proof. vm_compute. repeat split. Qed.

(* ---- the removal steps of the model are the source ---------------------------------------------------------------
   Gen/Src_idremove.v holds Scenario.remove_obstacle, remove_lanelet, remove_traffic_sign, remove_traffic_light,
   remove_intersection, erase_lanelet_network and replace_lanelet_network as parsed on every run into the statement
   language of Model/IdRemoveSrc.v (harness/props/c09_rm_src.py, fail-closed).  Executed by that language's interpreter
   ([src_exec]: every removal operation and Replace through the parsed methods, the remaining operations as the model has
   them), they are [exec] on every state, so a step through the parsed methods is the model's step and the invariant and
   the reachability theorem hold of histories executed by them. *)
Theorem C09_removals_are_source : forall o s, src_exec src_removal o s = exec o s.
Proof. exact src_exec_is_model. Qed.
Theorem C09_source_step_inv : forall s o, Inv s -> ok s o = true -> Inv (fst (src_step src_removal s o)).
Proof. exact src_step_inv. Qed.
Theorem C09_source_reachable_inv : forall ops,
  all_ok step ok ops init = true -> Inv (run (src_step src_removal) ops init).
Proof. exact src_reachable_inv. Qed.
(* non-vacuity: the parsed methods really run - an intersection leaves with its incoming elements, an absent sign raises
   KeyError after the network was asked, a list of obstacles of two roles is removed *)
Example C09_source_removal_nonvacuous :
  let s0 := mkSt [1; 2; 3; 4; 5; 6] (Some 6) (mkN [] [] [] [mkX 1 [2; 3]]) [4] [5] [] [] [] in
  idset (fst (src_exec src_removal (RemoveInter (mkX 1 [2; 3])) s0)) = [4; 5; 6] /\
  snd (src_exec src_removal (RemoveSign 9) s0) = Some KeyError /\
  (let s1 := fst (src_exec src_removal (RemoveObstacles [5; 4]) s0) in
   idset s1 = [1; 2; 3; 6] /\ statics s1 = [] /\ dynamics s1 = []).
Proof. vm_compute. repeat split. Qed.

(* ---- the adding steps of the model are the source -----------------------------------------------------------------
   Gen/Src_idadd.v holds Scenario.add_objects (the chain of isinstance branches) and _lanelet_network_object_ids as parsed
   on every run into the statement language of Model/IdAddSrc.v (harness/props/c09_add_src.py, fail-closed).  With the
   removal methods above, every operation of the model is executed by parsed methods ([src_exec_all]; Generate:
   C09_generate_is_source), each is the model's, and the invariant holds of every admissible history executed by them. *)
Theorem C09_add_is_source : forall a lids s, run_add src_add a lids s = add_one a lids s.
Proof. exact src_add_one. Qed.
Theorem C09_every_operation_is_source : forall o s, src_exec_all src_removal src_add o s = exec o s.
Proof. exact src_exec_all_is_model. Qed.
Theorem C09_source_all_reachable_inv : forall ops,
  all_ok step ok ops init = true -> Inv (run src_step_all ops init).
Proof. exact src_all_reachable_inv. Qed.
(* non-vacuity: the parsed add_objects really runs - a network is marked as a whole, the ids of the network it replaces
   are released, an intersection whose incoming id is taken is rejected with nothing marked *)
Example C09_source_add_nonvacuous :
  let n1 := mkN [mkL 1 [] []] [2] [] [mkX 3 [4]] in
  let n2 := mkN [mkL 7 [] []] [] [] [] in
  let s1 := fst (run_add src_add (ANet n1) [] init) in
  idset s1 = [4; 3; 2; 1] /\
  idset (fst (run_add src_add (ANet n2) [] s1)) = [7] /\
  run_add src_add (AObj (OInter (mkX 9 [4]))) [] s1 = (s1, Some ValueError) /\
  snd (run_add_list src_add [AObj (OObst Static 5); AObj (OObst Env 5)] [] s1) = Some ValueError.
Proof. vm_compute. repeat split. Qed.

(* ---- remove_hanging_lanelet_members is the source ----------------------------------------------------------------
   Gen/Src_idhang.v holds the method as parsed on every run into the selection language of Model/IdHangSrc.v
   (harness/props/c09_hang_src.py, fail-closed): which signs / lights are selected (referenced by the lanelets being
   removed and by no remaining lanelet) and in which order the two list removals are called.  Run with the parsed
   remove_traffic_sign / remove_traffic_light it is [remove_hanging], and remove_lanelet executed by parsed methods only
   is [remove_lanelets]. *)
Theorem C09_remove_hanging_is_source : forall ls s,
  run_hanging src_hanging (rs_sign src_removal) (rs_light src_removal) ls s = remove_hanging ls s.
Proof. exact src_hanging_is_model. Qed.
Theorem C09_remove_lanelet_fully_source : forall ls refs s,
  run_lanelets_full src_hanging (rs_sign src_removal) (rs_light src_removal) (rs_lanelet src_removal) ls refs s
  = remove_lanelets ls refs s.
Proof. exact src_lanelets_full. Qed.
Theorem C09_erase_fully_source : forall s,
  eruns_full src_hanging (rs_lanelet src_removal) (rs_sign src_removal) (rs_light src_removal) (rs_inter src_removal)
             (rs_erase src_removal) s = erase s.
Proof. exact src_erase_full. Qed.
(* non-vacuity: lanelet 1 leaves with sign 7 (referenced by it alone); sign 8 (shared with lanelet 2) and light 9 stay *)
Example C09_source_hanging_nonvacuous :
  let n := mkN [mkL 1 [7; 8] [9]; mkL 2 [8] [9]] [7; 8] [9] [] in
  let s0 := mkSt [1; 2; 7; 8; 9] (Some 9) n [] [] [] [] [] in
  let s1 := fst (run_lanelets_full src_hanging (rs_sign src_removal) (rs_light src_removal) (rs_lanelet src_removal)
                   [mkL 1 [7; 8] [9]] true s0) in
  idset s1 = [2; 8; 9] /\ n_signs (network s1) = [8] /\ n_lights (network s1) = [9] /\
  map l_id (n_lanelets (network s1)) = [2].
Proof. vm_compute. repeat split. Qed.

Print Assumptions C09_inv_meaning.
Print Assumptions C09_init.
Print Assumptions C09_step_inv.
Print Assumptions C09_reachable_inv.
Print Assumptions C09_free_all_meaning.
Print Assumptions C09_add_rejected_unchanged.
Print Assumptions C09_add_accepted.
Print Assumptions C09_add_list.
Print Assumptions C09_generate_fresh.
Print Assumptions C09_removal_total_frees.
Print Assumptions C09_free_after_leaving.
Print Assumptions C09_readd_after_removal.
Print Assumptions C09_replace.
Print Assumptions C09_nonvacuous.
Print Assumptions C09_mark_one_is_source.
Print Assumptions C09_mark_all_is_source.
Print Assumptions C09_generate_is_source.
Print Assumptions C09_source_nonvacuous.
Print Assumptions C09_removals_are_source.
Print Assumptions C09_source_step_inv.
Print Assumptions C09_source_reachable_inv.
Print Assumptions C09_source_removal_nonvacuous.
Print Assumptions C09_add_is_source.
Print Assumptions C09_every_operation_is_source.
Print Assumptions C09_source_all_reachable_inv.
Print Assumptions C09_source_add_nonvacuous.
Print Assumptions C09_remove_hanging_is_source.
Print Assumptions C09_remove_lanelet_fully_source.
Print Assumptions C09_erase_fully_source.
Print Assumptions C09_source_hanging_nonvacuous.
