(* Props/C15.v — property C15: a file writer's output depends only on its own inputs.
   Statements only; every proof is [exact <lemma of Proofs/Writers.v>].
   The world of Model/Writers.v: the process-global precision, every writer object with its
   constructor inputs (format, precision, everything else = [A]) and the tree / message it holds,
   and the files.  Histories are lists of New / Write (write_to_file) / WriteScenario
   (write_scenario_to_file).  What nodes, attributes and serialisation are is left abstract (the
   Section variables): the theorems hold for every choice, i.e. whatever the rendering functions
   of the library do, as long as they read the precision only through precision.decimals and
   receive the writer's own inputs.  [repaired] = the code with both repairs (tree per call,
   precision of the writer installed at write time). *)
From Coq Require Import List Bool Arith.
From CR Require Import Model.Writers Proofs.Writers.
From CR Require Model.WritersSrc Gen.Src_writers Proofs.SrcWriters.
Import ListNotations.

Section C15.
  Variable A : Type.
  Variables key value node bytes : Type.
  Variable key_eqb : key -> key -> bool.
  Variable header : A -> list (key * value).
  Variable objects : A -> nat -> list node.
  Variable problems : A -> nat -> list node.
  Variable ser_xml : list (key * value) -> list node -> bytes.
  Variable pb_header pb_objects pb_problems : A -> list node.
  Variable ser_pb : list node -> bytes.

  Notation world := (world A key value node bytes).
  Notation step := (step A key value node bytes key_eqb header objects problems ser_xml pb_header pb_objects
                         pb_problems ser_pb).
  Notation run := (run A key value node bytes key_eqb header objects problems ser_xml pb_header pb_objects
                       pb_problems ser_pb).
  Notation render := (render A key value node bytes key_eqb header objects problems ser_xml pb_header pb_objects
                             pb_problems ser_pb).
  Notation inputs_in := (inputs_in A key value node bytes).
  Notation file_exists := (file_exists A key value node bytes).
  Notation files := (files A key value node bytes).

  (* After ANY history h from ANY world s0, a write call (with / without planning problems) of a
     writer whose latest construction in h had inputs (f, p, a), if not skipped, writes exactly
     render f p a - a function of these inputs alone -, leaves every other file and every writer's
     inputs as they were. *)
  Theorem C15_write_history_independent :
    forall (h : list (op A)) (s0 : world) w path m f p a (pp : bool),
      inputs_of A h w (inputs_in s0 w) = Some (f, p, a) ->
      let s := run repaired h s0 in
      skips (file_exists path s) m = false ->
      let (s', o) := step repaired s (if pp then Write w path m else WriteScenario w path m) in
      o = OWritten path (render f p a pp) /\
      lookup path (files s') = Some (render f p a pp) /\
      (forall q, q <> path -> lookup q (files s') = lookup q (files s)) /\
      (forall w', inputs_in s' w' = inputs_in s w').
  Proof. exact (write_history_independent A key value node bytes key_eqb header objects problems ser_xml pb_header
                  pb_objects pb_problems ser_pb). Qed.

  (* identical inputs => identical bytes, for two writers anywhere in any two histories *)
  Theorem C15_same_inputs_same_bytes :
    forall h1 h2 (s1 s2 : world) w1 w2 p1 p2 m1 m2 f p a (pp : bool),
      inputs_of A h1 w1 (inputs_in s1 w1) = Some (f, p, a) ->
      inputs_of A h2 w2 (inputs_in s2 w2) = Some (f, p, a) ->
      skips (file_exists p1 (run repaired h1 s1)) m1 = false ->
      skips (file_exists p2 (run repaired h2 s2)) m2 = false ->
      exists b,
        snd (step repaired (run repaired h1 s1) (if pp then Write w1 p1 m1 else WriteScenario w1 p1 m1)) = OWritten p1 b /\
        snd (step repaired (run repaired h2 s2) (if pp then Write w2 p2 m2 else WriteScenario w2 p2 m2)) = OWritten p2 b.
  Proof. exact (same_inputs_same_bytes A key value node bytes key_eqb header objects problems ser_xml pb_header
                  pb_objects pb_problems ser_pb). Qed.

  (* overwrite mode SKIP (or the user answering "n") on an existing file: the whole world - every
     file, every writer, the global precision - is unchanged; holds for the unrepaired code too *)
  Theorem C15_skip_untouched :
    forall fx (s : world) w path m (pp : bool),
      skips (file_exists path s) m = true ->
      fst (step fx s (if pp then Write w path m else WriteScenario w path m)) = s /\
      (snd (step fx s (if pp then Write w path m else WriteScenario w path m)) = OSkipped \/
       snd (step fx s (if pp then Write w path m else WriteScenario w path m)) = ONoWriter).
  Proof. exact (skip_untouched A key value node bytes key_eqb header objects problems ser_xml pb_header
                  pb_objects pb_problems ser_pb). Qed.
  Theorem C15_skip_on_existing : forall (s : world) path,
      file_exists path s = true -> skips (file_exists path s) Skip = true.
  Proof. exact (skips_skip A key value node bytes). Qed.
  Theorem C15_always_never_skips : forall b, skips b Always = false.
  Proof. exact skips_always. Qed.

  (* every file of every reachable world is the rendering of some writer inputs *)
  Theorem C15_files_are_renderings :
    forall h (s : world),
      (forall q b, lookup q (files s) = Some b -> exists f p a pp, b = render f p a pp) ->
      forall q b, lookup q (files (run repaired h s)) = Some b -> exists f p a pp, b = render f p a pp.
  Proof. exact (files_are_renderings A key value node bytes key_eqb header objects problems ser_xml pb_header
                  pb_objects pb_problems ser_pb). Qed.

  (* ---- the model is the source: the bodies of XMLFileWriter.write_to_file / write_scenario_to_file and
     ProtobufFileWriter.write_to_file / write_scenario_to_file are parsed on every run into lists of steps
     (Gen/Src_writers.v, harness/props/c15_src.py: overwrite policy, new tree / message, precision of the writer
     installed, header, objects, planning problems, validation, serialisation).  [src_step] runs the parsed bodies
     (interpreter: Model/WritersSrc.v) where the model has write_call; it is the model's step with both repairs, on
     every world and operation - so the theorems above, stated for [repaired], are about the parsed source. *)
  Theorem C15_step_is_source : forall (s : world) (o : op A),
    SrcWriters.src_step A key value node bytes key_eqb header objects problems ser_xml pb_header pb_objects pb_problems
                        ser_pb s o
    = step repaired s o.
  Proof.
    exact (SrcWriters.src_step_is_model A key value node bytes key_eqb header objects problems ser_xml pb_header
                                        pb_objects pb_problems ser_pb).
  Qed.
  (* the main statement, about histories run with the parsed bodies *)
  Theorem C15_source_write_history_independent :
    forall (h : list (op A)) (s0 : world) w path m f p a (pp : bool),
      inputs_of A h w (inputs_in s0 w) = Some (f, p, a) ->
      let s := SrcWriters.src_run A key value node bytes key_eqb header objects problems ser_xml pb_header pb_objects
                                  pb_problems ser_pb h s0 in
      skips (file_exists path s) m = false ->
      let (s', o) := SrcWriters.src_step A key value node bytes key_eqb header objects problems ser_xml pb_header
                                         pb_objects pb_problems ser_pb s
                                         (if pp then Write w path m else WriteScenario w path m) in
      o = OWritten path (render f p a pp) /\
      lookup path (files s') = Some (render f p a pp) /\
      (forall q, q <> path -> lookup q (files s') = lookup q (files s)) /\
      (forall w', inputs_in s' w' = inputs_in s w').
  Proof.
    exact (SrcWriters.src_write_history_independent A key value node bytes key_eqb header objects problems ser_xml
             pb_header pb_objects pb_problems ser_pb).
  Qed.
  (* FileWriter.__init__ installs decimal_precision; _handle_file_path is the overwrite policy of [skips] (both
     compared with their expected text) *)
  Theorem C15_frames_are_source :
    Src_writers.src_init = WritersSrc.InitSetsPrecision /\ Src_writers.src_policy = WritersSrc.PolicyStd.
  Proof. exact SrcWriters.src_forms. Qed.
End C15.

(* the code as it was found, on the symbolic instance (a node records its inputs and the precision
   in force): witnesses of both defects, and the same histories under the repaired code (non-vacuity) *)
Example C15_accumulating_tree_refuted :
  let fx := {| reset_root := false; own_precision := true |} in
  let h := [New 0 XML 4 7; Write 0 0 Always; Write 0 1 Always] in
  nth_error (Sym.trace fx h Sym.empty) 2 =
    Some (OWritten 1 ([(0, 7); (1, 7)], [(Sym.PObjects, 7, 4); (Sym.PProblems, 7, 4); (Sym.PObjects, 7, 4); (Sym.PProblems, 7, 4)]))
  /\ Sym.render XML 4 7 true = ([(0, 7); (1, 7)], [(Sym.PObjects, 7, 4); (Sym.PProblems, 7, 4)]).
Proof. exact Refuted.accumulating_tree_refuted. Qed.
Example C15_global_precision_refuted :
  let fx := {| reset_root := true; own_precision := false |} in
  let h := [New 0 XML 4 7; New 1 XML 2 8; Write 0 0 Always] in
  nth_error (Sym.trace fx h Sym.empty) 2 = Some (OWritten 0 (Sym.render XML 2 7 true))
  /\ Sym.bytes_eqb (Sym.render XML 2 7 true) (Sym.render XML 4 7 true) = false.
Proof. exact Refuted.global_precision_refuted. Qed.
Example C15_repaired_examples :
  nth_error (Sym.trace repaired [New 0 XML 4 7; Write 0 0 Always; Write 0 1 Always] Sym.empty) 2
    = Some (OWritten 1 (Sym.render XML 4 7 true))
  /\ nth_error (Sym.trace repaired [New 0 XML 4 7; New 1 XML 2 8; Write 0 0 Always] Sym.empty) 2
    = Some (OWritten 0 (Sym.render XML 4 7 true))
  /\ nth_error (Sym.trace repaired [New 0 PB 4 7; Write 0 0 Always; Write 1 0 Skip; Write 0 0 Skip] Sym.empty) 3
    = Some OSkipped.
Proof. exact Refuted.repaired_examples. Qed.

(* non-vacuity: the parsed XML write_to_file, run on the symbolic instance twice, writes the same rendering twice *)
Example C15_source_nonvacuous :
  let step2 := SrcWriters.src_step Sym.A nat nat Sym.node Sym.bytes Nat.eqb Sym.header Sym.objects Sym.problems Sym.ser_xml
                                   Sym.pb_header Sym.pb_objects Sym.pb_problems Sym.ser_pb in
  let s1 := fst (step2 Sym.empty (New 0 XML 4 7)) in
  let (s2, o1) := step2 s1 (Write 0 0 Always) in
  let (s3, o2) := step2 s2 (Write 0 1 Always) in
  o1 = OWritten 0 (Sym.render XML 4 7 true) /\ o2 = OWritten 1 (Sym.render XML 4 7 true).
Proof. vm_compute. split; reflexivity. Qed.

Print Assumptions C15_write_history_independent.
Print Assumptions C15_same_inputs_same_bytes.
Print Assumptions C15_skip_untouched.
Print Assumptions C15_skip_on_existing.
Print Assumptions C15_always_never_skips.
Print Assumptions C15_files_are_renderings.
Print Assumptions C15_accumulating_tree_refuted.
Print Assumptions C15_global_precision_refuted.
Print Assumptions C15_repaired_examples.
Print Assumptions C15_step_is_source.
Print Assumptions C15_frames_are_source.
Print Assumptions C15_source_nonvacuous.
Print Assumptions C15_source_write_history_independent.
