(* Props/C05.v — property C05: translate_rotate is the exact rigid motion on every object.
   Statements only; every proof is [exact <lemma of Proofs/Transform.v, Proofs/Shapes.v, Proofs/Scene.v>].
   [c], [s] stand for the values math.cos(a), math.sin(a) return (oracle inputs, DESIGN 2.2); the only
   fact ever assumed about them is c*c + s*s == 1, and only where stated. *)
From Coq Require Import QArith ZArith Bool List.
From CR Require Import Base.QMod Model.Interval Model.Transform Model.Shapes Model.Scene
  Proofs.Transform Proofs.Shapes Proofs.Scene Gen.Src_transform Proofs.SrcTransform.
Import ListNotations.
Open Scope Q_scope.

(* the model of transform.py the theorems below are about IS the Gallina text generated on every run from
   commonroad/geometry/transform.py by harness/vlib/py2coq.py (Gen/Src_transform.v), with c = math.cos(a) and
   s = math.sin(a) of the SAME angle the function was given (cos_ / sin_ are uninterpreted functions) *)
Theorem C05_model_is_source : forall (cos_ sin_ : Q -> Q) vs t a,
  src_translation_rotation_matrix cos_ sin_ t a = translation_rotation_matrix t a (cos_ a) (sin_ a) /\
  src_rotation_translation_matrix cos_ sin_ t a = rotation_translation_matrix t a (cos_ a) (sin_ a) /\
  src_translate_rotate cos_ sin_ vs t a = translate_rotate_pts t a (cos_ a) (sin_ a) vs /\
  src_rotate_translate cos_ sin_ vs t a = rotate_translate_pts t a (cos_ a) (sin_ a) vs.
Proof.
  exact (fun cos_ sin_ vs t a => conj (src_translation_rotation_matrix_eq cos_ sin_ t a)
    (conj (src_rotation_translation_matrix_eq cos_ sin_ t a)
    (conj (src_translate_rotate_eq cos_ sin_ vs t a) (src_rotate_translate_eq cos_ sin_ vs t a)))).
Qed.

(* the 3x3 matrix product the code builds is the map p |-> R(c,s)(p + t), for every angle *)
Theorem C05_closed_form : forall t a c s p,
  pt_eq (mapply (translation_rotation_matrix t a c s) p) (T c s t p).
Proof. exact tr_closed_form. Qed.
Theorem C05_rotate_translate_closed_form : forall t a c s p,
  pt_eq (mapply (rotation_translation_matrix t a c s) p) (padd (rot (fst (coef_rt a c s)) (snd (coef_rt a c s)) p) t).
Proof. exact rt_closed_form. Qed.

(* identity without hypothesis: squared distances are scaled by c^2 + s^2, whatever (c, s) is *)
Theorem C05_dist2_scaled : forall t a c s p q,
  dist2 (mapply (translation_rotation_matrix t a c s) p) (mapply (translation_rotation_matrix t a c s) q)
  == (c * c + s * s) * dist2 p q.
Proof. exact dist2_move. Qed.
Theorem C05_isometry : forall t a c s p q, c * c + s * s == 1 ->
  dist2 (mapply (translation_rotation_matrix t a c s) p) (mapply (translation_rotation_matrix t a c s) q) == dist2 p q.
Proof. exact isometry. Qed.
(* the coefficient pair (1, a) of the former small-angle branch is not an isometry for any a <> 0 *)
Theorem C05_small_angle_coefficients_refuted : forall a, ~ a == 0 ->
  ~ dist2 (T 1 a (0, 0) (1, 0)) (T 1 a (0, 0) (0, 0)) == dist2 (1, 0) (0, 0).
Proof. exact not_isometry_witness. Qed.

(* the velocity vector of a point-mass state is rotated: its squared norm is scaled by c^2 + s^2 *)
Theorem C05_velocity_norm : forall c s v,
  px (rot c s v) * px (rot c s v) + py (rot c s v) * py (rot c s v) == (c * c + s * s) * (px v * px v + py v * py v).
Proof. exact rot_norm. Qed.

(* undoing the motion (rotate by -a, then translate by -t) restores the original *)
Theorem C05_inverse : forall t a c s p, c * c + s * s == 1 ->
  pt_eq (mapply (translation_rotation_matrix (pneg t) 0 1 0)
          (mapply (translation_rotation_matrix (0, 0) (- a) c (- s))
             (mapply (translation_rotation_matrix t a c s) p))) p.
Proof. exact inverse. Qed.

(* shoelace area of a closed vertex chain (first = last, as Polygon / Rectangle store it) *)
Theorem C05_area_scaled : forall t a c s p0 vs, pt_eq (last vs p0) p0 ->
  shoelace (map (mapply (translation_rotation_matrix t a c s)) (p0 :: vs)) == (c * c + s * s) * shoelace (p0 :: vs).
Proof. exact area_scaled. Qed.
Theorem C05_area_preserved : forall t a c s p0 vs, c * c + s * s == 1 -> pt_eq (last vs p0) p0 ->
  shoelace (map (mapply (translation_rotation_matrix t a c s)) (p0 :: vs)) == shoelace (p0 :: vs).
Proof. exact area_preserved. Qed.

(* orientations: make_valid_orientation(th + a) is th + a modulo tau, inside [-tau, tau]; the loops terminate *)
Theorem C05_orientation_shift : forall tau, 0 < tau -> forall fuel x y,
  make_valid_orientation tau fuel x = Some y ->
  (exists k : Z, y == x + inject_Z k * tau) /\ - tau <= y /\ y <= tau.
Proof. exact mvo_spec. Qed.
Theorem C05_orientation_terminates : forall tau, 0 < tau -> forall (n : nat) x,
  - (tau * inject_Z (Z.of_nat n) + tau) <= x -> x <= tau * inject_Z (Z.of_nat n) + tau ->
  make_valid_orientation tau (S n) x <> None.
Proof. exact mvo_fuel. Qed.

(* shapes and states: every stored point is mapped by the matrix, every orientation shifted by a modulo tau
   (intervals: both ends by the same amount), dimensions / structure / all other attributes unchanged *)
Theorem C05_shape_moved : forall tau, 0 < tau -> forall fuel t a c s sh sh',
  tr_shape tau fuel t a c s sh = Ok sh' -> movedl tau t a c s (atoms_shape sh) (atoms_shape sh').
Proof. exact tr_shape_moved. Qed.
Theorem C05_shape_dimensions : forall tau fuel t a c s sh sh',
  tr_shape tau fuel t a c s sh = Ok sh' -> skeleton sh' = skeleton sh.
Proof. exact tr_shape_skeleton. Qed.
Theorem C05_state_moved : forall tau, 0 < tau -> forall fuel t a c s st st',
  tr_state tau fuel t a c s st = Ok st' -> movedl tau t a c s (atoms_state st) (atoms_state st').
Proof. exact tr_state_moved. Qed.
Theorem C05_state_rest : forall tau fuel t a c s st st',
  tr_state tau fuel t a c s st = Ok st' -> s_time st' = s_time st /\ s_rest st' = s_rest st.
Proof. exact tr_state_rest. Qed.

(* coverage of the fan-out: Scenario.translate_rotate / PlanningProblemSet.translate_rotate reach every stored
   point and orientation of every component kind ([atoms_scenario], [atoms_ppset] enumerate them), and leave
   counts, time steps, dimensions and the obstacles' own shapes alone *)
Theorem C05_scenario_moved : forall tau, 0 < tau -> forall fuel t a c s sc sc',
  tr_scenario tau fuel t a c s sc = Ok sc' -> movedl tau t a c s (atoms_scenario sc) (atoms_scenario sc').
Proof. exact tr_scenario_moved. Qed.
Theorem C05_ppset_moved : forall tau, 0 < tau -> forall fuel t a c s ps ps',
  tr_ppset tau fuel t a c s ps = Ok ps' -> movedl tau t a c s (atoms_ppset ps) (atoms_ppset ps').
Proof. exact tr_ppset_moved. Qed.
Theorem C05_obstacle_local_shape : forall tau fuel t a c s o o',
  tr_obstacle tau fuel t a c s o = Ok o' -> local_shape o' = local_shape o.
Proof. exact tr_obstacle_local. Qed.
(* hence the relative configuration of any two stored points of any two components is preserved *)
Theorem C05_configuration_preserved : forall tau t a c s l l' i j p q p' q', c * c + s * s == 1 ->
  movedl tau t a c s l l' ->
  nth_error l i = Some (APt p) -> nth_error l j = Some (APt q) ->
  nth_error l' i = Some (APt p') -> nth_error l' j = Some (APt q') -> dist2 p' q' == dist2 p q.
Proof. exact config_preserved. Qed.

(* totality: for a valid angle and components whose stored orientations are valid, no level of the
   fan-out raises — for any mix of component kinds, environment obstacles included *)
Theorem C05_shape_total : forall tau, 0 < tau -> forall fuel t a c s, (3 <= fuel)%nat -> valid_angle tau a = true ->
  forall sh, valid_shape tau sh = true -> exists sh', tr_shape tau fuel t a c s sh = Ok sh'.
Proof. exact tr_shape_total. Qed.
Theorem C05_state_total : forall tau, 0 < tau -> forall fuel t a c s, (3 <= fuel)%nat -> valid_angle tau a = true ->
  forall st, valid_state tau st = true -> exists st', tr_state tau fuel t a c s st = Ok st'.
Proof. exact tr_state_total. Qed.
Theorem C05_scenario_total : forall tau, 0 < tau -> forall fuel t a c s, (3 <= fuel)%nat -> valid_angle tau a = true ->
  forall sc, valid_scenario tau sc = true -> exists sc', tr_scenario tau fuel t a c s sc = Ok sc'.
Proof. exact tr_scenario_total. Qed.
Theorem C05_ppset_total : forall tau, 0 < tau -> forall fuel t a c s, (3 <= fuel)%nat -> valid_angle tau a = true ->
  forall ps, forallb (valid_pproblem tau) ps = true -> exists ps', tr_ppset tau fuel t a c s ps = Ok ps'.
Proof. exact tr_ppset_total. Qed.

(* an orientation interval is shifted as an angle: both ends by a + k*tau with one k, the length is kept, and the
   result is again an AngleInterval inside [-tau, tau] (the same clause is part of [movedl], constructor MItv) *)
Theorem C05_interval_shift : forall tau, 0 < tau -> forall fuel a J J', shift_itv tau fuel a J = Ok J' ->
  (exists k : Z, lo J' == lo J + a + inject_Z k * tau /\ hi J' == hi J + a + inject_Z k * tau) /\
  hi J' - lo J' == hi J - lo J /\ - tau <= lo J' /\ hi J' <= tau.
Proof. exact shift_itv_full. Qed.

(* two motions in a row.  The product of the two matrices is p |-> R(c12,s12)(p + t1) + R(c2,s2) t2 with the
   angle-addition coefficients (no hypothesis); with c1^2+s1^2 = 1 that is the single motion
   (t1 + R(-a1) t2, a1 + a2), whose coefficient pair is again a rotation *)
Theorem C05_composition_closed_form : forall t1 t2 a1 c1 s1 a2 c2 s2 p,
  pt_eq (move t2 a2 c2 s2 (move t1 a1 c1 s1 p)) (padd (T (c12 c1 s1 c2 s2) (s12 c1 s1 c2 s2) t1 p) (rot c2 s2 t2)).
Proof. exact compose_closed_form. Qed.
Theorem C05_composition_is_motion : forall t1 t2 a1 c1 s1 a2 c2 s2 p, c1 * c1 + s1 * s1 == 1 ->
  pt_eq (move t2 a2 c2 s2 (move t1 a1 c1 s1 p))
        (T (c12 c1 s1 c2 s2) (s12 c1 s1 c2 s2) (padd t1 (rot c1 (- s1) t2)) p).
Proof. exact compose_is_motion. Qed.
Theorem C05_composition_coefficients : forall c1 s1 c2 s2,
  c12 c1 s1 c2 s2 * c12 c1 s1 c2 s2 + s12 c1 s1 c2 s2 * s12 c1 s1 c2 s2 == (c1 * c1 + s1 * s1) * (c2 * c2 + s2 * s2).
Proof. exact compose_coefficients. Qed.
(* every stored value of any object after two motions: points by the composed map, orientations and orientation
   intervals by a1 + a2 modulo tau inside [-tau, tau], velocity vectors by R(c12, s12), the rest unchanged *)
Theorem C05_composition : forall tau t1 t2 a1 c1 s1 a2 c2 s2 l l' l'',
  movedl tau t1 a1 c1 s1 l l' -> movedl tau t2 a2 c2 s2 l' l'' -> Forall2 (moved2 tau t1 t2 a1 c1 s1 a2 c2 s2) l l''.
Proof. exact movedl_compose. Qed.

(* the result of a motion is a valid object again (orientations inside [-tau, tau], orientation intervals
   ordered, shorter than tau and inside [-tau, tau]) - without any hypothesis on the input ... *)
Theorem C05_state_result_valid : forall tau, 0 < tau -> forall fuel t a c s st st',
  tr_state tau fuel t a c s st = Ok st' -> valid_state tau st' = true.
Proof. exact tr_state_valid. Qed.
Theorem C05_scenario_result_valid : forall tau, 0 < tau -> forall fuel t a c s sc sc',
  tr_scenario tau fuel t a c s sc = Ok sc' -> valid_scenario tau sc' = true.
Proof. exact tr_scenario_valid. Qed.
Theorem C05_ppset_result_valid : forall tau, 0 < tau -> forall fuel t a c s ps ps',
  tr_ppset tau fuel t a c s ps = Ok ps' -> forallb (valid_pproblem tau) ps' = true.
Proof. exact tr_ppset_valid. Qed.
(* ... hence a transformed object can be transformed again (e.g. to undo the motion): the second call never raises *)
Theorem C05_state_chain_total : forall tau, 0 < tau -> forall fuel t1 a1 c1 s1 t2 a2 c2 s2 st st',
  (3 <= fuel)%nat -> valid_angle tau a2 = true -> tr_state tau fuel t1 a1 c1 s1 st = Ok st' ->
  exists st'', tr_state tau fuel t2 a2 c2 s2 st' = Ok st''.
Proof. exact tr_state_chain. Qed.
Theorem C05_scenario_chain_total : forall tau, 0 < tau -> forall fuel t1 a1 c1 s1 t2 a2 c2 s2 sc sc',
  (3 <= fuel)%nat -> valid_angle tau a2 = true -> tr_scenario tau fuel t1 a1 c1 s1 sc = Ok sc' ->
  exists sc'', tr_scenario tau fuel t2 a2 c2 s2 sc' = Ok sc''.
Proof. exact tr_scenario_chain. Qed.
Theorem C05_ppset_chain_total : forall tau, 0 < tau -> forall fuel t1 a1 c1 s1 t2 a2 c2 s2 ps ps',
  (3 <= fuel)%nat -> valid_angle tau a2 = true -> tr_ppset tau fuel t1 a1 c1 s1 ps = Ok ps' ->
  exists ps'', tr_ppset tau fuel t2 a2 c2 s2 ps' = Ok ps''.
Proof. exact tr_ppset_chain. Qed.

(* non-vacuity of the chain: a goal state with the orientation interval [6, 25/4] rotated by 6 (the interval
   wraps: 12 > tau) is an interval inside [-tau, tau] again, and rotating back by -6 restores [6, 25/4] as angles (shifted by -tau) *)
Example C05_chain_nonvacuous :
  let tau := 710 # 113 in
  let st := {| s_time := 0%Z; s_pos := Some (PRegion (Rect 2 1 (1, 1) (1 # 2)));
               s_ori := Some (OItv {| lo := 6; hi := 25 # 4 |}); s_vec := None; s_rest := [5; 7] |} in
  exists st' st'', tr_state tau 3 (1, 2) 6 (3 # 5) (4 # 5) st = Ok st' /\
                   tr_state tau 3 (0, 0) (- 6) (3 # 5) (- (4 # 5)) st' = Ok st'' /\
                   valid_state tau st' = true /\
                   match s_ori st', s_ori st'' with
                   | Some (OItv J'), Some (OItv J'') => hi J' <= tau /\ lo J'' == 6 - tau /\ hi J'' == (25 # 4) - tau
                   | _, _ => False
                   end.
Proof.
  cbv zeta. eexists. eexists. split; [vm_compute; reflexivity|]. split; [vm_compute; reflexivity|].
  split; [vm_compute; reflexivity|]. cbn. repeat split; vm_compute; try reflexivity; discriminate.
Qed.

(* non-vacuity: a scenario with one obstacle of every kind (environment obstacle included), an uncertain
   state and a shape group satisfies the hypotheses; (c, s) = (3/5, 4/5) is a rotation; the result is Ok *)
Example C05_nonvacuous :
  let tau := 710 # 113 in
  let st := {| s_time := 0%Z; s_pos := Some (PRegion (Group [Rect 2 1 (1, 1) (1 # 2); Circ 1 (0, 3)]));
               s_ori := Some (OItv {| lo := 6; hi := 25 # 4 |}); s_vec := Some (3, 4); s_rest := [5] |} in
  let sc := {| sc_net := {| n_lanelets := [{| l_left := [(0, 1); (4, 1)]; l_center := [(0, 0); (4, 0)];
                                               l_right := [(0, -1); (4, -1)]; l_stop := Some ((4, 1), (4, -1)) |}];
                            n_signs := [(1, 2)]; n_lights := [(3, 2)] |};
               sc_obstacles := [OStatic (Rect 4 2 (0, 0) 0) st;
                                ODynamic (Circ 1 (0, 0)) st (Some (PTraj [st] (Circ 1 (0, 0))));
                                ODynamic (Circ 1 (0, 0)) st (Some (PSet [Poly [(0, 0); (0, 1); (1, 0); (0, 0)]]));
                                OPhantom (Some [Circ 2 (5, 5)]); OEnv (Rect 3 3 (7, 7) 6)] |} in
  0 < tau /\ (3 # 5) * (3 # 5) + (4 # 5) * (4 # 5) == 1 /\ valid_angle tau 6 = true /\
  valid_scenario tau sc = true /\
  (exists sc', tr_scenario tau 3 (1, 2) 6 (3 # 5) (4 # 5) sc = Ok sc') /\
  tr_scenario tau 3 (1, 2) 7 (3 # 5) (4 # 5) sc = Err.
Proof.
  cbv zeta. split; [reflexivity|]. split; [reflexivity|]. split; [vm_compute; reflexivity|].
  split; [vm_compute; reflexivity|]. split; [|vm_compute; reflexivity].
  eexists. vm_compute. reflexivity.
Qed.

Print Assumptions C05_model_is_source.
Print Assumptions C05_closed_form.
Print Assumptions C05_rotate_translate_closed_form.
Print Assumptions C05_dist2_scaled.
Print Assumptions C05_isometry.
Print Assumptions C05_small_angle_coefficients_refuted.
Print Assumptions C05_velocity_norm.
Print Assumptions C05_inverse.
Print Assumptions C05_area_scaled.
Print Assumptions C05_area_preserved.
Print Assumptions C05_orientation_shift.
Print Assumptions C05_orientation_terminates.
Print Assumptions C05_shape_moved.
Print Assumptions C05_shape_dimensions.
Print Assumptions C05_state_moved.
Print Assumptions C05_state_rest.
Print Assumptions C05_scenario_moved.
Print Assumptions C05_ppset_moved.
Print Assumptions C05_obstacle_local_shape.
Print Assumptions C05_configuration_preserved.
Print Assumptions C05_shape_total.
Print Assumptions C05_state_total.
Print Assumptions C05_scenario_total.
Print Assumptions C05_ppset_total.
Print Assumptions C05_interval_shift.
Print Assumptions C05_composition_closed_form.
Print Assumptions C05_composition_is_motion.
Print Assumptions C05_composition_coefficients.
Print Assumptions C05_composition.
Print Assumptions C05_state_result_valid.
Print Assumptions C05_scenario_result_valid.
Print Assumptions C05_ppset_result_valid.
Print Assumptions C05_state_chain_total.
Print Assumptions C05_scenario_chain_total.
Print Assumptions C05_ppset_chain_total.
Print Assumptions C05_chain_nonvacuous.
Print Assumptions C05_nonvacuous.
