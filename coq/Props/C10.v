(* Props/C10.v — property C10: removing or cutting out network elements leaves no dangling references.
   Statements only; every proof is [exact <lemma of Proofs/Network.v>].
   Model: Model/Network.v — the id-valued content of a LaneletNetwork (everything else of an element is an opaque
   payload) and, statement by statement, LaneletNetwork.remove_lanelet / remove_traffic_sign / remove_traffic_light /
   remove_intersection with the three cleanup_*_references, Scenario.remove_lanelet (remove_hanging_lanelet_members) /
   remove_traffic_sign / remove_traffic_light / remove_intersection in single and list form,
   create_from_lanelet_network (shape selection = one boolean per lanelet, excluded types) and create_from_lanelet_list.
   [restrict kL kS kT kX n] is the specification "kept part": the lanelets / signs / lights / intersections the four
   predicates select, each with its content minus exactly the references to what is not kept, nothing else changed. *)
From Coq Require Import ZArith List Bool.
Import ListNotations.
From CR Require Import Base.G2Fold Model.Network Proofs.Network.
From CR Require Import Model.NetworkSrc Gen.Src_network Proofs.SrcNetwork.
Open Scope Z_scope.

(* what WF says, reference by reference: every predecessor / successor / adjacency, every incoming / successor /
   crossing set, every lanelet sign and light reference, every stop-line reference (which is also one of its
   lanelet's) and every left_of resolves *)
Theorem C10_wf_no_dangling : forall n, WF n ->
  (forall l z, In l (lanelets n) ->
     (In z (l_pred l) \/ In z (l_succ l) \/ l_adjL l = Some z \/ l_adjR l = Some z -> In z (lanelet_ids n)) /\
     (In z (l_signs l) -> In z (sign_ids n)) /\ (In z (l_lights l) -> In z (light_ids n)) /\
     (forall s t, l_stop l = Some (s, t) -> (In z s -> In z (l_signs l) /\ In z (sign_ids n)) /\
                                            (In z t -> In z (l_lights l) /\ In z (light_ids n)))) /\
  (forall x z, In x (inters n) ->
     (In z (x_cross x) -> In z (lanelet_ids n)) /\
     (forall i, In i (x_incs x) ->
        (In z (i_lanelets i) \/ In z (i_right i) \/ In z (i_straight i) \/ In z (i_left i) -> In z (lanelet_ids n)) /\
        (i_leftof i = Some z -> In z (map i_id (x_incs x))))).
Proof. exact WF_no_dangling. Qed.
(* the boolean test the correspondence applies to every start network decides WF *)
Theorem C10_wfb_decides_wf : forall n, wfb n = true <-> WF n.
Proof. exact wfb_WF. Qed.

(* ---- the specification: what "kept part" means *)
Theorem C10_restrict_elements : forall kL kS kT kX n,
  (forall l', In l' (lanelets (restrict kL kS kT kX n)) <->
              exists l, In l (lanelets n) /\ kL (l_id l) = true /\ l' = clean_lanelet kL kS kT l) /\
  (forall s, In s (signs (restrict kL kS kT kX n)) <-> In s (signs n) /\ kS (fst s) = true) /\
  (forall s, In s (lights (restrict kL kS kT kX n)) <-> In s (lights n) /\ kT (fst s) = true) /\
  (forall x', In x' (inters (restrict kL kS kT kX n)) <->
              exists x, In x (inters n) /\ kX (x_id x) = true /\ x' = clean_inter_l kL x).
Proof. exact restrict_elements. Qed.
Theorem C10_kept_lanelet_content : forall kL kS kT l,
  let l' := clean_lanelet kL kS kT l in
  l_id l' = l_id l /\ l_types l' = l_types l /\ l_payload l' = l_payload l /\
  (forall z, In z (l_pred l') <-> In z (l_pred l) /\ kL z = true) /\
  (forall z, In z (l_succ l') <-> In z (l_succ l) /\ kL z = true) /\
  (forall z, l_adjL l' = Some z <-> l_adjL l = Some z /\ kL z = true) /\
  (forall z, l_adjR l' = Some z <-> l_adjR l = Some z /\ kL z = true) /\
  (forall z, l_adjL l' = Some z -> l_adjL_dir l' = l_adjL_dir l) /\
  (forall z, l_adjR l' = Some z -> l_adjR_dir l' = l_adjR_dir l) /\
  (forall z, In z (l_signs l') <-> In z (l_signs l) /\ kS z = true) /\
  (forall z, In z (l_lights l') <-> In z (l_lights l) /\ kT z = true) /\
  (l_stop l' = None <-> l_stop l = None) /\
  (forall s t s' t', l_stop l = Some (s, t) -> l_stop l' = Some (s', t') ->
     forall z, (In z s' <-> In z s /\ kS z = true) /\ (In z t' <-> In z t /\ kT z = true)).
Proof. exact clean_lanelet_content. Qed.
(* it has no dangling reference, composes, depends on the predicates only through the ids that occur, and the
   predicates "keep everything" change nothing *)
Theorem C10_restrict_wf : forall kL kS kT kX n, WF n -> WF (restrict kL kS kT kX n).
Proof. exact restrict_wf. Qed.
Theorem C10_restrict_restrict : forall a1 b1 c1 d1 a2 b2 c2 d2 n,
  restrict a2 b2 c2 d2 (restrict a1 b1 c1 d1 n) = restrict (andf a1 a2) (andf b1 b2) (andf c1 c2) (andf d1 d2) n.
Proof. exact restrict_restrict. Qed.
Theorem C10_restrict_all : forall n, WF n -> restrict all all all all n = n.
Proof. exact restrict_all. Qed.

(* ---- LaneletNetwork.remove_*: exactly the kept part (list equality, hence also as sets) *)
Theorem C10_remove_lanelet : forall i n, WF n -> net_remove_lanelet i n = restrict (neq i) all all all n.
Proof. exact net_remove_lanelet_spec. Qed.
Theorem C10_remove_traffic_sign : forall i n, WF n -> net_remove_sign i n = restrict all (neq i) all all n.
Proof. exact net_remove_sign_spec. Qed.
Theorem C10_remove_traffic_light : forall i n, WF n -> net_remove_light i n = restrict all all (neq i) all n.
Proof. exact net_remove_light_spec. Qed.
Theorem C10_remove_intersection : forall i n, WF n -> net_remove_inter i n = restrict all all all (neq i) n.
Proof. exact net_remove_inter_spec. Qed.

(* ---- Scenario level, list forms (any list: empty, repeated or absent ids) *)
Theorem C10_scenario_remove_signs : forall l n, WF n -> fold_op net_remove_sign l n = restrict all (notin l) all all n.
Proof. exact remove_signs_spec. Qed.
Theorem C10_scenario_remove_lights : forall l n, WF n -> fold_op net_remove_light l n = restrict all all (notin l) all n.
Proof. exact remove_lights_spec. Qed.
Theorem C10_scenario_remove_intersections : forall l n, WF n ->
  fold_op net_remove_inter l n = restrict all all all (notin l) n.
Proof. exact remove_inters_spec. Qed.
(* Scenario.remove_lanelet(lanelets, referenced_elements): the lanelets leave, and with them exactly the signs / lights
   of [hang] ... *)
Theorem C10_scenario_remove_lanelets : forall rm refs n, WF n ->
  s_remove_lanelets rm refs n =
  restrict (notin rm) (notin (fst (hang rm refs n))) (notin (snd (hang rm refs n))) all n.
Proof. exact s_remove_lanelets_spec. Qed.
(* ... which are those that a removed lanelet references and no remaining lanelet references *)
Theorem C10_hanging_signs : forall rm n z,
  In z (fst (hanging rm n)) <->
  In z (sign_ids n) /\ (exists l, In l (lanelets n) /\ In (l_id l) rm /\ In z (l_signs l)) /\
  (forall l, In l (lanelets n) -> ~ In (l_id l) rm -> ~ In z (l_signs l)).
Proof. exact hanging_signs_spec. Qed.
Theorem C10_hanging_lights : forall rm n z,
  In z (snd (hanging rm n)) <->
  In z (light_ids n) /\ (exists l, In l (lanelets n) /\ In (l_id l) rm /\ In z (l_lights l)) /\
  (forall l, In l (lanelets n) -> ~ In (l_id l) rm -> ~ In z (l_lights l)).
Proof. exact hanging_lights_spec. Qed.

(* ---- create_from_lanelet_network: the kept part for the selected lanelets and the signs / lights they reference,
   then [prune]: incoming elements without remaining incoming lanelet or without remaining successor and
   intersections without remaining incoming element are dropped, a left_of naming a dropped incoming is cleared *)
Theorem C10_cutout : forall sel shape excl n, WF n -> cutout sel shape excl n = cut_spec sel shape excl n.
Proof. exact cutout_spec. Qed.
Theorem C10_cutout_wf : forall sel shape excl n, WF n -> WF (cut_spec sel shape excl n).
Proof. exact cut_spec_wf. Qed.
Theorem C10_cutout_lanelets : forall sel shape excl n, NoDup (lanelet_ids n) ->
  lanelet_ids (cut_spec sel shape excl n) = map l_id (cut_kept sel shape excl n).
Proof. exact cut_spec_lanelet_ids. Qed.
Theorem C10_cutout_signs : forall sel shape excl n s,
  In s (signs (cut_spec sel shape excl n)) <->
  In s (signs n) /\ exists l, In l (cut_kept sel shape excl n) /\ In (fst s) (l_signs l).
Proof. exact cut_spec_signs. Qed.
Theorem C10_cutout_lights : forall sel shape excl n s,
  In s (lights (cut_spec sel shape excl n)) <->
  In s (lights n) /\ exists l, In l (cut_kept sel shape excl n) /\ In (fst s) (l_lights l).
Proof. exact cut_spec_lights. Qed.
Theorem C10_prune_wf : forall n, WF n -> WF (prune n).
Proof. exact prune_wf. Qed.
(* where every incoming element keeps an incoming lanelet and a successor, the cut-out is exactly the kept part *)
Theorem C10_prune_identity : forall n, WF n ->
  (forall x, In x (inters n) -> x_incs x <> [] /\ forall i, In i (x_incs x) -> live_incoming i = true) -> prune n = n.
Proof. exact prune_id. Qed.
(* otherwise it is not: the statement "every element not selected for removal is still present" fails for an
   incoming element (and an intersection) whose incoming lanelets remain but whose successors were all cut *)
Theorem C10_cutout_keeps_unselected_refuted :
  WF demo_net /\
  In 1 (lanelet_ids (cutout [1; 3; 4; 5] true [] demo_net)) /\
  map (fun x => map i_id (x_incs x)) (inters (kept_part [1; 3; 4; 5] demo_net)) = [[301; 302]] /\
  map (fun x => map i_id (x_incs x)) (inters (cutout [1; 3; 4; 5] true [] demo_net)) = [[302]] /\
  inter_ids (kept_part [1; 3; 5] demo_net) = [300] /\ inter_ids (cutout [1; 3; 5] true [] demo_net) = [] /\
  cutout [1; 3; 5] true [] demo_net <> kept_part [1; 3; 5] demo_net.
Proof. exact cutout_exact_refuted. Qed.

(* ---- create_from_lanelet_list: the selected lanelets without any sign / light / intersection *)
Theorem C10_from_list : forall ls n, WF n -> from_list ls n = restrict (isin ls) none none none n.
Proof. exact from_list_spec. Qed.

(* ---- every operation, and every finite history of operations *)
Theorem C10_apply_spec : forall o n, WF n -> apply o n = spec_of o n.
Proof. exact apply_spec. Qed.
Theorem C10_apply_wf : forall o n, WF n -> WF (apply o n).
Proof. exact apply_wf. Qed.
Theorem C10_reachable_wf : forall ops n, WF n -> WF (run step ops n).
Proof. exact reachable_wf. Qed.
(* over a history nothing appears, and an element that is still there has its id, types and payload unchanged and
   every relation a subset of what it was (an adjacency with its direction flag is kept or dropped as a whole) *)
Theorem C10_reachable_only_loses : forall ops n, WF n -> net_le (run step ops n) n.
Proof. exact reachable_le. Qed.

(* non-vacuity: a well-formed crossing with a shared sign, a stop line and an intersection; a scenario-level lanelet
   removal that must keep the shared sign, a sign removal and a cut-out that drops an incoming and clears a left_of *)
Example C10_nonvacuous :
  run step demo_ops demo_net = demo_result /\ WF demo_result /\
  hang [1] true demo_net = ([], []) /\ hang [1; 3] true demo_net = ([101], [200]).
Proof. exact demo_run. Qed.

(* ---- the model is the source: the three cleanup_*_references methods are parsed, assignment by assignment, into rule
   lists, and the four remove_* methods into (dictionary, where the cleanup call stands), on every run
   (Gen/Src_network.v, harness/props/c10_src.py).  Run by the interpreter of Model/NetworkSrc.v they are the model's
   functions on every network; with C10_remove_* above: the parsed remove methods compute [restrict]. *)
Theorem C10_cleanup_is_source : forall n,
  run_cleanup src_cleanup_lanelets n = cleanup_lanelets n /\ run_cleanup src_cleanup_signs n = cleanup_signs n /\
  run_cleanup src_cleanup_lights n = cleanup_lights n.
Proof.
  intro n. exact (conj (src_cleanup_lanelets_is_model n) (conj (src_cleanup_signs_is_model n) (src_cleanup_lights_is_model n))).
Qed.
Theorem C10_remove_is_source : forall i n,
  run_remove src_remove_lanelet (run_cleanup src_cleanup_lanelets) i n = net_remove_lanelet i n /\
  run_remove src_remove_sign (run_cleanup src_cleanup_signs) i n = net_remove_sign i n /\
  run_remove src_remove_light (run_cleanup src_cleanup_lights) i n = net_remove_light i n /\
  run_remove src_remove_inter (fun m => m) i n = net_remove_inter i n.
Proof.
  intros i n. exact (conj (src_remove_lanelet_is_model i n) (conj (src_remove_sign_is_model i n)
                      (conj (src_remove_light_is_model i n) (src_remove_inter_is_model i n)))).
Qed.
Theorem C10_source_remove_lanelet_is_restrict : forall i n, WF n ->
  run_remove src_remove_lanelet (run_cleanup src_cleanup_lanelets) i n = restrict (neq i) all all all n.
Proof. exact src_remove_lanelet_is_restrict. Qed.
Theorem C10_source_remove_sign_is_restrict : forall i n, WF n ->
  run_remove src_remove_sign (run_cleanup src_cleanup_signs) i n = restrict all (neq i) all all n.
Proof. exact src_remove_sign_is_restrict. Qed.
Theorem C10_source_remove_light_is_restrict : forall i n, WF n ->
  run_remove src_remove_light (run_cleanup src_cleanup_lights) i n = restrict all all (neq i) all n.
Proof. exact src_remove_light_is_restrict. Qed.
Theorem C10_source_remove_intersection_is_restrict : forall i n, WF n ->
  run_remove src_remove_inter (fun m => m) i n = restrict all all all (neq i) n.
Proof. exact src_remove_inter_is_restrict. Qed.
(* create_from_lanelet_list as parsed (deep copies of the listed lanelets into a new network, the cleanup methods in
   the order of the source), run with the parsed cleanup methods, is from_list - hence restrict to the listed lanelets *)
Theorem C10_from_list_is_source : forall ls n,
  run_from_list src_from_list src_clean true ls n = from_list ls n.
Proof. exact src_from_list_is_model. Qed.
Theorem C10_source_from_list_is_restrict : forall ls n, WF n ->
  run_from_list src_from_list src_clean true ls n = restrict (isin ls) none none none n.
Proof. exact src_from_list_is_restrict. Qed.
(* non-vacuity: the parsed programs, run on a three-lanelet network, remove lanelet 2 and every reference to it *)
Example C10_source_nonvacuous :
  let l i p s a := mkL i p s a (match a with Some _ => Some true | None => None end) None None [] [] None [] 0 in
  let n := mkN [l 1 [] [2] (Some 2); l 2 [1] [3] None; l 3 [2] [] None] [] []
               [mkX 9 [mkI 1 [1] [] [2] [] None] [2; 3]] in
  run_remove src_remove_lanelet (run_cleanup src_cleanup_lanelets) 2 n
  = mkN [l 1 [] [] None; l 3 [] [] None] [] [] [mkX 9 [mkI 1 [1] [] [] [] None] [3]].
Proof. vm_compute. reflexivity. Qed.

Print Assumptions C10_wf_no_dangling.
Print Assumptions C10_wfb_decides_wf.
Print Assumptions C10_restrict_elements.
Print Assumptions C10_kept_lanelet_content.
Print Assumptions C10_restrict_wf.
Print Assumptions C10_restrict_restrict.
Print Assumptions C10_restrict_all.
Print Assumptions C10_remove_lanelet.
Print Assumptions C10_remove_traffic_sign.
Print Assumptions C10_remove_traffic_light.
Print Assumptions C10_remove_intersection.
Print Assumptions C10_scenario_remove_signs.
Print Assumptions C10_scenario_remove_lights.
Print Assumptions C10_scenario_remove_intersections.
Print Assumptions C10_scenario_remove_lanelets.
Print Assumptions C10_hanging_signs.
Print Assumptions C10_hanging_lights.
Print Assumptions C10_cutout.
Print Assumptions C10_cutout_wf.
Print Assumptions C10_cutout_lanelets.
Print Assumptions C10_cutout_signs.
Print Assumptions C10_cutout_lights.
Print Assumptions C10_prune_wf.
Print Assumptions C10_prune_identity.
Print Assumptions C10_cutout_keeps_unselected_refuted.
Print Assumptions C10_from_list.
Print Assumptions C10_apply_spec.
Print Assumptions C10_apply_wf.
Print Assumptions C10_reachable_wf.
Print Assumptions C10_reachable_only_loses.
Print Assumptions C10_nonvacuous.
Print Assumptions C10_cleanup_is_source.
Print Assumptions C10_remove_is_source.
Print Assumptions C10_source_remove_lanelet_is_restrict.
Print Assumptions C10_source_remove_sign_is_restrict.
Print Assumptions C10_source_remove_light_is_restrict.
Print Assumptions C10_source_remove_intersection_is_restrict.
Print Assumptions C10_from_list_is_source.
Print Assumptions C10_source_from_list_is_restrict.
Print Assumptions C10_source_nonvacuous.
