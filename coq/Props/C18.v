(* Props/C18.v — property C18: read-only operations do not change scenarios or planning problems.
   Statements only; every proof is [exact <lemma of Proofs/ReadOnly.v>].
   Model: Model/ReadOnly.v — state = stored data (attribute names and values of the trajectory states, the other data
   of every obstacle, goal-lanelet tables with their container kind, lanelets, light cycles, the id sets of the
   intersections) + caches (occupancy sets, lanelet distances, spatial index, memoised
   cycle times); [step repaired] = the code as it is; [observe] forgets the caches; [export] = what the writers read. *)
From Coq Require Import ZArith List Bool.
Import ListNotations.
From CR Require Import Base.G5Machine Model.ReadOnly Proofs.ReadOnly.
Open Scope Z_scope.

(* every read-only operation — occupancy / state / lanelet / traffic-light queries, is_reached, goal_reached, ==, hash,
   str, copy, deepcopy, pickle, draw (whatever the renderer asks for), XML write, protobuf write — leaves every
   observable attribute as it was, on every state (coherent caches or not) *)
Theorem C18_step_observe : forall s o, observe (fst (step repaired s o)) = observe s.
Proof. exact step_observe. Qed.

(* ... hence so does every finite sequence, at the end and at every point in between *)
Theorem C18_run_observe : forall ops s, observe (run (step repaired) ops s) = observe s.
Proof. exact run_observe. Qed.
Theorem C18_states_observe : forall ops s, Forall (fun s' => observe s' = observe s) (states (step repaired) ops s).
Proof. exact states_observe. Qed.

(* the exported file is a function of the observation, so exporting before and after any sequence of read-only
   operations produces the same file, whichever writer is used *)
Theorem C18_export_observe : forall s, export (observe s) = export s.
Proof. exact export_observe. Qed.
Theorem C18_export_unchanged : forall ops s, export (run (step repaired) ops s) = export s.
Proof. exact export_unchanged. Qed.
Theorem C18_write_after_run : forall ops s w, is_write w = true ->
  snd (step repaired (run (step repaired) ops s) w) = snd (step repaired s w).
Proof. exact write_after_run. Qed.

(* the caches, which the operations do fill and rebuild, stay determined by the stored data ... *)
Theorem C18_step_inv : forall s o, Inv s -> Inv (fst (step repaired s o)).
Proof. exact step_inv. Qed.
Theorem C18_run_inv : forall ops s, Inv s -> Inv (run (step repaired) ops s).
Proof. exact run_inv_ro. Qed.
(* ... so two states with the same stored data answer every operation alike, and after any read-only history every
   operation answers as before it (a returned copy compared by its observation) *)
Theorem C18_answers_alike : forall s1 s2 o, Inv s1 -> Inv s2 -> observe s1 = observe s2 ->
  res_obs (snd (step repaired s1 o)) = res_obs (snd (step repaired s2 o)).
Proof. exact answers_alike. Qed.
Theorem C18_answer_after_run : forall ops q s, Inv s ->
  res_obs (snd (step repaired (run (step repaired) ops s) q)) = res_obs (snd (step repaired s q)).
Proof. exact answer_after_run. Qed.

(* non-vacuity: a sequence that fills an occupancy set, both distance caches and a light cycle's times, rebuilds the
   spatial index and draws with the intersections highlighted (the unions of their id sets are formed) — the state
   changes, the observation does not *)
Example C18_nonvacuous :
  run (step repaired) demo_ops demo <> demo /\
  observe (run (step repaired) demo_ops demo) = observe demo /\
  map o_pred (s_obst (run (step repaired) demo_ops demo)) = [PNone; PTraj [demo_state] (Some [1])] /\
  n_lanelets (s_net (run (step repaired) demo_ops demo)) = [ {| l_id := 7; l_dist := true; l_inner := true |} ] /\
  n_lights (s_net (run (step repaired) demo_ops demo)) = [ Some {| c_durs := [3; 4]; c_off := 2; c_cum := Some [2; 5; 9] |} ] /\
  trace (step repaired) demo_ops demo =
    [RUnit; RUnit; RCum [2; 5; 9]; RCopy (run (step repaired) [OccsAt 1; LaneletQ 0; LightAt 0 5] demo);
     RIds [7; 5; 3; 4; 9; 8; 6]; RFile demo_file; RFile demo_file].
Proof. exact demo_run. Qed.
Example C18_demo_inv : Inv demo.
Proof. exact demo_inv. Qed.

(* the two earlier versions of the code do not have the property (both repaired in /repo) *)
Theorem C18_unrepaired_occupancy_refuted :
  observe (fst (step old_occ demo (OccSet 1))) <> observe demo /\
  observe (fst (step old_occ demo (OccsAt 1))) <> observe demo /\
  observe (fst (step old_occ demo (Draw false [1%nat] [] []))) <> observe demo /\
  export (fst (step old_occ demo (OccAt 1 1))) =
    ([(11, []); (12, [(1, [Position; Velocity; VelocityY; Orientation], 41)])], [[[]; [7]]], demo_inters) /\
  export demo = demo_file.
Proof. exact old_occ_refuted. Qed.
Theorem C18_unrepaired_occupancy_changes_iff : forall sts, all_headed sts = true ->
  (fst (create_occ old_occ sts) = sts <-> forallb (has_attr Orientation) sts = true).
Proof. exact old_occ_changes_iff. Qed.
Theorem C18_unrepaired_protobuf_refuted :
  observe (fst (step old_pb demo PbWrite)) <> observe demo /\
  s_goals (fst (step old_pb demo PbWrite)) = [ {| g_n := 2; g_table := TDefault [(1, [7]); (0, [])] |} ] /\
  step old_pb (with_goals demo [ {| g_n := 2; g_table := TDict [(1, [7])] |} ]) PbWrite =
    (with_goals demo [ {| g_n := 2; g_table := TDict [(1, [7])] |} ], RErr KeyError).
Proof. exact old_pb_refuted. Qed.

Print Assumptions C18_step_observe.
Print Assumptions C18_run_observe.
Print Assumptions C18_states_observe.
Print Assumptions C18_export_observe.
Print Assumptions C18_export_unchanged.
Print Assumptions C18_write_after_run.
Print Assumptions C18_step_inv.
Print Assumptions C18_run_inv.
Print Assumptions C18_answers_alike.
Print Assumptions C18_answer_after_run.
Print Assumptions C18_nonvacuous.
Print Assumptions C18_demo_inv.
Print Assumptions C18_unrepaired_occupancy_refuted.
Print Assumptions C18_unrepaired_occupancy_changes_iff.
Print Assumptions C18_unrepaired_protobuf_refuted.
