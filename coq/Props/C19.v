(* Props/C19.v — property C19: rendering shows the model at the selected time; a parameter assigned on a group
   reaches every nested group that declares it.   Statements only; proofs are [exact <lemma>].
   Models: Model/DrawParams.v (parameter trees, BaseParam.__setattr__), Model/RenderSel.v (which occupancies
   MPRenderer draws), Model/RenderParams.v (which group each drawing function reads); tables Gen/Tables_C19.v
   regenerated from draw_params.py on every run.
   NOT a theorem (matplotlib is outside every model): totality of draw + render.  It is exercised by the
   correspondence run only; the property is therefore claimed partial. *)
From Coq Require Import ZArith String List Bool.
Import ListNotations.
From CR Require Import Model.DrawParams Model.RenderSel Model.RenderParams Gen.Tables_C19
                       Proofs.DrawParams Proofs.RenderSel Proofs.RenderParams.
From CR Require Import Model.DrawParamsSrc Gen.Src_drawparams Proofs.SrcDrawParams.
Open Scope string_scope.
Open Scope Z_scope.

(* ---- (a) assignment on a parameter group, for every tree, name, value, and every nested group ------------- *)
(* group.name = v : in every group below it (reached without passing through a field called name), a field called
   name holds v afterwards; a group that does not declare name still does not; every other field holds what it
   held, a nested group having received the assignment itself *)
Theorem C19_set_lookup : forall name v p n k, ~ In name p ->
  lookup (set name v n) p k =
  match lookup n p k with
  | None => None
  | Some x => Some (if String.eqb k name then v else push name v x)
  end.
Proof. exact set_lookup. Qed.

Theorem C19_set_reaches_every_declaring_group : forall name v p n old, ~ In name p ->
  lookup n p name = Some old -> lookup (set name v n) p name = Some v.
Proof. exact set_declared. Qed.

Theorem C19_set_creates_no_field : forall name v p n k, ~ In name p ->
  lookup n p k = None -> lookup (set name v n) p k = None.
Proof. exact set_undeclared. Qed.

Theorem C19_set_other_fields_unchanged : forall name v p n k x, ~ In name p -> k <> name ->
  lookup n p k = Some x -> is_group x = false -> lookup (set name v n) p k = Some x.
Proof. exact set_other_unchanged. Qed.

Theorem C19_set_keeps_groups : forall name v p n, ~ In name p ->
  subnode (set name v n) p = match subnode n p with Some m => Some (set name v m) | None => None end.
Proof. exact subnode_set. Qed.

(* assignment on a nested group q: inside q it is the assignment above, outside q nothing changes *)
Theorem C19_set_at_inside : forall q name v n m p k,
  subnode n q = Some m -> lookup (set_at q name v n) (q ++ p) k = lookup (set name v m) p k.
Proof. exact set_at_inside. Qed.

Theorem C19_set_at_outside : forall q name v p n k,
  untouched q p k = true -> lookup (set_at q name v n) p k = lookup n p k.
Proof. exact set_at_outside. Qed.

(* ---- side conditions on the tables generated from draw_params.py ------------------------------------------ *)
Theorem C19_tables_default_tree_conforms : conforms classes mp_default = true.
Proof. exact mp_default_conforms. Qed.
Theorem C19_tables_groups_ok : forallb (group_ok mp_default) (all_paths mp_default) = true.
Proof. exact mp_default_groups_ok. Qed.
Theorem C19_tables_no_self_nesting : no_self_nesting classes = true.
Proof. exact classes_no_self_nesting. Qed.
Theorem C19_tables_post_init_fixpoint : node_eqb (post_init mp_default) mp_default = true.
Proof. exact mp_default_post_init_fixpoint. Qed.

(* a time window assigned at the top level of MPDrawParams() is the window of every one of its groups *)
Theorem C19_window_reaches_every_group : forall tb te p, In p (all_paths mp_default) ->
  let t := set "time_end" (VZ te) (set "time_begin" (VZ tb) mp_default) in
  lookup t p "time_begin" = Some (VZ tb) /\ lookup t p "time_end" = Some (VZ te).
Proof. exact default_window_everywhere. Qed.

Example C19_window_nonvacuous :
  let t := set "time_end" (VZ 9) (set "time_begin" (VZ 4) mp_default) in
  lookup t ["dynamic_obstacle"; "vehicle_shape"; "occupancy"; "shape"] "time_begin" = Some (VZ 4) /\
  lookup t ["phantom_obstacle"] "time_end" = Some (VZ 9) /\
  lookup t ["dynamic_obstacle"] "draw_shape" = lookup mp_default ["dynamic_obstacle"] "draw_shape" /\
  lookup t [] "draw_shape" = None /\
  (40 <=? Z.of_nat (length (all_paths mp_default))) = true.
Proof. exact default_window_example. Qed.

(* ---- (b) which occupancies are drawn ----------------------------------------------------------------------- *)
(* shapes on; icons, extra occupancies, history off; one window tb <= te for every kind of obstacle; valid
   obstacles: the occupancy of obstacle i at time t is drawn iff the obstacle has it and t is the begin time step
   or the obstacle is a dynamic obstacle with a set-based prediction and tb < t < te *)
Theorem C19_drawn_occupancies : forall (A : Type) r (sc : list (obst A)) tb te,
  plain r = true -> window r tb te -> tb <= te -> forallb (@wf_obst A) sc = true ->
  forall i t a,
    In (IOcc i t, a) (drawn r sc) <->
    exists o, In o sc /\ o_id o = i /\ occ_at o t = Some a /\ named A o tb te t.
Proof. exact drawn_plain_occupancies. Qed.

(* ... and nothing else the model knows of, except the region of an uncertain initial position of an obstacle that
   is drawn *)
Theorem C19_drawn_nothing_else : forall (A : Type) r (sc : list (obst A)) tb te,
  plain r = true -> window r tb te -> tb <= te -> forallb (@wf_obst A) sc = true ->
  forall i a, In (i, a) (drawn r sc) ->
    match i with
    | IOcc _ _ => True
    | IUnc j => exists o, In o sc /\ o_id o = j /\ o_unc o = Some a /\ occ_at o tb <> None
    | IHist _ _ | IUncAt _ _ => False
    end.
Proof. exact drawn_plain_rest. Qed.

(* the setting of the statement, assigned on the tree MPDrawParams() constructs (window at the top level; shapes
   on, icons / extra occupancies / history off on their groups; no id filters): the renderer reads parameters
   that satisfy the hypotheses of the two theorems above *)
Theorem C19_plain_setting_readable : forall tb te, exists t hs hz,
  plain_setting tb te mp_default = Some t /\
  rparams_of t = Some (mkR (mkD tb te true false false false hs hz) tb (mkP tb te true false) tb None None).
Proof. exact plain_setting_rparams. Qed.
Theorem C19_plain_setting_is_plain : forall tb te t r,
  plain_setting tb te mp_default = Some t -> rparams_of t = Some r ->
  plain r = true /\ window r tb te /\ r_lanelet_ids r = None /\ r_pp_ids r = None.
Proof. exact plain_setting_plain. Qed.

(* lanelets / planning problems: all, or exactly the selected ids *)
Theorem C19_id_filter : forall ids sel i,
  In i (select_ids ids sel) <-> In i ids /\ match sel with None => True | Some s => In i s end.
Proof. exact select_ids_spec. Qed.

(* phantom obstacles show the later steps of the window only with occupancy.draw_occupancies on *)
Theorem C19_phantom_with_occupancies : forall (A : Type) (o : obst A) p, p_shape p = true -> p_occ p = true ->
  forall i a, In (i, a) (draw_phantom o p) <->
  exists t, i = IOcc (o_id o) t /\ occ_at o t = Some a /\ (t = p_tb p \/ p_tb p < t < p_te p).
Proof. exact draw_phantom_occ. Qed.

(* where the code (and so the model) leaves the statement *)
Theorem C19_inverted_window_refuted :
  wf_obst inv_obst = true /\ d_shape inv_params = true /\ d_icon inv_params = false /\
  d_occ inv_params = false /\ d_hist inv_params = false /\
  occ_at inv_obst (d_tb inv_params) = Some 105 /\
  ~ In (IOcc 7 (d_tb inv_params), 105) (draw_dynamic inv_obst inv_params).
Proof. exact inverted_window_refuted. Qed.

Theorem C19_phantom_later_steps_refuted :
  p_shape ph_params = true /\ p_occ ph_params = false /\
  occ_at ph_obst 2 = Some 202 /\ p_tb ph_params < 2 < p_te ph_params /\
  ~ In (IOcc 9 2, 202) (draw_phantom ph_obst ph_params) /\
  In (IOcc 9 1, 201) (draw_phantom ph_obst ph_params).
Proof. exact phantom_later_steps_refuted. Qed.

Example C19_drawn_nonvacuous :
  forallb (@wf_obst Z) demo_sc = true /\ plain (demo_params 2 5) = true /\
  map fst (drawn (demo_params 2 5) demo_sc) =
    [IOcc 1 2; IOcc 2 2; IOcc 3 2; IOcc 3 3; IOcc 3 4; IOcc 5 2; IOcc 6 2] /\
  map snd (drawn (demo_params 2 5) demo_sc) = [11; 22; 32; 33; 34; 52; 60].
Proof. exact demo_drawn. Qed.

(* ---- (a') the model of the assignment is the source (draw_params.py, BaseParam.__setattr__ / __post_init__) ---- *)
(* Gen/Src_drawparams.v holds the two method bodies as parsed on every run into the statement language of
   Model/DrawParamsSrc.v (harness/props/c19_src.py, fail-closed).  Run by that language's interpreter with enough
   fuel for the nesting depth, the parsed __setattr__ computes [set_attr] for every tree, name and admissible value,
   and the parsed __post_init__ computes [post_init] for every tree whose root declares the three base fields with
   scalar values (every generated class does: C19_tables_groups_ok). *)
Theorem C19_setattr_is_source : forall (f : nat) name v n,
  admissible name v = true -> (depth n + vdepth v <= f)%nat ->
  exec f src_setattr name v n = set_attr name v n.
Proof. exact src_setattr_is_set. Qed.

Theorem C19_post_init_is_source : forall (f : nat) n x1 x2 x3,
  field n "time_begin" = Some x1 -> field n "time_end" = Some x2 -> field n "antialiased" = Some x3 ->
  is_group x1 = false -> is_group x2 = false -> is_group x3 = false ->
  (depth n <= S f)%nat ->
  pexec f src_setattr false src_post_init n = Some (post_init n).
Proof. exact src_post_init_is_post_init. Qed.

(* the flag matters: before it is set an assignment stays in the group itself *)
Theorem C19_not_initialized_stays_local : forall name v n,
  sexec name v (fun _ => None) false canon_setattr n = Some (if declares n name then set_own name v n else n).
Proof. exact not_initialized_stays_local. Qed.

(* non-vacuity on the generated tree: fuel 8 suffices for MPDrawParams(), the parsed programs really run *)
Example C19_source_nonvacuous :
  (depth mp_default <= 8)%nat /\
  exec 8 src_setattr "time_begin" (VZ 7) mp_default = Some (set "time_begin" (VZ 7) mp_default) /\
  pexec 8 src_setattr false src_post_init mp_default = Some (post_init mp_default) /\
  exec 1 src_setattr "time_begin" (VZ 7) mp_default = None.
Proof. vm_compute. repeat split; try reflexivity. repeat constructor. Qed.

Print Assumptions C19_set_lookup.
Print Assumptions C19_set_reaches_every_declaring_group.
Print Assumptions C19_set_creates_no_field.
Print Assumptions C19_set_other_fields_unchanged.
Print Assumptions C19_set_keeps_groups.
Print Assumptions C19_set_at_inside.
Print Assumptions C19_set_at_outside.
Print Assumptions C19_tables_default_tree_conforms.
Print Assumptions C19_tables_groups_ok.
Print Assumptions C19_tables_no_self_nesting.
Print Assumptions C19_tables_post_init_fixpoint.
Print Assumptions C19_window_reaches_every_group.
Print Assumptions C19_window_nonvacuous.
Print Assumptions C19_drawn_occupancies.
Print Assumptions C19_drawn_nothing_else.
Print Assumptions C19_plain_setting_readable.
Print Assumptions C19_plain_setting_is_plain.
Print Assumptions C19_id_filter.
Print Assumptions C19_phantom_with_occupancies.
Print Assumptions C19_inverted_window_refuted.
Print Assumptions C19_phantom_later_steps_refuted.
Print Assumptions C19_drawn_nonvacuous.
Print Assumptions C19_setattr_is_source.
Print Assumptions C19_post_init_is_source.
Print Assumptions C19_not_initialized_stays_local.
Print Assumptions C19_source_nonvacuous.
