(* Props/C14.v — property C14: solution files round-trip exactly and follow the solution schema.
   Statements only; every proof is [exact <lemma of Proofs/...>].
   The tables (tables_C14) and the schema (xsd_root_type) are regenerated from the source on every run.
   Numeric leaves are an oracle pair (fstr = str(np.float64 x), fparse = float(text)) with the stated
   hypotheses; scenario ids and dates are oracle pairs as well. *)
From Coq Require Import String List ZArith Bool Permutation.
From CR Require Import Model.SolTypes Model.SolutionFmt Model.SolXsd Proofs.SolutionFmt Proofs.SolXsd
     Proofs.C14Tables Gen.Tables_C14 Gen.Xsd_solution.
Import ListNotations.
Open Scope string_scope.

(* field tables index-aligned, xml names pairwise distinct per type, "time" aligned with time_step, every
   type known to StateType / TrajectoryType / the reader's class table, every vehicle id parses back,
   the reader's classes are classified back to their type *)
Theorem C14_tables_aligned : tables_aligned tables_C14 = true.
Proof. exact tables_C14_aligned. Qed.

(* str(int) / int(text) *)
Theorem C14_int_text_roundtrip : forall z, zparse (ztext z) = Some z.
Proof. exact zparse_ztext. Qed.

(* benchmark id: parse . print = id *)
Theorem C14_benchmark_id_roundtrip : forall vids cids sid ver,
  vids <> [] -> cids <> [] ->
  (forall x, In x vids -> clean x = true) -> (forall x, In x cids -> clean x = true) ->
  has_char is_colon_space sid = false -> has_char is_colon_space ver = false ->
  parse_bid (benchmark_id vids cids sid ver) = Some (vids, cids, sid, ver).
Proof. exact parse_bid_benchmark_id. Qed.

Section Oracles.
  Variable F : Type.
  Variable fstr : F -> string.
  Variable fparse : string -> option F.
  Variable fpos : F -> bool.
  Variable zf : Z -> F.
  Hypothesis f_rt : forall x, fparse (fstr x) = Some x.            (* float(str(np.float64(x))) = x *)
  Hypothesis z_rt : forall z, fparse (ztext z) = Some (zf z).      (* float(str(int z)) *)

  (* one state node, every state type of the tables *)
  Theorem C14_state_roundtrip : forall ty st,
    In ty (type_names tables_C14) -> state_wt F tables_C14 ty st = true ->
    exists x xf cls attrs,
      zipped tables_C14 ty = Some xf /\ lookup ty (t_reader tables_C14) = Some (cls, attrs) /\
      write_state F fstr tables_C14 ty st = Some x /\
      read_state F fparse tables_C14 ty x = Some (attrs, proj_state F zf xf st).
  Proof.
    exact (fun ty st Hin => state_roundtrip F fstr fparse zf tables_C14 f_rt z_rt ty st
             (proj1 (proj2 (tab_parts tables_C14 tables_C14_aligned)) ty Hin)).
  Qed.

  (* one trajectory node: planning problem id, trajectory type, states sorted by time step *)
  Theorem C14_trajectory_roundtrip : forall p, pps_ok F tables_C14 p = true ->
    exists x cls attrs, lookup (p_ty _ p) (t_reader tables_C14) = Some (cls, attrs) /\
      write_traj F fstr tables_C14 p = Some x /\
      read_traj F fparse tables_C14 x =
        Some (p_id _ p, p_ty _ p, attrs, norm_states F zf tables_C14 (p_ty _ p) (p_states _ p)).
  Proof. exact (traj_roundtrip F fstr fparse zf tables_C14 f_rt z_rt tables_C14_aligned). Qed.

  (* read-back states: ascending in time, a permutation of what was written, and identical (order
     included) when the written time steps were ascending *)
  Theorem C14_states_ascending : forall ty sts,
    ascending (key_of F) (norm_states F zf tables_C14 ty sts).
  Proof. exact (norm_states_ascending F zf tables_C14). Qed.
  Theorem C14_states_permutation : forall ty sts,
    Permutation (map (proj_state F zf (xf_of tables_C14 ty)) sts) (norm_states F zf tables_C14 ty sts).
  Proof. exact (norm_states_perm F zf tables_C14). Qed.
  Theorem C14_states_unchanged_if_ascending : forall ty sts,
    ascending (key_of F) (map (proj_state F zf (xf_of tables_C14 ty)) sts) ->
    norm_states F zf tables_C14 ty sts = map (proj_state F zf (xf_of tables_C14 ty)) sts.
  Proof. exact (norm_states_id F zf tables_C14). Qed.

  Variable S : Type.
  Variable sid_str : S -> string.
  Variable sid_ver : S -> string.
  Variable sid_parse : string -> string -> option S.
  Variable D : Type.
  Variable dstr : D -> string.
  Variable dparse : string -> option D.
  Variable dtrunc : D -> D.
  Variable cpu : option string.
  Hypothesis sid_rt : forall i, sid_parse (sid_str i) (sid_ver i) = Some i.   (* C13 *)
  Hypothesis d_rt : forall d, dparse (dstr d) = Some (dtrunc d).              (* the date to the second *)
  Hypothesis fpos_zf : forall z, (0 < z)%Z -> fpos (zf z) = true.

  (* the whole document: benchmark id, planning-problem ids, vehicle model / type, cost function,
     trajectory types, states, computation time, date, processor name *)
  Theorem C14_solution_roundtrip : forall s : solution F S D,
    solution_ok F fpos S sid_str sid_ver D tables_C14 s = true ->
    exists x, write_solution F fstr S sid_str sid_ver D dstr cpu tables_C14 s = Some x /\
              read_solution F fparse fpos S sid_parse D dparse tables_C14 x
              = Some (norm_solution F zf tables_C14 S D dtrunc cpu s).
  Proof.
    exact (solution_roundtrip F fstr fparse fpos zf tables_C14 f_rt z_rt tables_C14_aligned S sid_str sid_ver
             sid_parse D dstr dparse dtrunc cpu sid_rt d_rt fpos_zf).
  Qed.

  (* schema conformance of the written tree, for documents whose trajectories are listed in schema order
     (seq_ordered also forces every trajectory type to be one the schema defines) and whose numeric texts
     are lexically xs:float / xs:int (the float-text oracle hypothesis, checked on every run) *)
  Theorem C14_written_document_valid : forall (s : solution F S D) x,
    solution_ok F fpos S sid_str sid_ver D tables_C14 s = true ->
    solution_lex_ok F fstr S D dstr tables_C14 s = true ->
    seq_ordered (root_els xsd_root_type) (traj_tags F S D tables_C14 s) = true ->
    write_solution F fstr S sid_str sid_ver D dstr cpu tables_C14 s = Some x ->
    validate_doc xsd_root_name xsd_root_type x = true.
  Proof.
    exact (written_valid F fstr fpos S sid_str sid_ver D dstr cpu tables_C14 xsd_root_name xsd_root_type
             tables_C14_conform tables_C14_aligned).
  Qed.
End Oracles.

(* the writer tables conform statically to the generated schema *)
Theorem C14_tables_conform_to_schema : conforms tables_C14 xsd_root_name xsd_root_type = true.
Proof. exact tables_C14_conform. Qed.

(* the reader's class table covers every state type the writer can emit *)
Theorem C14_reader_covers_writer : forall ty, In ty (type_names tables_C14) ->
  exists cls attrs, lookup ty (t_reader tables_C14) = Some (cls, attrs) /\
    forall vm, valid_vm tables_C14 ty vm = true -> get_state_type tables_C14 attrs vm = Some ty.
Proof. exact reader_covers. Qed.
Theorem C14_every_model_has_a_type :
  forallb (fun vm => mem (fst vm) (type_names tables_C14)) (t_vmodel tables_C14)
  && mem "Input" (type_names tables_C14) && mem "PMInput" (type_names tables_C14) = true.
Proof. exact every_model_has_a_type. Qed.

(* non-vacuity *)
Example C14_nonvacuous :
  solution_ok string (fun _ => true) (string * string) fst snd string tables_C14 ex_solution = true
  /\ solution_lex_ok string (fun s => s) (string * string) string (fun s => s) tables_C14 ex_solution = true
  /\ seq_ordered (root_els xsd_root_type) (traj_tags string (string * string) string tables_C14 ex_solution) = true
  /\ (exists x, write_solution string (fun s => s) (string * string) fst snd string (fun s => s) None tables_C14
                  ex_solution = Some x /\ validate_doc xsd_root_name xsd_root_type x = true).
Proof. exact nonvacuous. Qed.
Example C14_kst_covered : In "KST" (type_names tables_C14) /\ valid_vm tables_C14 "KST" "KST" = true.
Proof. exact kst_covered. Qed.

Print Assumptions C14_tables_aligned.
Print Assumptions C14_int_text_roundtrip.
Print Assumptions C14_benchmark_id_roundtrip.
Print Assumptions C14_state_roundtrip.
Print Assumptions C14_trajectory_roundtrip.
Print Assumptions C14_states_ascending.
Print Assumptions C14_states_permutation.
Print Assumptions C14_states_unchanged_if_ascending.
Print Assumptions C14_solution_roundtrip.
Print Assumptions C14_written_document_valid.
Print Assumptions C14_tables_conform_to_schema.
Print Assumptions C14_reader_covers_writer.
Print Assumptions C14_every_model_has_a_type.
Print Assumptions C14_nonvacuous.
Print Assumptions C14_kst_covered.
