(* Props/C17.v — property C17: the traffic-light state follows the cycle definition.
   Statements only; proofs are [exact <lemma of Proofs/TrafficLight.v or Proofs/SrcTrafficLight.v>].
   The theorems are about Model/TrafficLight.v; C17_model_is_source states that this model is the Gallina text
   generated on every run from commonroad/scenario/traffic_light.py by harness/vlib/py2coq.py. *)
From Coq Require Import ZArith List Bool.
From CR Require Import Model.TrafficLight Proofs.TrafficLight Gen.Src_traffic_light Proofs.SrcTrafficLight.
Import ListNotations.
Open Scope Z_scope.

(* for every non-empty cycle with positive durations, every offset and every integer t: the reported
   state is the colour of the element i whose window [prefix i, prefix i + d_i) contains (t - o) mod D *)
Theorem C17_state_in_window : forall els o t, els <> [] -> all_pos (map duration els) ->
  let ds := map duration els in
  let r := (t - o) mod (sum ds) in
  exists i : nat, (i < length els)%nat /\ prefix i ds <= r < prefix i ds + nth i ds 0 /\
                  state_at els o t = Some (colour (nth i els dflt)).
Proof. exact state_at_window. Qed.

(* each element covers exactly its [duration] consecutive residues, in the given order, and the
   windows partition [0, D): the index is determined by the window inequalities *)
Theorem C17_windows_partition : forall ds, all_pos ds -> forall r i, 0 <= r < sum ds -> (i < length ds)%nat ->
  (find_window r ds = i <-> prefix i ds <= r < prefix i ds + nth i ds 0).
Proof. exact window_iff. Qed.

(* periodic with the total duration, for every integer number of periods (also backwards) *)
Theorem C17_periodic : forall els o t k, els <> [] -> all_pos (map duration els) ->
  state_at els o (t + k * sum (map duration els)) = state_at els o t.
Proof. exact state_at_periodic. Qed.

(* TrafficLight.get_state_at_time_step agrees with its cycle *)
Theorem C17_light_agrees : forall els o t, light_state_at els o t = state_at els o t.
Proof. exact light_agrees. Qed.

(* non-vacuity: a three-phase cycle, offset 5, time step before the offset *)
Example C17_nonvacuous :
  let els := [ {| colour := 1; duration := 3 |}; {| colour := 2; duration := 1 |}; {| colour := 3; duration := 4 |} ] in
  els <> [] /\ all_pos (map duration els) /\ state_at els 5 2 = Some 3 /\ state_at els 5 5 = Some 1 /\
  state_at els 5 8 = Some 2 /\ state_at els 5 (-3) = Some 1.
Proof.
  simpl. split; [discriminate|]. split; [repeat constructor|]. repeat split; vm_compute; reflexivity.
Qed.

(* the model IS the translated source: cycle_init_timesteps, TrafficLightCycle.get_state_at_time_step (an exception
   of the source = None of the model) and TrafficLight.get_state_at_time_step *)
Theorem C17_model_is_source : forall c l t,
  src_init_steps c = init_steps (c_offset c) (map duration (c_elements c)) /\
  src_state_at c t = res_of_option (state_at (c_elements c) (c_offset c) t) /\
  src_light_state_at l t = res_of_option (light_state_at (c_elements (l_cycle l)) (c_offset (l_cycle l)) t).
Proof. exact (fun c l t => conj (src_init_steps_eq c) (conj (src_state_at_eq c t) (src_light_state_at_eq l t))). Qed.

Print Assumptions C17_state_in_window.
Print Assumptions C17_windows_partition.
Print Assumptions C17_periodic.
Print Assumptions C17_light_agrees.
Print Assumptions C17_nonvacuous.
Print Assumptions C17_model_is_source.
