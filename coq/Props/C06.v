(* Props/C06.v — property C06: spatial lookups agree with the geometry they index.
   Statements only; every proof is [exact <lemma of Proofs/Spatial.v>].
   PARTIAL: (1) the polygon / polygon and polygon / disc intersection test of find_lanelet_by_shape is
   an arbitrary predicate [meets] in the theorems (GEOS; Model.Spatial.prim_meets_ring is validated
   against it by correspondence only); (2) that the crossing-number test [pip] and the half-plane
   test agree on a rotated rectangle is proved for orientation 0 only (C06_rect_box_axis), for other
   rotations the box theorem is about the half-plane test (C06_rect_box_convex) and the agreement
   of the two tests is evaluated on every generated rectangle case (Corr.C06.check, CRect);
   (3) [pip] = GEOS on simple rings is correspondence only. *)
From Coq Require Import QArith ZArith NArith Bool List.
From CR Require Import Base.QMod Model.Spatial Proofs.Spatial.
From CR Require Model.CacheTable Gen.Src_cachetable Proofs.SrcCacheTable.
From CR Require Import Model.ShapeCache Proofs.ShapeCache.
Import ListNotations.
Open Scope Q_scope.

(* for every construction route / add / remove history the index mirrors the current lanelets:
   _buffered_polygons, the tree geometries and the id(polygon) -> id map list exactly the current
   lanelets with their current polygons *)
Theorem C06_index_mirrors_lanelets : forall ops, all_ok ops empty = true -> Mirror (run ops empty).
Proof. exact index_mirrors_lanelets_lemma. Qed.

(* on a mirrored index every lookup is the brute-force scan with the same predicate: no exception,
   no lanelet omitted, none mis-mapped *)
Theorem C06_lookup_is_scan : forall s pred, Mirror s -> find_by s pred = Ret (scan s pred).
Proof. exact find_by_scan. Qed.

Theorem C06_find_by_position : forall ops p, all_ok ops empty = true ->
  exists ids, find_by_position (run ops empty) p = Ret ids /\
    forall i, In i ids <-> exists la, In la (lanelets (run ops empty)) /\ lid la = i /\ pip (pr (lpoly la)) p = true.
Proof. exact find_by_position_spec. Qed.

Theorem C06_find_by_shape_partial : forall ops meets, all_ok ops empty = true ->
  exists ids, find_by_shape (run ops empty) meets = Ret ids /\
    forall i, In i ids <-> exists la, In la (lanelets (run ops empty)) /\ lid la = i /\ meets (pr (lpoly la)) = true.
Proof. exact find_by_shape_spec. Qed.

(* point tests *)
Theorem C06_on_segment : forall a b p, on_seg a b p = true <-> cross a b p == 0 /\ dotp a b p <= 0.
Proof. exact on_seg_spec. Qed.
Theorem C06_boundary_inclusive : forall r a b p, In (a, b) (edges r) -> on_seg a b p = true -> pip r p = true.
Proof. exact pip_on_edge. Qed.
Theorem C06_polygon_sound : forall r p, poly_contains r p = true -> pip r p = true.
Proof. exact poly_contains_pip. Qed.

(* circle: the containment test is the disc of the radius ... *)
Theorem C06_circle : forall C p,
  circ_contains C p = true <-> in_disc (ccx C) (ccy C) (cr C) p.
Proof. exact circ_contains_spec. Qed.
(* ... but the exported geometry (Circle.shapely_object, which find_lanelet_by_shape / get_obstacles /
   map_obstacles_to_lanelets intersect with) is the disc of HALF the radius: the property's "exported geometry
   describes the same planar set" is refuted for every circle with radius <> 0 (recorded finding
   Circle.shapely_object:radius; not repairable: the unedited test suite pins the resulting lanelet sets) *)
Theorem C06_circle_export_half : forall C, circ_export_radius C == cr C / 2.
Proof. exact circ_export_radius_half. Qed.
Theorem C06_circle_export_refuted :
  exists C p, circ_contains C p = true /\ ~ in_disc (ccx C) (ccy C) (circ_export_radius C) p.
Proof. exact circ_export_refuted. Qed.
Theorem C06_circle_export_agrees_iff_degenerate : forall C, circ_export_radius C == cr C <-> cr C == 0.
Proof. exact circ_export_is_radius_iff. Qed.

(* rectangle: the exported corners describe the l-by-w box at the pose *)
Theorem C06_rect_box_convex : forall l w tx ty cs sn, cs * cs + sn * sn == 1 -> 0 < l -> 0 < w ->
  forall p, let R := {| rl := l; rw := w; rcx := tx; rcy := ty; rcs := cs; rsn := sn |} in
  inside_cw (corners R) p = true <-> in_box R p.
Proof. exact rect_box_convex_lemma. Qed.
Theorem C06_rect_box_axis : forall l w tx ty p, 0 < l -> 0 < w ->
  let R := {| rl := l; rw := w; rcx := tx; rcy := ty; rcs := 1; rsn := 0 |} in
  rect_contains R p = true <-> in_box R p.
Proof. exact rect_box_axis_lemma. Qed.

(* shape group = union *)
Theorem C06_group_union : forall ss p,
  shape_contains (Group ss) p = true <-> exists s, In s ss /\ prim_contains s p = true.
Proof. exact group_union. Qed.

(* non-vacuity: a history through every route; a rotated box with rational cos / sin *)
Example C06_nonvacuous :
  let sq (i : Z) (h : N) (x : Q) := {| lid := i; lpoly := {| ph := h; pr := [(x, 0); (x + 10, 0); (x + 10, 3); (x, 3)] |} |} in
  let ops := [OFromList [sq 1%Z 1%N 0; sq 2%Z 2%N 10]; OAdd (sq 3%Z 3%N 20); ODeepcopy (N.add 10%N);
              ORemove 2%Z; OPickle (N.add 100%N); OAddFrom [sq 4%Z 4%N 5]; ODeepcopySelf] in
  all_ok ops empty = true /\
  find_by_position (run ops empty) (10, 3) = Ret [1%Z; 4%Z] /\
  find_by_position (run ops empty) (20, 1) = Ret [3%Z] /\
  (let R := {| rl := 4; rw := 2; rcx := 1; rcy := 1; rcs := 3 # 5; rsn := 4 # 5 |} in
   rcs R * rcs R + rsn R * rsn R == 1 /\ inside_cw (corners R) (1, 1) = true /\
   rect_contains R (1, 1) = true /\ rect_contains R (3, 1) = false /\ inside_cw (corners R) (3, 1) = false).
Proof. vm_compute. repeat split; congruence. Qed.

(* ---- shapes that were queried and then changed through their public setters (Model/ShapeCache.v) ----------------
   The geometry a Rectangle / Circle / Polygon caches is what recomputation from its CURRENT length, width, center,
   orientation / radius, center / vertices gives, after every history of setters and queries on a constructed
   object, and every query answers like the object freshly constructed from the current values - so the set an
   object denotes is the one the theorems above describe for its current values.  Geometry abstract; [true] selects
   the repaired setters (fix: 26019d9, f1d0f2d, 81f16ab), [false] the setters as found, for which both statements
   are refuted. *)
Section ShapeSetters.
  Variables num pt verts geom : Type.
  Variable rect_verts : num -> num -> pt -> num -> verts.
  Variable poly_geom : verts -> geom.
  Variable circ_geom : num -> pt -> geom.
  Variable box_of : verts -> verts.

  Theorem C06_rectangle_setters_coherent : forall l w c o ops,
    r_coherent num pt verts geom rect_verts poly_geom
      (rrun num pt verts geom rect_verts poly_geom true (rect_new num pt verts geom l w c o) ops).
  Proof.
    exact (fun l w c o ops => rrun_coherent num pt verts geom rect_verts poly_geom ops _
                                (rect_new_coherent num pt verts geom rect_verts poly_geom l w c o)).
  Qed.
  Theorem C06_rectangle_history_answers_as_fresh : forall l w c o ops q,
    let r := rrun num pt verts geom rect_verts poly_geom true (rect_new num pt verts geom l w c o) ops in
    snd (rstep num pt verts geom rect_verts poly_geom true r q)
    = snd (rstep num pt verts geom rect_verts poly_geom true (r_rebuilt num pt verts geom r) q).
  Proof. exact (rect_history_answers num pt verts geom rect_verts poly_geom). Qed.

  Theorem C06_circle_setters_coherent : forall r c ops,
    c_coherent num pt geom circ_geom (crun num pt geom circ_geom true (circ_new num pt geom r c) ops).
  Proof.
    exact (fun r c ops => crun_coherent num pt geom circ_geom ops _ (circ_new_coherent num pt geom circ_geom r c)).
  Qed.
  Theorem C06_circle_history_answers_as_fresh : forall r c ops q,
    let s := crun num pt geom circ_geom true (circ_new num pt geom r c) ops in
    snd (cstep num pt geom circ_geom true s q) = snd (cstep num pt geom circ_geom true (c_rebuilt num pt geom s) q).
  Proof.
    exact (fun r c ops q => cstep_answers_like_rebuilt num pt geom circ_geom _ q
             (crun_coherent num pt geom circ_geom ops _ (circ_new_coherent num pt geom circ_geom r c))).
  Qed.

  Theorem C06_polygon_setter_coherent : forall v ops,
    p_coherent verts geom poly_geom box_of (prun verts geom poly_geom box_of true (poly_new verts geom poly_geom box_of v) ops).
  Proof.
    exact (fun v ops => prun_coherent verts geom poly_geom box_of ops _ (poly_new_coherent verts geom poly_geom box_of v)).
  Qed.
  Theorem C06_polygon_history_answers_as_fresh : forall v ops q,
    let s := prun verts geom poly_geom box_of true (poly_new verts geom poly_geom box_of v) ops in
    snd (pstep verts geom poly_geom box_of true s q)
    = snd (pstep verts geom poly_geom box_of true (poly_new verts geom poly_geom box_of (p_v verts geom s)) q).
  Proof.
    exact (fun v ops q => pstep_answers_like_rebuilt verts geom poly_geom box_of _ q
             (prun_coherent verts geom poly_geom box_of ops _ (poly_new_coherent verts geom poly_geom box_of v))).
  Qed.
End ShapeSetters.

(* the setters as they were found: query, then assign - the cache is stale and the next answer is the old one *)
Local Close Scope Q_scope.
Local Open Scope nat_scope.
Theorem C06_rectangle_setters_unrepaired_refuted :
  let r := rrun nat nat nat nat tok_verts tok_geom false (rect_new nat nat nat nat 4 2 0 0) [RQGeom; RSetL 10] in
  ~ r_coherent nat nat nat nat tok_verts tok_geom r /\
  snd (rstep nat nat nat nat tok_verts tok_geom false r RQVerts) = RVerts 6 /\
  snd (rstep nat nat nat nat tok_verts tok_geom false (r_rebuilt nat nat nat nat r) RQVerts) = RVerts 12.
Proof. exact rect_unrepaired_refuted. Qed.
Theorem C06_circle_setters_unrepaired_refuted :
  let s := crun nat nat nat tok_circ false (circ_new nat nat nat 1 0) [CQGeom; CSetR 5] in
  ~ c_coherent nat nat nat tok_circ s /\
  snd (cstep nat nat nat tok_circ false s CQGeom) = Some 1 /\
  snd (cstep nat nat nat tok_circ false (c_rebuilt nat nat nat s) CQGeom) = Some 5.
Proof. exact circ_unrepaired_refuted. Qed.
Theorem C06_polygon_setter_unrepaired_refuted :
  let s := prun nat nat tok_geom (fun v => v) false (poly_new nat nat tok_geom (fun v => v) 3) [PSetV 8] in
  ~ p_coherent nat nat tok_geom (fun v => v) s /\
  snd (pstep nat nat tok_geom (fun v => v) false s PQGeom) = Some 3 /\ p_box nat nat s = 8.
Proof. exact poly_unrepaired_refuted. Qed.
Example C06_setters_nonvacuous :
  let r := rrun nat nat nat nat tok_verts tok_geom true (rect_new nat nat nat nat 4 2 0 0) [RQGeom] in
  r_verts nat nat nat nat r = Some 6 /\ r_geom nat nat nat nat r = Some 6 /\
  r_verts nat nat nat nat (fst (rstep nat nat nat nat tok_verts tok_geom true r (RSetL 10))) = None /\
  snd (rstep nat nat nat nat tok_verts tok_geom true
         (rrun nat nat nat nat tok_verts tok_geom true r [RSetL 10]) RQVerts) = RVerts 12.
Proof. exact rect_repaired_example. Qed.

(* ---- the invalidation logic is the source's.  The effects each public setter of Rectangle / Circle / Polygon has on the
   derived attributes are parsed from geometry/shape.py on every run (Gen/Src_cachetable.v: store, drop, rebuild, in
   order; the dependency lists are the attributes the filling code reads).  [class_statement] (Proofs/SrcCacheTable.v):
   for every way of deriving values that reads only those attributes, every history of calls of the parsed setters and of
   queries, from a coherent object, ends coherent, and every query then answers what the object freshly built from the
   current attributes answers. *)
Theorem C06_rectangle_setters_are_source : SrcCacheTable.class_statement Src_cachetable.src_rectangle_caches Src_cachetable.src_rectangle_deps Src_cachetable.src_rectangle_setters.
Proof. exact SrcCacheTable.src_rectangle_coherent. Qed.
Theorem C06_circle_setters_are_source : SrcCacheTable.class_statement Src_cachetable.src_circle_caches Src_cachetable.src_circle_deps Src_cachetable.src_circle_setters.
Proof. exact SrcCacheTable.src_circle_coherent. Qed.
Theorem C06_polygon_setters_are_source : SrcCacheTable.class_statement Src_cachetable.src_polygon_caches Src_cachetable.src_polygon_deps Src_cachetable.src_polygon_setters.
Proof. exact SrcCacheTable.src_polygon_coherent. Qed.
Example C06_setter_tables_nonvacuous :
  length Src_cachetable.src_rectangle_setters = 4 /\ length Src_cachetable.src_circle_setters = 2 /\ length Src_cachetable.src_polygon_setters = 1 /\
  CacheTable.setter_ok Src_cachetable.src_rectangle_caches Src_cachetable.src_rectangle_deps {| CacheTable.s_attr := 0; CacheTable.s_main := [CacheTable.EStore]; CacheTable.s_tail := [] |} = false.
Proof. vm_compute. repeat split; reflexivity. Qed.

Print Assumptions C06_index_mirrors_lanelets.
Print Assumptions C06_lookup_is_scan.
Print Assumptions C06_find_by_position.
Print Assumptions C06_find_by_shape_partial.
Print Assumptions C06_on_segment.
Print Assumptions C06_boundary_inclusive.
Print Assumptions C06_polygon_sound.
Print Assumptions C06_circle.
Print Assumptions C06_circle_export_half.
Print Assumptions C06_circle_export_refuted.
Print Assumptions C06_circle_export_agrees_iff_degenerate.
Print Assumptions C06_rect_box_convex.
Print Assumptions C06_rect_box_axis.
Print Assumptions C06_group_union.
Print Assumptions C06_nonvacuous.
Print Assumptions C06_rectangle_setters_coherent.
Print Assumptions C06_rectangle_history_answers_as_fresh.
Print Assumptions C06_circle_setters_coherent.
Print Assumptions C06_circle_history_answers_as_fresh.
Print Assumptions C06_polygon_setter_coherent.
Print Assumptions C06_polygon_history_answers_as_fresh.
Print Assumptions C06_rectangle_setters_unrepaired_refuted.
Print Assumptions C06_circle_setters_unrepaired_refuted.
Print Assumptions C06_polygon_setter_unrepaired_refuted.
Print Assumptions C06_setters_nonvacuous.
Print Assumptions C06_rectangle_setters_are_source.
Print Assumptions C06_circle_setters_are_source.
Print Assumptions C06_polygon_setters_are_source.
Print Assumptions C06_setter_tables_nonvacuous.
