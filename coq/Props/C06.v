(* Props/C06.v — property C06: spatial lookups agree with the geometry they index.
   Statements only; every proof is [exact <lemma of Proofs/Spatial.v>].
   PARTIAL: (1) the polygon / polygon and polygon / disc intersection test of find_lanelet_by_shape is
   an arbitrary predicate [meets] in the theorems (GEOS; Model.Spatial.prim_meets_ring is validated
   against it by correspondence only); (2) that the crossing-number test [pip] and the half-plane
   test agree on a rotated rectangle is proved for orientation 0 only (C06_rect_box_axis), for other
   rotations the box theorem is about the half-plane test (C06_rect_box_convex) and the agreement
   of the two tests is evaluated on every generated rectangle case (Corr.C06.check, CRect);
   (3) [pip] = GEOS on simple rings is correspondence only. *)
From Coq Require Import QArith ZArith NArith Bool List.
From CR Require Import Base.QMod Model.Spatial Proofs.Spatial.
Import ListNotations.
Open Scope Q_scope.

(* for every construction route / add / remove history the index mirrors the current lanelets:
   _buffered_polygons, the tree geometries and the id(polygon) -> id map list exactly the current
   lanelets with their current polygons *)
Theorem C06_index_mirrors_lanelets : forall ops, all_ok ops empty = true -> Mirror (run ops empty).
Proof. exact index_mirrors_lanelets_lemma. Qed.

(* on a mirrored index every lookup is the brute-force scan with the same predicate: no exception,
   no lanelet omitted, none mis-mapped *)
Theorem C06_lookup_is_scan : forall s pred, Mirror s -> find_by s pred = Ret (scan s pred).
Proof. exact find_by_scan. Qed.

Theorem C06_find_by_position : forall ops p, all_ok ops empty = true ->
  exists ids, find_by_position (run ops empty) p = Ret ids /\
    forall i, In i ids <-> exists la, In la (lanelets (run ops empty)) /\ lid la = i /\ pip (pr (lpoly la)) p = true.
Proof. exact find_by_position_spec. Qed.

Theorem C06_find_by_shape_partial : forall ops meets, all_ok ops empty = true ->
  exists ids, find_by_shape (run ops empty) meets = Ret ids /\
    forall i, In i ids <-> exists la, In la (lanelets (run ops empty)) /\ lid la = i /\ meets (pr (lpoly la)) = true.
Proof. exact find_by_shape_spec. Qed.

(* point tests *)
Theorem C06_on_segment : forall a b p, on_seg a b p = true <-> cross a b p == 0 /\ dotp a b p <= 0.
Proof. exact on_seg_spec. Qed.
Theorem C06_boundary_inclusive : forall r a b p, In (a, b) (edges r) -> on_seg a b p = true -> pip r p = true.
Proof. exact pip_on_edge. Qed.
Theorem C06_polygon_sound : forall r p, poly_contains r p = true -> pip r p = true.
Proof. exact poly_contains_pip. Qed.

(* circle: the containment test is the disc of the radius ... *)
Theorem C06_circle : forall C p,
  circ_contains C p = true <-> in_disc (ccx C) (ccy C) (cr C) p.
Proof. exact circ_contains_spec. Qed.
(* ... but the exported geometry (Circle.shapely_object, which find_lanelet_by_shape / get_obstacles /
   map_obstacles_to_lanelets intersect with) is the disc of HALF the radius: the property's "exported geometry
   describes the same planar set" is refuted for every circle with radius <> 0 (recorded finding
   Circle.shapely_object:radius; not repairable: the unedited test suite pins the resulting lanelet sets) *)
Theorem C06_circle_export_half : forall C, circ_export_radius C == cr C / 2.
Proof. exact circ_export_radius_half. Qed.
Theorem C06_circle_export_refuted :
  exists C p, circ_contains C p = true /\ ~ in_disc (ccx C) (ccy C) (circ_export_radius C) p.
Proof. exact circ_export_refuted. Qed.
Theorem C06_circle_export_agrees_iff_degenerate : forall C, circ_export_radius C == cr C <-> cr C == 0.
Proof. exact circ_export_is_radius_iff. Qed.

(* rectangle: the exported corners describe the l-by-w box at the pose *)
Theorem C06_rect_box_convex : forall l w tx ty cs sn, cs * cs + sn * sn == 1 -> 0 < l -> 0 < w ->
  forall p, let R := {| rl := l; rw := w; rcx := tx; rcy := ty; rcs := cs; rsn := sn |} in
  inside_cw (corners R) p = true <-> in_box R p.
Proof. exact rect_box_convex_lemma. Qed.
Theorem C06_rect_box_axis : forall l w tx ty p, 0 < l -> 0 < w ->
  let R := {| rl := l; rw := w; rcx := tx; rcy := ty; rcs := 1; rsn := 0 |} in
  rect_contains R p = true <-> in_box R p.
Proof. exact rect_box_axis_lemma. Qed.

(* shape group = union *)
Theorem C06_group_union : forall ss p,
  shape_contains (Group ss) p = true <-> exists s, In s ss /\ prim_contains s p = true.
Proof. exact group_union. Qed.

(* non-vacuity: a history through every route; a rotated box with rational cos / sin *)
Example C06_nonvacuous :
  let sq (i : Z) (h : N) (x : Q) := {| lid := i; lpoly := {| ph := h; pr := [(x, 0); (x + 10, 0); (x + 10, 3); (x, 3)] |} |} in
  let ops := [OFromList [sq 1%Z 1%N 0; sq 2%Z 2%N 10]; OAdd (sq 3%Z 3%N 20); ODeepcopy (N.add 10%N);
              ORemove 2%Z; OPickle (N.add 100%N); OAddFrom [sq 4%Z 4%N 5]; ODeepcopySelf] in
  all_ok ops empty = true /\
  find_by_position (run ops empty) (10, 3) = Ret [1%Z; 4%Z] /\
  find_by_position (run ops empty) (20, 1) = Ret [3%Z] /\
  (let R := {| rl := 4; rw := 2; rcx := 1; rcy := 1; rcs := 3 # 5; rsn := 4 # 5 |} in
   rcs R * rcs R + rsn R * rsn R == 1 /\ inside_cw (corners R) (1, 1) = true /\
   rect_contains R (1, 1) = true /\ rect_contains R (3, 1) = false /\ inside_cw (corners R) (3, 1) = false).
Proof. vm_compute. repeat split; congruence. Qed.

Print Assumptions C06_index_mirrors_lanelets.
Print Assumptions C06_lookup_is_scan.
Print Assumptions C06_find_by_position.
Print Assumptions C06_find_by_shape_partial.
Print Assumptions C06_on_segment.
Print Assumptions C06_boundary_inclusive.
Print Assumptions C06_polygon_sound.
Print Assumptions C06_circle.
Print Assumptions C06_circle_export_half.
Print Assumptions C06_circle_export_refuted.
Print Assumptions C06_circle_export_agrees_iff_degenerate.
Print Assumptions C06_rect_box_convex.
Print Assumptions C06_rect_box_axis.
Print Assumptions C06_group_union.
Print Assumptions C06_nonvacuous.
