(* Props/C01.v — property C01: XML write -> read reproduces scenario and planning problems.
   Statements only.  The XML format is data: tables W (what the writer emits) and R (what the reader looks
   up) are GENERATED into Gen/XmlFmt.v on every run and tied to the real writer / reader by the
   correspondence relations of Corr/C01.v. *)
From Coq Require Import QArith Qabs ZArith String List Bool.
From CR Require Import Model.Codec Model.DecStr Model.WriterPrec Gen.XmlFmt Proofs.Codec Proofs.DecStr Proofs.XmlFmt
  Proofs.WriterPrec.
Import ListNotations.
Open Scope string_scope.
Open Scope list_scope.

(* generic: for every well-formed table, every value and every tag, reading what was written gives the
   value back - nothing dropped, duplicated, re-ordered or altered, unset stays unset *)
Theorem C01_generic_roundtrip : forall f, wf f = true ->
  forall tag v t, write f tag v = Some t -> read f t = Some v.
Proof. exact roundtrip. Qed.

Theorem C01_generic_injective : forall f, wf f = true -> forall tag v1 v2 t,
  write f tag v1 = Some t -> write f tag v2 = Some t -> v1 = v2.
Proof. exact write_injective. Qed.

(* the generated tables satisfy the side condition (tags within one element pairwise distinct) *)
Theorem C01_writer_table_wf : wf W.xml_root = true.
Proof. exact writer_table_wf. Qed.
Theorem C01_reader_table_wf : wf R.xml_root = true.
Proof. exact reader_table_wf. Qed.

(* whole documents, reader modelled by the writer's table *)
Theorem C01_document_roundtrip : forall v t,
  write W.xml_root "commonRoad" v = Some t -> read W.xml_root t = Some v.
Proof. exact document_roundtrip. Qed.

(* the table of what the real reader looks up differs from the writer's at exactly one field ... *)
Theorem C01_reader_deviation : fmt_diff W.xml_root R.xml_root = [["trafficSign"; "virtual"]].
Proof. exact reader_deviation. Qed.
(* ... where the property is refuted (known finding, kept visible): *)
Theorem C01_virtual_refuted : exists t, write W.f_trafficSign "trafficSign" virtual_sign = Some t /\
  read R.f_trafficSign t <> Some virtual_sign /\
  read R.f_trafficSign t = Some (VRec [VAtom (AInt 7); VList []; VNone; VNone]).
Proof. exact virtual_refuted. Qed.

(* partial form of the document theorem with the reader's own table: every top-level element kind
   other than trafficSign is read with the table it was written with, hence round-trips *)
Theorem C01_shared_formats_partial :
  fmt_diff W.f_lanelet R.f_lanelet = [] /\ fmt_diff W.f_trafficLight R.f_trafficLight = [] /\
  fmt_diff W.f_intersection R.f_intersection = [] /\ fmt_diff W.f_staticObstacle R.f_staticObstacle = [] /\
  fmt_diff W.f_dynamicObstacle R.f_dynamicObstacle = [] /\ fmt_diff W.f_phantomObstacle R.f_phantomObstacle = [] /\
  fmt_diff W.f_environmentObstacle R.f_environmentObstacle = [] /\
  fmt_diff W.f_planningProblem R.f_planningProblem = [] /\ fmt_diff W.f_location R.f_location = [] /\
  fmt_diff W.f_scenarioTags R.f_scenarioTags = [].
Proof. exact shared_formats. Qed.
Theorem C01_shared_roundtrip : forall w r, fmt_diff w r = [] -> wf w = true ->
  forall tag v t, write w tag v = Some t -> read r t = Some v.
Proof. exact shared_roundtrip. Qed.

(* numeric leaves: float_to_str with precision d changes the number denoted by str(x) by less than 10^-d
   and keeps plain decimal notation *)
Theorem C01_float_to_str_error : forall d x, digits_ok (fp x) = true ->
  (Qabs (dval (float_to_str d x) - dval x) < 1 / pow10 d)%Q.
Proof. exact float_to_str_error. Qed.

(* "d being the writer's decimal precision", in a process where any number of writers exist: after ANY history h of
   constructions and writes of any writers (XML or protobuf, any precisions) from ANY world s0, a write of writer w by
   EITHER write method is built with the precision d of w's latest construction and leaves the global at d ... *)
Theorem C01_write_uses_own_precision : forall s0 h w d a,
  latest w h = Some (KXml, d) ->
  let r := exec (run s0 h) (Write w a) in snd r = OWrote d /\ glob (fst r) = d.
Proof. exact write_uses_own_precision. Qed.
(* ... so every numeric leaf of that file is within 10^-d of the number str(x) denotes *)
Theorem C01_write_leaf_error : forall s0 h w d a x t,
  latest w h = Some (KXml, d) -> digits_ok (fp x) = true ->
  leaf (snd (exec (run s0 h) (Write w a))) x = Some t ->
  (Qabs (dval t - dval x) < 1 / pow10 d)%Q.
Proof. exact write_leaf_error. Qed.
Theorem C01_write_history_independent : forall s0 s0' h h' w d a,
  latest w h = Some (KXml, d) -> latest w h' = Some (KXml, d) ->
  snd (exec (run s0 h) (Write w a)) = snd (exec (run s0' h') (Write w a)).
Proof. exact write_history_independent. Qed.
(* without the re-assertion statement in write_scenario_to_file (or in neither method = the code as found before
   df37eef) a 9-decimal writer builds its file with the 2 decimals of a writer constructed after it *)
Theorem C01_stale_precision_refuted :
  trace_gen only_to_file (world0 4) h_stale = [(9, ONew); (2, ONew); (2, OWrote 2); (9, OWrote 9)]%nat /\
  trace_gen as_found (world0 4) h_stale = [(9, ONew); (2, ONew); (2, OWrote 2); (2, OWrote 2)]%nat /\
  trace (world0 4) h_stale = [(9, ONew); (2, ONew); (9, OWrote 9); (9, OWrote 9)]%nat.
Proof. exact stale_precision_refuted. Qed.

(* non-vacuity: a concrete rectangle value is written and read back by the generated tables *)
Example C01_nonvacuous :
  let v := VRec [VAtom (ANum (2#1)); VAtom (ANum (1#1)); VSome (VAtom (ANum (1#2)));
                 VSome (VRec [VAtom (ANum (3#1)); VAtom (ANum (4#1))])] in
  exists t, write W.f_rectangle "rectangle" v = Some t /\ read R.f_rectangle t = Some v.
Proof. eexists. split; vm_compute; reflexivity. Qed.

Print Assumptions C01_generic_roundtrip.
Print Assumptions C01_generic_injective.
Print Assumptions C01_writer_table_wf.
Print Assumptions C01_reader_table_wf.
Print Assumptions C01_document_roundtrip.
Print Assumptions C01_reader_deviation.
Print Assumptions C01_virtual_refuted.
Print Assumptions C01_shared_formats_partial.
Print Assumptions C01_shared_roundtrip.
Print Assumptions C01_float_to_str_error.
Print Assumptions C01_write_uses_own_precision.
Print Assumptions C01_write_leaf_error.
Print Assumptions C01_write_history_independent.
Print Assumptions C01_stale_precision_refuted.
Print Assumptions C01_nonvacuous.
