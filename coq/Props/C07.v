(* Props/C07.v — property C07: obstacle / lanelet assignment is correct and invertible.
   Statements only; every proof is [exact <lemma of Proofs/Assign.v>].
   Geometry enters through the two oracles of the world ([cin] = find_lanelet_by_position, [sm] =
   find_lanelet_by_shape on the occupancy); that these agree with the geometry is C06. *)
From Coq Require Import ZArith Bool List.
From CR Require Import Model.Assign Proofs.Assign.
From CR Require Import Model.AssignSrc Gen.Src_assign Proofs.SrcAssign.
Import ListNotations.
Open Scope Z_scope.

(* every history of add / remove / assign (any time_steps, obstacle_ids) / read-with-assignment / open-without-
   assignment in
   which assign is used with use_center_only=False: the registries are exactly the inverse of the stored
   shape assignment, restricted to the obstacles the scenario contains *)
Theorem C07_registries_inverse : forall W ops,
  all_ok W ops init = true -> forallb default_mode ops = true -> Inverse W (run W ops init).
Proof. exact reachable_inverse. Qed.

(* every history, use_center_only=True included: a registry entry names a contained obstacle and a
   lanelet of its stored shape or centre assignment; every stored shape lanelet is registered *)
Theorem C07_registries_consistent : forall W ops,
  all_ok W ops init = true -> Consistent W (run W ops init).
Proof. exact reachable_consistent. Qed.

(* whatever is stored is what the lookups return for the obstacle's centre / occupancy *)
Theorem C07_stored_is_lookup : forall W ops, all_ok W ops init = true ->
  let s := run W ops init in
  (forall o ids, ish s o = Some ids -> ids = sm W o (t0 W o)) /\
  (forall o ids, ic s o = Some ids -> ids = cin W o (t0 W o)) /\
  (forall o d t ids, sa s o = Some d -> In (t, ids) d -> ids = sm W o t) /\
  (forall o d t ids, ca s o = Some d -> In (t, ids) d -> ids = cin W o t).
Proof. exact reachable_truth. Qed.

(* assign_obstacles_to_lanelets never raises, whatever time_steps / obstacle_ids / use_center_only
   (time steps outside an obstacle's horizon are skipped) *)
Theorem C07_assign_never_raises : forall W ts ids c s, snd (assign W ts ids c s) = Done.
Proof. exact assign_done. Qed.

(* assigning everything (time_steps=None, obstacle_ids=None) stores the lookup result for every contained
   obstacle at every time step of its horizon ([wf]: no prediction ends before the initial time step) *)
Theorem C07_assign_all_complete : forall W ops, wf W -> all_ok W ops init = true ->
  let s := run W ops init in
  let r := assign W None None false s in
  snd r = Done /\
  (forall o, present s o = true ->
     ish (fst r) o = Some (sm W o (t0 W o)) /\ ic (fst r) o = Some (cin W o (t0 W o))) /\
  (forall o, In o (dynamics s) -> tf W o <> None -> forall t, In t (horizon W o) ->
     dget t (opt_dict (sa (fst r) o)) = Some (sm W o t) /\ dget t (opt_dict (ca (fst r) o)) = Some (cin W o t)).
Proof. exact reachable_assign_all. Qed.

(* reading a file with lanelet_assignment=True: every obstacle of the file carries the lookup of its own centre /
   occupancy at EVERY time step of its horizon (each state of [initial_state] + state_list is looked up on its own,
   e.g. also a state that shares the position of the previous one but not its orientation); with
   C07_registries_inverse the registries are the inverse of exactly these sets *)
Theorem C07_read_complete : forall W s os o, In o os ->
  let s' := fst (step W s (ORead os)) in
  ish s' o = Some (sm W o (t0 W o)) /\ ic s' o = Some (cin W o (t0 W o)) /\
  (kind W o = Dynamic -> tf W o <> None -> forall t, In t (horizon W o) ->
     dget t (opt_dict (sa s' o)) = Some (sm W o t) /\ dget t (opt_dict (ca s' o)) = Some (cin W o t)).
Proof. exact read_complete. Qed.

(* the reader and assign_obstacles_to_lanelets() store the same sets for the same obstacle *)
Theorem C07_read_is_assign : forall W s os ops o, wf W -> all_ok W ops init = true -> In o os ->
  present (run W ops init) o = true ->
  let s1 := fst (step W s (ORead os)) in
  let s2 := fst (assign W None None false (run W ops init)) in
  ish s1 o = ish s2 o /\ ic s1 o = ic s2 o /\
  (kind W o = Dynamic -> tf W o <> None -> forall t, In t (horizon W o) ->
     dget t (opt_dict (sa s1 o)) = dget t (opt_dict (sa s2 o)) /\
     dget t (opt_dict (ca s1 o)) = dget t (opt_dict (ca s2 o))).
Proof. exact read_is_assign. Qed.

(* non-vacuity of the reader clauses: obstacle 31 stands in lanelet 1 over the time steps 0..3 (centre lookups
   constant) and turns on the spot, its occupancy reaching lanelet 2 at the time steps 1 and 2 only; the file
   route (ORead) and the route "open without assignment, then assign" (OLoad, OAssign) store the same *)
Example C07_read_nonvacuous :
  let W := {| kind := fun _ => Dynamic; t0 := fun _ => 0; tf := fun _ => Some 3;
              cin := fun _ _ => [1]; sm := fun _ t => if (1 <=? t) && (t <=? 2) then [1; 2] else [1] |} in
  let s := run W [ORead [31]] init in
  let s2 := run W [OLoad [31]; OAssign None None false] init in
  all_ok W [ORead [31]] init = true /\ all_ok W [OLoad [31]; OAssign None None false] init = true /\
  sa s 31 = Some [(0, [1]); (1, [1; 2]); (2, [1; 2]); (3, [1])] /\ sa s2 31 = sa s 31 /\ ca s2 31 = ca s 31 /\
  dreg s 2 0 = None /\ dreg s 2 1 = Some [31] /\ dreg s 2 2 = Some [31] /\ dreg s 2 3 = None /\
  dreg s2 2 1 = Some [31] /\ dreg s2 2 3 = None /\ dreg s 1 3 = Some [31].
Proof. vm_compute. repeat split; reflexivity. Qed.

(* removing never raises; afterwards the obstacle is gone from the scenario and from every registry *)
Theorem C07_remove_never_fails : forall W s o, snd (remove_obstacle W o s) = Done.
Proof. exact remove_obstacle_done. Qed.
Theorem C07_remove_clears : forall W ops o, all_ok W ops init = true ->
  let s := run W ops init in
  present s o = true ->
  let s' := fst (remove_obstacle W o s) in
  snd (remove_obstacle W o s) = Done /\
  (forall l, ~ smem s' l o) /\ (forall l t, ~ dmem s' l t o) /\ present s' o = false.
Proof. exact reachable_remove_clears. Qed.

(* non-vacuity: the static obstacle 30 whose shape meets lanelets 1 and 2 and whose centre is in 1,
   the dynamic obstacle 31 over the time steps 0..2 *)
Example C07_nonvacuous :
  let W := {| kind := fun o => if o =? 31 then Dynamic else Static; t0 := fun _ => 0;
              tf := fun o => if o =? 31 then Some 2 else None;
              cin := fun o t => if o =? 30 then [1] else if t <=? 1 then [1] else [2];
              sm := fun o t => if o =? 30 then [1; 2] else if t =? 1 then [1; 2] else if t <=? 1 then [1] else [2] |} in
  let ops := [OAdd 30; OAdd 31; OAssign None None false] in
  let s := run W ops init in
  all_ok W ops init = true /\ forallb default_mode ops = true /\ wf W /\
  sreg s 1 = [30] /\ sreg s 2 = [30] /\ ish s 30 = Some [1; 2] /\ ic s 30 = Some [1] /\
  dreg s 2 1 = Some [31] /\ dreg s 1 2 = None /\ sa s 31 = Some [(0, [1]); (1, [1; 2]); (2, [2])] /\
  remove_obstacle W 30 s = (fst (remove_obstacle W 30 s), Done) /\
  sreg (fst (remove_obstacle W 30 s)) 2 = [] /\
  dreg (fst (remove_obstacle W 31 s)) 2 1 = Some [].
Proof.
  assert (Hwf : wf {| kind := fun o => if o =? 31 then Dynamic else Static; t0 := fun _ => 0;
                      tf := fun o => if o =? 31 then Some 2 else None;
                      cin := fun o t => if o =? 30 then [1] else if t <=? 1 then [1] else [2];
                      sm := fun o t => if o =? 30 then [1; 2] else if t =? 1 then [1; 2] else if t <=? 1 then [1] else [2] |}).
  { intros o f. simpl. destruct (o =? 31); [intro H; inversion H; subst; cbv; discriminate | discriminate]. }
  split; [vm_compute; reflexivity|]. split; [vm_compute; reflexivity|]. split; [exact Hwf|].
  vm_compute. repeat split; reflexivity.
Qed.

(* the defect that was repaired, as a witness: with the bookkeeping of the unrepaired code a static obstacle
   whose shape meets lanelets 1 and 2 and whose centre is in lanelet 1 is registered on lanelet 1 only, the
   registry is not the inverse of the stored assignment, and removing the obstacle raises KeyError *)
Example C07_unrepaired_static_refuted :
  let W := {| kind := fun _ => Static; t0 := fun _ => 0; tf := fun _ => None;
              cin := fun _ _ => [1]; sm := fun _ _ => [1; 2] |} in
  let s := assign_static_orig W 30 (add_obstacle W 30 init) in
  ish s 30 = Some [1; 2] /\ sreg s 2 = [] /\ ~ Inverse W s /\ snd (remove_static_orig 30 s) = Raised KeyError.
Proof.
  split; [reflexivity|]. split; [reflexivity|]. split; [|reflexivity].
  intros [H _]. specialize (H 2 30). destruct H as [_ H].
  assert (X : smem (assign_static_orig
                      {| kind := fun _ => Static; t0 := fun _ => 0; tf := fun _ => None;
                         cin := fun _ _ => [1]; sm := fun _ _ => [1; 2] |} 30
                      (add_obstacle {| kind := fun _ => Static; t0 := fun _ => 0; tf := fun _ => None;
                                       cin := fun _ _ => [1]; sm := fun _ _ => [1; 2] |} 30 init)) 2 30).
  { apply H. split; [left; reflexivity | right; left; reflexivity]. }
  exact X.
Qed.

(* ---- the registry helpers are the source's: which id sets / assignment dicts _add_static_obstacle_to_lanelets,
   _remove_static_obstacle_from_lanelets, _add_dynamic_obstacle_to_lanelets and _remove_dynamic_obstacle_from_lanelets add
   an obstacle for, and discard it for, at which time step, is found by following their syntax trees on every run
   (Gen/Src_assign.v, harness/props/c07_src.py).  Interpreted (Model/AssignSrc.v), the parsed table is the model's four
   functions in every world and state, and everything that is added for is discarded for. *)
Theorem C07_registry_helpers_are_source : forall W o s,
  run_add_static src_registry o s = add_static_to_lanelets o s /\
  run_remove_static src_registry o s = remove_static_from_lanelets o s /\
  run_add_dynamic W src_registry o s = add_dynamic_to_lanelets W o s /\
  run_remove_dynamic W src_registry o s = remove_dynamic_from_lanelets W o s.
Proof.
  intros W o s. exact (conj (src_add_static_is_model o s) (conj (src_remove_static_is_model o s)
                        (conj (src_add_dynamic_is_model W o s) (src_remove_dynamic_is_model W o s)))).
Qed.
Theorem C07_registry_add_is_covered_by_remove : covered src_registry = true.
Proof. exact src_registry_covered. Qed.
Example C07_registry_check_nonvacuous :
  covered {| rp_add_static := [IShape; ICenter]; rp_remove_static := [IShape]; rp_add_dyn_init := [IShape];
             rp_add_dyn_pred := [DShape]; rp_remove_dyn_init := [IShape]; rp_remove_dyn_pred := [DShape] |} = false.
Proof. exact uncovered_example. Qed.

Print Assumptions C07_registries_inverse.
Print Assumptions C07_registries_consistent.
Print Assumptions C07_stored_is_lookup.
Print Assumptions C07_assign_never_raises.
Print Assumptions C07_assign_all_complete.
Print Assumptions C07_read_complete.
Print Assumptions C07_read_is_assign.
Print Assumptions C07_read_nonvacuous.
Print Assumptions C07_remove_never_fails.
Print Assumptions C07_remove_clears.
Print Assumptions C07_nonvacuous.
Print Assumptions C07_unrepaired_static_refuted.
Print Assumptions C07_registry_helpers_are_source.
Print Assumptions C07_registry_add_is_covered_by_remove.
Print Assumptions C07_registry_check_nonvacuous.
