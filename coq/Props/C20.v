(* Props/C20.v — property C20: lanelet arc-length geometry and successor-route enumeration are sound.
   Statements only; every proof is [exact <lemma of Proofs/ArcLen.v, Proofs/Routes.v or Proofs/SrcArcLen.v>].
   C20_model_is_source states that [cum] / [interpolate] are the Gallina text generated on every run from
   commonroad/scenario/lanelet.py by harness/vlib/py2coq.py (Gen/Src_arclen.v).
   Vertices are (x, y, z) (a 2-D lanelet has z = 0 throughout); |.| is the Euclidean norm of all three coordinates.
   Segment lengths are oracle values [ls] (sqrt is not computed in Q): valid_lens P ls says 0 <= l_i and
   l_i^2 == |P_{i+1} - P_i|^2; [positive ls] is what "consecutive vertices distinct" gives for valid lengths. *)
From Coq Require Import QArith ZArith Bool List String.
From CR Require Import Base.QMod Base.PyRes Model.ArcLen Proofs.ArcLen Model.Routes Proofs.Routes Gen.Src_arclen Proofs.SrcArcLen.
Import ListNotations.
Open Scope Q_scope.

(* ---- cumulative centre-line distance ---- *)
Theorem C20_cum_monotone : forall ls, nonneg ls -> forall i j, (i <= j)%nat -> (j <= List.length ls)%nat ->
  nth i (cum ls) 0 <= nth j (cum ls) 0.
Proof. exact cum_monotone. Qed.
Theorem C20_cum_head : forall ls, hd 0 (cum ls) = 0.
Proof. exact cum_head. Qed.
Theorem C20_cum_last : forall ls, last (cum ls) 0 == sumQ ls.
Proof. exact cum_last. Qed.
Theorem C20_cum_length : forall ls, List.length (cum ls) = S (List.length ls).
Proof. exact cum_length. Qed.
(* valid oracle lengths are non-negative, and positive when consecutive vertices are distinct *)
Theorem C20_lens_nonneg : forall P ls, valid_lens P ls -> nonneg ls.
Proof. exact valid_lens_nonneg. Qed.
Theorem C20_lens_positive : forall P ls, valid_lens P ls -> distinct_consecutive P -> positive ls.
Proof. exact valid_lens_positive. Qed.

(* ---- interpolate_position(s), 0 <= s <= length: no error; segment idx brackets s; the three points are
        (1-r) P_idx + r P_idx+1 on centre / right / left with r = (s - cum[idx]) / l_idx in [0,1];
        cum[idx] + r l_idx = s, i.e. the centre point lies at arc length s ---- *)
Theorem C20_interpolate : forall C R L ls s,
  ls <> [] -> positive ls ->
  List.length C = S (List.length ls) -> List.length R = S (List.length ls) -> List.length L = S (List.length ls) ->
  0 <= s -> s <= last (cum ls) 0 ->
  exists idx : nat, (idx < List.length ls)%nat /\
    let d0 := nth idx (cum ls) 0 in
    let d1 := nth (S idx) (cum ls) 0 in
    let r := (s - d0) / (d1 - d0) in
    interpolate C R L ls s =
      IOk (lerp r (nth idx C origin) (nth (S idx) C origin)) (lerp r (nth idx R origin) (nth (S idx) R origin))
          (lerp r (nth idx L origin) (nth (S idx) L origin)) (Z.of_nat idx) /\
    d0 <= s /\ s <= d1 /\
    r == (s - d0) / nth idx ls 0 /\ 0 <= r /\ r <= 1 /\ d0 + r * nth idx ls 0 == s.
Proof. exact interpolate_spec. Qed.

(* ---- merge_lanelets: predecessor l1, successor l2 starting where l1 ends ---- *)
Theorem C20_merge : forall l1 l2,
  memZ (l_id l2) (l_succ l1) = true -> last (l_left l1) origin = hd origin (l_left l2) ->
  exists m, merge l1 l2 = MOk m /\
    l_left m = l_left l1 ++ tl (l_left l2) /\ l_center m = l_center l1 ++ tl (l_center l2) /\
    l_right m = l_right l1 ++ tl (l_right l2) /\ l_pred m = l_pred l1 /\ l_succ m = l_succ l2.
Proof. exact merge_spec. Qed.
Theorem C20_merge_swapped : forall l1 l2,
  memZ (l_id l2) (l_succ l1) = true -> memZ (l_id l2) (l_pred l1) = false -> memZ (l_id l1) (l_succ l2) = false ->
  last (l_left l1) origin = hd origin (l_left l2) ->
  exists m, merge l2 l1 = MOk m /\
    l_left m = l_left l1 ++ tl (l_left l2) /\ l_center m = l_center l1 ++ tl (l_center l2) /\
    l_right m = l_right l1 ++ tl (l_right l2) /\ l_pred m = l_pred l1 /\ l_succ m = l_succ l2.
Proof. exact merge_spec_swapped. Qed.
(* the merged centre line is as long as the two parts together, for whatever valid length oracles *)
Theorem C20_merge_length : forall Cp Cs lp ls lm,
  Cp <> [] -> Cs <> [] -> last Cp origin = hd origin Cs ->
  valid_lens Cp lp -> valid_lens Cs ls -> valid_lens (Cp ++ tl Cs) lm ->
  last (cum lm) 0 == last (cum lp) 0 + last (cum ls) 0.
Proof. exact merge_length. Qed.
(* the merged lanelet is a lanelet: its cumulative distance (computed from its own centre line, to which
   C20_cum_* and C20_interpolate apply) has one entry per merged vertex and is the predecessor's cumulative distance
   followed by the successor's shifted by the predecessor's length, in vertex order (not argument order) *)
Theorem C20_merge_distance : forall Cp Cs lp ls lm,
  Cp <> [] -> Cs <> [] -> last Cp origin = hd origin Cs ->
  valid_lens Cp lp -> valid_lens Cs ls -> valid_lens (Cp ++ tl Cs) lm ->
  List.length (cum lm) = (List.length (cum lp) + List.length ls)%nat /\
  (forall i, (i <= List.length lp)%nat -> nth i (cum lm) 0 == nth i (cum lp) 0) /\
  (forall j, (j <= List.length ls)%nat ->
     nth (List.length lp + j) (cum lm) 0 == last (cum lp) 0 + nth j (cum ls) 0).
Proof. exact merge_distance. Qed.

(* ---- find_lanelet_successors_in_range / predecessors_in_range (succ := the predecessor function) ---- *)
(* on every graph whose ids lie in a finite set V (cycles allowed): |V|+1 rounds of the while loop suffice;
   every returned path is a non-empty loop-free chain of successor links that starts at a direct successor,
   avoids the start lanelet, and was extended beyond a prefix only while that prefix's length was < maxlen;
   every direct successor heads some returned path *)
Theorem C20_routes : forall succ len start maxlen V,
  incl (succ start) V -> (forall v, List.In v V -> incl (succ v) V) -> ~ List.In start (succ start) ->
  exists R, routes succ len start maxlen (S (List.length V)) = Some R /\
    (forall p, List.In p R ->
       p <> [] /\ chain succ p /\ NoDup p /\ ~ List.In start p /\ List.In (hd 0%Z p) (succ start) /\
       (forall q r, q <> [] -> r <> [] -> p = q ++ r -> sumlen len q < maxlen)) /\
    (forall s, List.In s (succ start) -> exists p, List.In p R /\ hd 0%Z p = s).
Proof. exact routes_total. Qed.
(* soundness does not depend on the fuel used *)
Theorem C20_routes_sound : forall succ len start maxlen fuel R,
  ~ List.In start (succ start) -> routes succ len start maxlen fuel = Some R ->
  forall p, List.In p R ->
    p <> [] /\ chain succ p /\ NoDup p /\ ~ List.In start p /\ List.In (hd 0%Z p) (succ start) /\
    (forall q r, q <> [] -> r <> [] -> p = q ++ r -> sumlen len q < maxlen).
Proof. exact routes_sound_paths. Qed.
Theorem C20_routes_fuel_irrelevant : forall succ len start maxlen fuel R,
  routes succ len start maxlen fuel = Some R -> routes succ len start maxlen (S fuel) = Some R.
Proof. exact routes_fuel_mono. Qed.

(* ---- the model the theorems above are about IS the translated source (Gen/Src_arclen.v, regenerated every run):
        Lanelet._compute_polyline_cumsum_dist([P]) and Lanelet.distance are [cum] of the lengths
        seg_lens sqrt_ P = map sqrt_ (map norm2 (deltas P)) (np.sqrt uninterpreted; ValueError for an empty polyline);
        Lanelet.interpolate_position of a lanelet whose cached _distance is None is [interpolate] at those lengths, with
        the model's fuel or more, exception classes included (IAssert / IIndex / INan = AssertionError / IndexError /
        "nan"); and those lengths satisfy the oracle hypothesis valid_lens whenever sqrt_ is a square root ---- *)
Theorem C20_model_is_source : forall (sqrt_ : Q -> Q) (P : list pt) (l : lanelet) (s : Q) (fuel : nat),
  src_cumsum_dist sqrt_ P = match P with [] => PRaise "ValueError"%string | _ => POk (cum (seg_lens sqrt_ P)) end /\
  src_distance sqrt_ l
    = match l_center l with [] => PRaise "ValueError"%string | _ => POk (cum (seg_lens sqrt_ (l_center l))) end /\
  (l_center l <> [] -> (S (S (List.length (cum (seg_lens sqrt_ (l_center l))))) <= fuel)%nat ->
   src_interpolate sqrt_ fuel l s
   = Some (ires_to_pyres (interpolate (l_center l) (l_right l) (l_left l) (seg_lens sqrt_ (l_center l)) s))) /\
  (l_center l = [] -> src_interpolate sqrt_ fuel l s = Some (PRaise "ValueError"%string)) /\
  (forall a b, ires_to_pyres a = ires_to_pyres b -> a = b) /\
  ((forall x, 0 <= x -> 0 <= sqrt_ x /\ sqrt_ x * sqrt_ x == x) -> valid_lens P (seg_lens sqrt_ P)).
Proof.
  exact (fun sqrt_ P l s fuel =>
    conj (src_cumsum_dist_eq sqrt_ P) (conj (src_distance_eq sqrt_ l) (conj (src_interpolate_eq sqrt_ fuel l s)
    (conj (src_interpolate_empty sqrt_ fuel l s) (conj ires_to_pyres_inj (seg_lens_valid sqrt_ P)))))).
Qed.

(* ---- non-vacuity ---- *)
(* the ramp (0,0,0),(3,0,4),(3,6,4) (climbs 4 over the first 3, then level) with lengths 5, 6: valid, positive
   (the plan-view lengths 3, 6 are NOT valid); s = 5 (exactly at the vertex) gives segment 0 and the vertex itself;
   cyclic graph 1->2->3->1, 2->4 from start 1 with range 25 *)
Example C20_nonvacuous :
  let C := [(0, 0, 0); (3, 0, 4); (3, 6, 4)] in
  let ls := [5; 6] in
  valid_lens C ls /\ ~ valid_lens C [3; 6] /\ positive ls /\ distinct_consecutive C /\
  interpolate C C C ls 5 =
    IOk (lerp (5 / 5) (0, 0, 0) (3, 0, 4)) (lerp (5 / 5) (0, 0, 0) (3, 0, 4)) (lerp (5 / 5) (0, 0, 0) (3, 0, 4)) 0 /\
  let succ := fun i : Z => if (i =? 1)%Z then [2%Z] else if (i =? 2)%Z then [3%Z; 4%Z]
                           else if (i =? 3)%Z then [1%Z] else [] in
  routes succ (fun _ => 10) 1%Z 25 5 = Some [[2%Z; 3%Z]; [2%Z; 4%Z]].
Proof.
  cbv zeta. split; [|split; [|split; [|split; [|split]]]].
  - repeat constructor; vm_compute; congruence.
  - intro H. inversion H as [|? ? ? ? [_ E] _]; subst. vm_compute in E. discriminate.
  - repeat constructor.
  - repeat constructor; vm_compute; congruence.
  - vm_compute. reflexivity.
  - vm_compute. reflexivity.
Qed.

Print Assumptions C20_cum_monotone.
Print Assumptions C20_cum_head.
Print Assumptions C20_cum_last.
Print Assumptions C20_cum_length.
Print Assumptions C20_lens_nonneg.
Print Assumptions C20_lens_positive.
Print Assumptions C20_interpolate.
Print Assumptions C20_merge.
Print Assumptions C20_merge_swapped.
Print Assumptions C20_merge_length.
Print Assumptions C20_merge_distance.
Print Assumptions C20_routes.
Print Assumptions C20_routes_sound.
Print Assumptions C20_routes_fuel_irrelevant.
Print Assumptions C20_nonvacuous.
Print Assumptions C20_model_is_source.
