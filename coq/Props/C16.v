(* Props/C16.v — property C16: Interval and AngleInterval behave as the closed sets they denote.
   Statements only; every proof is [exact <lemma of Proofs/Interval.v or Proofs/SrcInterval.v>].
   The theorems are about Model/Interval.v; C16_model_is_source_* state that this model is, function by function,
   the Gallina text generated on every run from commonroad/common/util.py by harness/vlib/py2coq.py. *)
From Coq Require Import QArith ZArith Bool.
From CR Require Import Base.QMod Model.Interval Proofs.Interval Gen.Src_util Proofs.SrcInterval.
Open Scope Q_scope.

(* construction with start > end is rejected, and only then *)
Theorem C16_ctor_rejects : forall a b, b < a -> mk a b = Err.
Proof. exact mk_err. Qed.
Theorem C16_ctor_accepts : forall a b, (exists I, mk a b = Ok I) <-> a <= b.
Proof. exact mk_ok_iff. Qed.

(* x in [a,b] exactly when a <= x <= b *)
Theorem C16_contains_point : forall I x, contains_pt I x = true <-> lo I <= x /\ x <= hi I.
Proof. exact contains_pt_spec. Qed.

(* containment of an interval = containment of all its points *)
Theorem C16_contains_interval : forall I J, WF J ->
  (contains_itv I J = true <-> forall x, In J x -> In I x).
Proof. exact contains_itv_spec. Qed.

(* overlaps / intersection are exactly set intersection *)
Theorem C16_overlaps : forall I J, WF I -> WF J ->
  (overlaps I J = true <-> exists x, In I x /\ In J x).
Proof. exact overlaps_spec. Qed.

Theorem C16_intersection : forall I J, WF I -> WF J ->
  match intersection I J with
  | None => forall x, ~ (In I x /\ In J x)
  | Some (Ok K) => WF K /\ forall x, In K x <-> (In I x /\ In J x)
  | Some Err => False
  end.
Proof. exact intersection_spec. Qed.

(* shifting, multiplying, dividing: never the error value, start <= end, image set *)
Theorem C16_add : forall I c, WF I ->
  exists K, add I c = Ok K /\ WF K /\ forall y, In K y <-> exists x, In I x /\ y == x + c.
Proof. exact add_spec. Qed.
Theorem C16_sub : forall I c, WF I ->
  exists K, sub I c = Ok K /\ WF K /\ forall y, In K y <-> exists x, In I x /\ y == x - c.
Proof. exact sub_spec. Qed.
Theorem C16_mul_total : forall I c, WF I ->
  exists K, mul I c = Ok K /\ WF K /\ forall y, (exists x, In I x /\ y == x * c) -> In K y.
Proof. exact mul_spec. Qed.
Theorem C16_mul_image : forall I c K, WF I -> ~ c == 0 -> mul I c = Ok K ->
  forall y, In K y <-> exists x, In I x /\ y == x * c.
Proof. exact mul_image. Qed.
Theorem C16_div : forall I c, WF I -> ~ c == 0 ->
  exists K, div I c = Ok K /\ WF K /\ forall y, In K y <-> exists x, In I x /\ y == x / c.
Proof. exact div_spec. Qed.
(* rounding: never the error value; the ends are the rounded ends; images stay inside *)
Theorem C16_round : forall n I, WF I ->
  exists K, round n I = Ok K /\ WF K /\ lo K = qround n (lo I) /\ hi K = qround n (hi I) /\
            forall x, In I x -> In K (qround n x).
Proof. exact round_spec. Qed.

(* angle membership: th in [a,b] iff th + k*tau in [a,b] for some integer k,
   for every length 0 <= b - a < tau *)
Theorem C16_angle_contains : forall tau, 0 < tau -> forall I th, WF I -> hi I - lo I < tau ->
  (acontains tau I th = true <-> exists k : Z, lo I <= th + inject_Z k * tau /\ th + inject_Z k * tau <= hi I).
Proof. exact acontains_spec. Qed.

Theorem C16_angle_contains_interval : forall tau, 0 < tau -> forall I J, WF I -> WF J -> hi I - lo I < tau ->
  (acontains_itv tau I J = true <-> forall th, AIn tau J th -> AIn tau I th).
Proof. exact acontains_itv_spec. Qed.

(* AngleInterval construction / shift: never asserts for a well-formed argument shorter than tau,
   yields a valid interval congruent to the argument; the shifted interval denotes the shifted set *)
Theorem C16_angle_ctor_total : forall tau, 0 < tau -> forall fuel a b r, a <= b -> b - a < tau ->
  amk tau fuel a b = Some r ->
  exists I, r = Ok I /\ WF I /\ (exists k : Z, lo I == a + inject_Z k * tau /\ hi I == b + inject_Z k * tau) /\
            - tau <= lo I /\ hi I <= tau.
Proof. exact amk_total. Qed.
Theorem C16_angle_shift : forall tau, 0 < tau -> forall fuel I c K, aadd tau fuel I c = Some (Ok K) ->
  forall th, acontains tau K th = true <-> acontains tau I (th - c) = true.
Proof. exact aadd_spec. Qed.
(* the two normalisation loops terminate: fuel n+1 suffices when max a b <= (n+1) tau, resp. a >= -(n+1) tau *)
Theorem C16_norm_down_terminates : forall tau (n : nat) a b,
  Qminmax.Qmax a b <= tau * inject_Z (Z.of_nat n) + tau -> norm_down tau (S n) a b <> None.
Proof. exact norm_down_fuel. Qed.
Theorem C16_norm_up_terminates : forall tau (n : nat) a b,
  - (tau * inject_Z (Z.of_nat n) + tau) <= a -> norm_up tau (S n) a b <> None.
Proof. exact norm_up_fuel. Qed.

(* non-vacuity: the hypotheses are satisfiable and the long-interval case is decided *)
Example C16_nonvacuous :
  let I := {| lo := 0; hi := 4 |} in
  WF I /\ hi I - lo I < (710 # 113) /\ acontains (710 # 113) I 1 = true /\
  acontains (710 # 113) I (-1) = false /\ acontains (710 # 113) I (1 - (710 # 113)) = true.
Proof. unfold WF; simpl. repeat split; vm_compute; congruence. Qed.

(* ---- the model the theorems above are about IS the translated source (Gen/Src_util.v, regenerated every run) *)
Theorem C16_model_is_source_interval : forall I J a b x c n,
  src_mk a b = mk a b /\ src_contains_pt I x = contains_pt I x /\ src_in_pt I x = contains_pt I x /\
  src_contains_itv I J = contains_itv I J /\ src_in_itv I J = contains_itv I J /\
  src_overlaps I J = overlaps I J /\ flip_res_opt (src_intersection I J) = intersection I J /\
  src_length I = length I /\ src_add I c = add I c /\ src_sub I c = sub I c /\ src_mul I c = mul I c /\
  (~ c == 0 -> src_div I c = div I c) /\ (c == 0 -> src_div I c = Err) /\ src_round I n = round n I /\
  src_gt_num I x = gt_num I x /\ src_gt_itv I J = gt_itv I J /\ src_lt_num I x = lt_num I x /\ src_lt_itv I J = lt_itv I J.
Proof.
  exact (fun I J a b x c n =>
    conj (src_mk_eq a b) (conj (src_contains_pt_eq I x) (conj (src_in_pt_eq I x) (conj (src_contains_itv_eq I J)
    (conj (src_in_itv_eq I J) (conj (src_overlaps_eq I J) (conj (src_intersection_eq I J) (conj (src_length_eq I)
    (conj (src_add_eq I c) (conj (src_sub_eq I c) (conj (src_mul_eq I c) (conj (src_div_eq I c) (conj (src_div_zero I c) (conj (src_round_eq I n)
    (conj (src_gt_num_eq I x) (conj (src_gt_itv_eq I J) (conj (src_lt_num_eq I x) (src_lt_itv_eq I J)))))))))))))))))).
Qed.
Theorem C16_model_is_source_angle : forall tau fuel I J a b th c,
  src_valid_orientation tau th = valid_orientation tau th /\
  src_make_valid_orientation tau fuel a = make_valid_orientation tau fuel a /\
  src_normalise tau fuel a b = normalise tau fuel a b /\ src_amk tau fuel a b = amk tau fuel a b /\
  src_acontains tau I th = acontains tau I th /\ src_acontains_pt tau I th = acontains tau I th /\
  src_acontains_itv tau I J = acontains_itv tau I J /\ src_acontains_plain_itv tau I J = acontains_itv tau I J /\
  src_aadd tau fuel I c = aadd tau fuel I c /\ src_asub tau fuel I c = asub tau fuel I c.
Proof.
  exact (fun tau fuel I J a b th c =>
    conj (src_valid_orientation_eq tau th) (conj (src_make_valid_orientation_eq tau fuel a)
    (conj (src_normalise_eq tau fuel a b) (conj (src_amk_eq tau fuel a b) (conj (src_acontains_eq tau I th)
    (conj (src_acontains_pt_eq tau I th) (conj (src_acontains_itv_eq tau I J) (conj (src_acontains_plain_itv_eq tau I J)
    (conj (src_aadd_eq tau fuel I c) (src_asub_eq tau fuel I c)))))))))).
Qed.

Print Assumptions C16_ctor_rejects.
Print Assumptions C16_ctor_accepts.
Print Assumptions C16_contains_point.
Print Assumptions C16_contains_interval.
Print Assumptions C16_overlaps.
Print Assumptions C16_intersection.
Print Assumptions C16_add.
Print Assumptions C16_sub.
Print Assumptions C16_mul_total.
Print Assumptions C16_mul_image.
Print Assumptions C16_div.
Print Assumptions C16_round.
Print Assumptions C16_angle_contains.
Print Assumptions C16_angle_contains_interval.
Print Assumptions C16_angle_ctor_total.
Print Assumptions C16_angle_shift.
Print Assumptions C16_norm_down_terminates.
Print Assumptions C16_norm_up_terminates.
Print Assumptions C16_nonvacuous.
Print Assumptions C16_model_is_source_interval.
Print Assumptions C16_model_is_source_angle.
