(* Props/C16.v — property C16: Interval and AngleInterval behave as the closed sets they denote.
   Statements only; every proof is [exact <lemma of Proofs/Interval.v>]. *)
From Coq Require Import QArith ZArith Bool.
From CR Require Import Base.QMod Model.Interval Proofs.Interval.
Open Scope Q_scope.

(* construction with start > end is rejected, and only then *)
Theorem C16_ctor_rejects : forall a b, b < a -> mk a b = Err.
Proof. exact mk_err. Qed.
Theorem C16_ctor_accepts : forall a b, (exists I, mk a b = Ok I) <-> a <= b.
Proof. exact mk_ok_iff. Qed.

(* x in [a,b] exactly when a <= x <= b *)
Theorem C16_contains_point : forall I x, contains_pt I x = true <-> lo I <= x /\ x <= hi I.
Proof. exact contains_pt_spec. Qed.

(* containment of an interval = containment of all its points *)
Theorem C16_contains_interval : forall I J, WF J ->
  (contains_itv I J = true <-> forall x, In J x -> In I x).
Proof. exact contains_itv_spec. Qed.

(* overlaps / intersection are exactly set intersection *)
Theorem C16_overlaps : forall I J, WF I -> WF J ->
  (overlaps I J = true <-> exists x, In I x /\ In J x).
Proof. exact overlaps_spec. Qed.

Theorem C16_intersection : forall I J, WF I -> WF J ->
  match intersection I J with
  | None => forall x, ~ (In I x /\ In J x)
  | Some (Ok K) => WF K /\ forall x, In K x <-> (In I x /\ In J x)
  | Some Err => False
  end.
Proof. exact intersection_spec. Qed.

(* shifting, multiplying, dividing: never the error value, start <= end, image set *)
Theorem C16_add : forall I c, WF I ->
  exists K, add I c = Ok K /\ WF K /\ forall y, In K y <-> exists x, In I x /\ y == x + c.
Proof. exact add_spec. Qed.
Theorem C16_sub : forall I c, WF I ->
  exists K, sub I c = Ok K /\ WF K /\ forall y, In K y <-> exists x, In I x /\ y == x - c.
Proof. exact sub_spec. Qed.
Theorem C16_mul_total : forall I c, WF I ->
  exists K, mul I c = Ok K /\ WF K /\ forall y, (exists x, In I x /\ y == x * c) -> In K y.
Proof. exact mul_spec. Qed.
Theorem C16_mul_image : forall I c K, WF I -> ~ c == 0 -> mul I c = Ok K ->
  forall y, In K y <-> exists x, In I x /\ y == x * c.
Proof. exact mul_image. Qed.
Theorem C16_div : forall I c, WF I -> ~ c == 0 ->
  exists K, div I c = Ok K /\ WF K /\ forall y, In K y <-> exists x, In I x /\ y == x / c.
Proof. exact div_spec. Qed.
(* rounding: never the error value; the ends are the rounded ends; images stay inside *)
Theorem C16_round : forall n I, WF I ->
  exists K, round n I = Ok K /\ WF K /\ lo K = qround n (lo I) /\ hi K = qround n (hi I) /\
            forall x, In I x -> In K (qround n x).
Proof. exact round_spec. Qed.

(* angle membership: th in [a,b] iff th + k*tau in [a,b] for some integer k,
   for every length 0 <= b - a < tau *)
Theorem C16_angle_contains : forall tau, 0 < tau -> forall I th, WF I -> hi I - lo I < tau ->
  (acontains tau I th = true <-> exists k : Z, lo I <= th + inject_Z k * tau /\ th + inject_Z k * tau <= hi I).
Proof. exact acontains_spec. Qed.

Theorem C16_angle_contains_interval : forall tau, 0 < tau -> forall I J, WF I -> WF J -> hi I - lo I < tau ->
  (acontains_itv tau I J = true <-> forall th, AIn tau J th -> AIn tau I th).
Proof. exact acontains_itv_spec. Qed.

(* AngleInterval construction / shift: never asserts for a well-formed argument shorter than tau,
   yields a valid interval congruent to the argument; the shifted interval denotes the shifted set *)
Theorem C16_angle_ctor_total : forall tau, 0 < tau -> forall fuel a b r, a <= b -> b - a < tau ->
  amk tau fuel a b = Some r ->
  exists I, r = Ok I /\ WF I /\ (exists k : Z, lo I == a + inject_Z k * tau /\ hi I == b + inject_Z k * tau) /\
            - tau <= lo I /\ hi I <= tau.
Proof. exact amk_total. Qed.
Theorem C16_angle_shift : forall tau, 0 < tau -> forall fuel I c K, aadd tau fuel I c = Some (Ok K) ->
  forall th, acontains tau K th = true <-> acontains tau I (th - c) = true.
Proof. exact aadd_spec. Qed.
(* the two normalisation loops terminate: fuel n+1 suffices when max a b <= (n+1) tau, resp. a >= -(n+1) tau *)
Theorem C16_norm_down_terminates : forall tau (n : nat) a b,
  Qminmax.Qmax a b <= tau * inject_Z (Z.of_nat n) + tau -> norm_down tau (S n) a b <> None.
Proof. exact norm_down_fuel. Qed.
Theorem C16_norm_up_terminates : forall tau (n : nat) a b,
  - (tau * inject_Z (Z.of_nat n) + tau) <= a -> norm_up tau (S n) a b <> None.
Proof. exact norm_up_fuel. Qed.

(* non-vacuity: the hypotheses are satisfiable and the long-interval case is decided *)
Example C16_nonvacuous :
  let I := {| lo := 0; hi := 4 |} in
  WF I /\ hi I - lo I < (710 # 113) /\ acontains (710 # 113) I 1 = true /\
  acontains (710 # 113) I (-1) = false /\ acontains (710 # 113) I (1 - (710 # 113)) = true.
Proof. unfold WF; simpl. repeat split; vm_compute; congruence. Qed.

Print Assumptions C16_ctor_rejects.
Print Assumptions C16_ctor_accepts.
Print Assumptions C16_contains_point.
Print Assumptions C16_contains_interval.
Print Assumptions C16_overlaps.
Print Assumptions C16_intersection.
Print Assumptions C16_add.
Print Assumptions C16_sub.
Print Assumptions C16_mul_total.
Print Assumptions C16_mul_image.
Print Assumptions C16_div.
Print Assumptions C16_round.
Print Assumptions C16_angle_contains.
Print Assumptions C16_angle_contains_interval.
Print Assumptions C16_angle_ctor_total.
Print Assumptions C16_angle_shift.
Print Assumptions C16_norm_down_terminates.
Print Assumptions C16_norm_up_terminates.
Print Assumptions C16_nonvacuous.
