(* Props/C13.v — property C13: benchmark ids print and parse consistently.
   Statements only; every proof is [exact <lemma of Proofs/BenchId.v>].
   [ctor] is ScenarioID.__init__ (with its defaulting, map-name cleaning and rejections), [print] is
   __str__, [matches] / [from_benchmark_id] are benchmark_id_pattern.fullmatch / from_benchmark_id,
   [print_bid] / [parse_benchmark_id] / [parse_vehicle_id] / [parse_cost_id] the solution id functions.
   The country, behaviour, version, vehicle and cost tables are Gen/Tables_C13.v (generated from the
   source on every run); [tables_ok] is the side condition on them. *)
From Coq Require Import String List ZArith Bool.
From CR Require Import Gen.Tables_C13 Model.BenchId Proofs.BenchId.
Import ListNotations.
Open Scope list_scope.
Open Scope string_scope.

(* side conditions on the generated tables: countries are three upper-case letters, behaviours are
   single letters of the grammar, versions contain no separator, vehicle model names are 2-3
   alphanumerics, vehicle type values are one digit, cost names are alphanumeric *)
Theorem C13_tables_ok : tables_ok = true.
Proof. exact tables_ok_true. Qed.

(* every id the constructor accepts (whatever the arguments: defaults, zero configuration id,
   empty / one-element / longer prediction-id lists, map names with illegal characters) whose
   cleaned map name is not empty: its printed form conforms to the grammar, parses back - without
   the warning fallback - to the very same id, and re-constructing from the stored fields changes
   nothing (so the parsed id also prints identically) *)
Theorem C13_parse_print : forall a s, ctor a = Ok s -> mname s <> "" ->
  from_benchmark_id (print s) (ver s) = (false, Ok s) /\ matches (print s) = true /\
  ctor (args_of s) = Ok s.
Proof. exact parse_print. Qed.

(* the constructor only produces normal forms ... *)
Theorem C13_ctor_normal : forall a s, ctor a = Ok s -> wfb s = true.
Proof. exact ctor_wf. Qed.
(* ... and for normal forms the round trip holds *)
Theorem C13_roundtrip_normal : forall s, wfb s = true -> mname s <> "" ->
  from_benchmark_id (print s) (ver s) = (false, Ok s).
Proof. exact from_print. Qed.

(* side lemma: printed ids contain no separator of the solution benchmark id *)
Theorem C13_tokens_no_separator : forall s, wfb s = true -> sforall tokc (print s) = true.
Proof. exact print_tokc. Qed.

(* solution benchmark ids vehicles:costs:scenario:version, for non-empty lists of vehicle
   (model, type) pairs and cost functions drawn from the tables (KST included) *)
Theorem C13_solution_id : forall vs cs s,
  wfb s = true -> mname s <> "" -> vs <> [] -> cs <> [] -> vs_ok vs = true -> cs_ok cs = true ->
  parse_benchmark_id (print_bid vs cs s) = Ok (map vehicle_id vs, cs, (false, Ok s)) /\
  map parse_vehicle_id (map vehicle_id vs) = map Ok vs /\ map parse_cost_id cs = map Ok cs.
Proof. exact parse_print_bid. Qed.

(* non-vacuity: the repaired one-element list, and a cooperative solution id *)
Example C13_one_element_list :
  let a := {| a_coop := false; a_country := Some "ZAM"; a_name := "Test"; a_mid := 1%Z; a_conf := Some 1%Z;
              a_beh := Some "T"; a_pid := PList [3%Z]; a_ver := "2020a" |} in
  exists s, ctor a = Ok s /\ print s = "ZAM_Test-1_1_T-3" /\ from_benchmark_id (print s) (ver s) = (false, Ok s).
Proof. exact one_element_list. Qed.
Example C13_solution_id_example :
  exists s, ctor {| a_coop := true; a_country := Some "DEU"; a_name := "A9"; a_mid := 2%Z; a_conf := Some 1%Z;
                    a_beh := Some "T"; a_pid := PList [1%Z; 2%Z]; a_ver := "2020a" |} = Ok s /\
  print_bid [("PM", 1%Z); ("KST", 3%Z)] ["JB1"; "SA1"] s = "[PM1,KST3]:[JB1,SA1]:C-DEU_A9-2_1_T-1-2:2020a" /\
  parse_benchmark_id "[PM1,KST3]:[JB1,SA1]:C-DEU_A9-2_1_T-1-2:2020a" = Ok (["PM1"; "KST3"], ["JB1"; "SA1"], (false, Ok s)).
Proof. exact solution_id_example. Qed.

Print Assumptions C13_tables_ok.
Print Assumptions C13_parse_print.
Print Assumptions C13_ctor_normal.
Print Assumptions C13_roundtrip_normal.
Print Assumptions C13_tokens_no_separator.
Print Assumptions C13_solution_id.
Print Assumptions C13_one_element_list.
Print Assumptions C13_solution_id_example.
