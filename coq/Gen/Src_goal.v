(* GENERATED on every run by harness/props/c08_src.py from the syntax trees of GoalRegion._harmonize_state_types, is_reached, _check_value_in_interval and PlanningProblem.goal_reached.  Do not edit.
   sources: commonroad/planning/goal.py sha1=9462e960d8c16dd46d8eab42490722bfb05e84ff, commonroad/planning/planning_problem.py sha1=5fc34a696bfd081bc5443f2d52ff447128b43262 *)
From Coq Require Import List.
From CR Require Import Model.GoalSrc.
Import ListNotations.

Definition src_harmonize : hprog :=
  {| h_cond := (HAnd (HAnd (HSub [FVel; FVelY] WState) (HOr (HSub [FOrient] WGoal) (HSub [FVel] WGoal))) (HNot (HSub [FVel; FVelY] WGoal)));
     h_body := [HDeriveIfMissing QOrient QVelY QVel; HNorm QVel QVel QVelY; HRemove FVelY] |}.
Definition src_checks : list check :=
  [ {| c_fld := FTime; c_guard := GGoalNotNone; c_test := TInterval |};
    {| c_fld := FPos; c_guard := GBothHave; c_test := TContainsPoint |};
    {| c_fld := FOrient; c_guard := GBothHave; c_test := TInterval |};
    {| c_fld := FVel; c_guard := GBothHave; c_test := TInterval |} ].
Definition src_prologue : prologue_form := PrologueStd.
Definition src_loop : loop_form := LoopAppendAny.
Definition src_check_value : civ_form := CivContains.
Definition src_goal_reached : scan_form := ScanReversedFirstHit.
