(* GENERATED on every run by harness/vlib/py2coq.py (symbolic execution of the Python source). Do not edit.
   sources: /repo/commonroad/geometry/transform.py sha1=f1f11ed12637 *)
From Coq Require Import QArith ZArith Bool List Qabs.
From CR Require Import Base.QMod Model.Interval Model.Transform.
Open Scope Q_scope.

Section Src.
Variables cos_ sin_ : Q -> Q.   (* math.cos / math.sin: uninterpreted *)


Definition src_translation_rotation_matrix (t : pt) (a : Q) : mat3 :=
  (M3 ((cos_ a) * 1 + (- (sin_ a)) * 0 + 0 * 0) ((cos_ a) * 0 + (- (sin_ a)) * 1 + 0 * 0) ((cos_ a) * (px t) + (- (sin_ a)) * (py t) + 0 * 1) ((sin_ a) * 1 + (cos_ a) * 0 + 0 * 0) ((sin_ a) * 0 + (cos_ a) * 1 + 0 * 0) ((sin_ a) * (px t) + (cos_ a) * (py t) + 0 * 1) (0 * 1 + 0 * 0 + 1 * 0) (0 * 0 + 0 * 1 + 1 * 0) (0 * (px t) + 0 * (py t) + 1 * 1)).
Definition src_rotation_translation_matrix (t : pt) (a : Q) : mat3 :=
  if (Qeq_bool a 0)
  then (M3 (1) (- 0) (px t) (0) (1) (py t) (0) (0) (1))
  else (M3 (cos_ a) (- (sin_ a)) (px t) (sin_ a) (cos_ a) (py t) (0) (0) (1)).
Definition src_translate_rotate (vs : list pt) (t : pt) (a : Q) : list pt :=
  (map (fun p_ => ((((cos_ a) * 1 + (- (sin_ a)) * 0 + 0 * 0) * (px p_) + ((cos_ a) * 0 + (- (sin_ a)) * 1 + 0 * 0) * (py p_) + ((cos_ a) * (px t) + (- (sin_ a)) * (py t) + 0 * 1) * 1), (((sin_ a) * 1 + (cos_ a) * 0 + 0 * 0) * (px p_) + ((sin_ a) * 0 + (cos_ a) * 1 + 0 * 0) * (py p_) + ((sin_ a) * (px t) + (cos_ a) * (py t) + 0 * 1) * 1))) vs).
Definition src_rotate_translate (vs : list pt) (t : pt) (a : Q) : list pt :=
  if (Qeq_bool a 0)
  then (map (fun p_ => ((1 * (px p_) + (- 0) * (py p_) + (px t) * 1), (0 * (px p_) + 1 * (py p_) + (py t) * 1))) vs)
  else (map (fun p_ => (((cos_ a) * (px p_) + (- (sin_ a)) * (py p_) + (px t) * 1), ((sin_ a) * (px p_) + (cos_ a) * (py p_) + (py t) * 1))) vs).
End Src.
