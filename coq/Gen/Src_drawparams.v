(* GENERATED on every run by harness/props/c19_src.py from the syntax tree of BaseParam.__setattr__ / __post_init__. Do not edit.
   source: /repo/commonroad/visualization/draw_params.py sha1=b78200e35689 *)
From Coq Require Import String List.
Import ListNotations.
From CR Require Import Model.DrawParamsSrc.
Open Scope string_scope.

Definition src_setattr : list stmt := [SStoreIfDeclares; (SForIfInit [ICallIfGroup])].
Definition src_post_init : list pstmt := [PInitTrue; PReassign "time_begin"; PReassign "time_end"; PReassign "antialiased"].
