(* GENERATED on every run by harness/vlib/py2coq.py + harness/props/c04_src.py (symbolic execution of the Python source). Do not edit.
   sources: /repo/commonroad/scenario/obstacle.py sha1=f6f65f0480b8, /repo/commonroad/scenario/trajectory.py sha1=bbb9191723e1, /repo/commonroad/prediction/prediction.py sha1=1d2301001a08, /repo/commonroad/common/util.py sha1=0f7c26f92d2c *)
From Coq Require Import ZArith Bool List String.
From CR Require Import Base.PyRes Model.Interval Model.TrafficLight Model.Occupancy Model.DispatchCfg.
Open Scope Z_scope.

Section Src.
Variables S R : Type.          (* states, shapes: opaque *)
Variable tstep : S -> Z.       (* state.time_step *)
Variable osfs : R -> S -> R.   (* occupancy_shape_from_state(shape, state) *)

Fixpoint occupancy_at_time_step_for0 (time_step : Z) (l_ : list ((Z * R))) : option ((Z * R)) :=
  match l_ with
  | nil => None
  | cons x_ r_ => (if (Z.eqb (fst x_) time_step) then Some x_ else occupancy_at_time_step_for0 time_step r_)
  end.
Fixpoint occupancy_at_time_step_for1 (time_step : Z) (l_ : list ((occ_itv R))) : option ((occ_itv R)) :=
  match l_ with
  | nil => None
  | cons x_ r_ => (if ((Z.leb (zlo (oi_time x_)) time_step) && (Z.leb time_step (zhi (oi_time x_)))) then Some x_ else occupancy_at_time_step_for1 time_step r_)
  end.

(* Trajectory.state_at_time_step *)
Definition src_traj_state_at (tr : (traj S)) (t : Z) : pyres (option (S)) :=
  if ((Z.leb (t_init tr) t) && (Z.ltb t ((t_init tr) + (Z.of_nat (List.length (t_states tr))))))
  then match (pyindex (t_states tr) (t - (t_init tr))) with
    | Some e_1 => POk (Some (e_1))
    | None => (PRaise "IndexError"%string)
    end
  else POk (None).
(* Prediction.occupancy_at_time_step, SetBasedPrediction, int time steps *)
Definition src_pred_occ_step (p : (set_pred_step R)) (t : Z) : option ((occ R)) :=
  match occupancy_at_time_step_for0 t (sp_occs p) with
  | Some o_2 => Some ({| o_time := (TStep (fst o_2)); o_region := (snd o_2) |})
  | None => None
  end.
(* Prediction.occupancy_at_time_step, SetBasedPrediction, Interval time steps *)
Definition src_pred_occ_itv (p : (set_pred_itv R)) (t : Z) : option ((occ R)) :=
  match occupancy_at_time_step_for1 t (si_occs p) with
  | Some o_3 => Some ({| o_time := (TItv (zlo (oi_time o_3)) (zhi (oi_time o_3))); o_region := (oi_region o_3) |})
  | None => None
  end.
(* Prediction.occupancy_at_time_step, TrajectoryPrediction (cached occupancy_set) *)
Definition src_pred_occ_traj (p : (traj_pred S R)) (t : Z) : option ((occ R)) :=
  match occupancy_at_time_step_for0 t (tp_occs p) with
  | Some o_4 => Some ({| o_time := (TStep (fst o_4)); o_region := (snd o_4) |})
  | None => None
  end.
(* StaticObstacle.occupancy_at_time *)
Definition src_static_occ (o : (static_obs S R)) (t : Z) : (occ R) :=
  {| o_time := (TStep t); o_region := (so_shape o) |}.
(* StaticObstacle.state_at_time *)
Definition src_static_state (o : (static_obs S R)) (t : Z) : S :=
  (so_init o).
(* DynamicObstacle.occupancy_at_time, prediction: none *)
Definition src_dyn_occ_none (o : (dyn_obs S R unit)) (t : Z) : option ((occ R)) :=
  if (Z.eqb t (tstep (do_init o)))
  then Some ({| o_time := (TStep t); o_region := (do_shape o) |})
  else None.
(* DynamicObstacle.state_at_time, prediction: none *)
Definition src_dyn_state_none (o : (dyn_obs S R unit)) (t : Z) : option (S) :=
  if (Z.eqb t (tstep (do_init o)))
  then Some ((do_init o))
  else None.
(* DynamicObstacle.occupancy_at_time, prediction: traj *)
Definition src_dyn_occ_traj (o : (dyn_obs S R (traj_pred S R))) (t : Z) : option ((occ R)) :=
  if (Z.eqb t (tstep (do_init o)))
  then Some ({| o_time := (TStep t); o_region := (do_shape o) |})
  else if (Z.ltb (tstep (do_init o)) t)
    then match occupancy_at_time_step_for0 t (tp_occs (do_pred o)) with
      | Some o_5 => Some ({| o_time := (TStep (fst o_5)); o_region := (snd o_5) |})
      | None => None
      end
    else None.
(* DynamicObstacle.state_at_time, prediction: traj *)
Definition src_dyn_state_traj (o : (dyn_obs S R (traj_pred S R))) (t : Z) : pyres (option (S)) :=
  if (Z.eqb t (tstep (do_init o)))
  then POk (Some ((do_init o)))
  else if (Z.ltb (tstep (do_init o)) t)
    then if ((Z.leb (t_init (tp_traj (do_pred o))) t) && (Z.ltb t ((t_init (tp_traj (do_pred o))) + (Z.of_nat (List.length (t_states (tp_traj (do_pred o))))))))
      then match (pyindex (t_states (tp_traj (do_pred o))) (t - (t_init (tp_traj (do_pred o))))) with
        | Some e_6 => POk (Some (e_6))
        | None => (PRaise "IndexError"%string)
        end
      else POk (None)
    else POk (None).
(* DynamicObstacle.occupancy_at_time, prediction: set_step *)
Definition src_dyn_occ_set_step (o : (dyn_obs S R (set_pred_step R))) (t : Z) : option ((occ R)) :=
  if (Z.eqb t (tstep (do_init o)))
  then Some ({| o_time := (TStep t); o_region := (do_shape o) |})
  else if (Z.ltb (tstep (do_init o)) t)
    then match occupancy_at_time_step_for0 t (sp_occs (do_pred o)) with
      | Some o_7 => Some ({| o_time := (TStep (fst o_7)); o_region := (snd o_7) |})
      | None => None
      end
    else None.
(* DynamicObstacle.state_at_time, prediction: set_step *)
Definition src_dyn_state_set_step (o : (dyn_obs S R (set_pred_step R))) (t : Z) : option (S) :=
  if (Z.eqb t (tstep (do_init o)))
  then Some ((do_init o))
  else None.
(* DynamicObstacle.occupancy_at_time, prediction: set_itv *)
Definition src_dyn_occ_set_itv (o : (dyn_obs S R (set_pred_itv R))) (t : Z) : option ((occ R)) :=
  if (Z.eqb t (tstep (do_init o)))
  then Some ({| o_time := (TStep t); o_region := (do_shape o) |})
  else if (Z.ltb (tstep (do_init o)) t)
    then match occupancy_at_time_step_for1 t (si_occs (do_pred o)) with
      | Some o_8 => Some ({| o_time := (TItv (zlo (oi_time o_8)) (zhi (oi_time o_8))); o_region := (oi_region o_8) |})
      | None => None
      end
    else None.
(* DynamicObstacle.state_at_time, prediction: set_itv *)
Definition src_dyn_state_set_itv (o : (dyn_obs S R (set_pred_itv R))) (t : Z) : option (S) :=
  if (Z.eqb t (tstep (do_init o)))
  then Some ((do_init o))
  else None.
(* EnvironmentObstacle.occupancy_at_time *)
Definition src_env_occ (o : (env_obs R)) (t : Z) : (occ R) :=
  {| o_time := (TStep t); o_region := (eo_shape o) |}.
(* TrajectoryPrediction._create_occupancy_set (states with an orientation, no wheelbase lengths) *)
Definition src_create_occs (p : (traj_pred_src S R)) : (list (Z * R)) :=
  (map (fun m_9 => ((tstep m_9), (osfs (ts_shape p) m_9))) (t_states (ts_traj p))).
End Src.
