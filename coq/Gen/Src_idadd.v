(* GENERATED on every run by harness/props/c09_add_src.py from the syntax trees of Scenario.add_objects and
   Scenario._lanelet_network_object_ids.  Do not edit.
   source: commonroad/scenario/scenario.py sha1=cdabb0c03eb8fbea4c08467a4ce3b4e8975b1006 *)
From Coq Require Import List.
From CR Require Import Model.IdPool Model.IdRemoveSrc Model.IdAddSrc.
Import ListNotations.

Definition src_add : addsrc := {|
  ad_list_recursive := true;
  ad_branches := [(CStatic, [AMark; AStore Static; ASkipA]); (CDynamic, [AMark; AStore Dynamic; ASkipA]); (CNet, [AMarkNet; AReleaseOld; ASetNet]); (CLanelet, [AMark; ANetAdd KLanelet]); (CSign, [ADefaultLids; AMark; ANetAdd KSign]); (CLight, [ADefaultLids; AMark; ANetAdd KLight]); (CInter, [AMarkInter; ANetAdd KInter]); (CEnv, [AMark; AStore Env]); (CPhantom, [AMark; AStore Phantom])];
  ad_net_ids := [NLanelets; NSigns; NLights; NInters] |}.
