(* GENERATED on every run by harness/vlib/py2coq.py (symbolic execution of the Python source). Do not edit.
   sources: /repo/commonroad/scenario/traffic_light.py sha1=2d13ef0188da *)
From Coq Require Import ZArith List Bool.
Import ListNotations.
From CR Require Import Model.Interval Model.TrafficLight.
Open Scope Z_scope.


(* TrafficLightCycle.cycle_init_timesteps *)
Definition src_init_steps (c : cycle) : list Z :=
  ((c_offset c) :: (map (fun x_ => (x_ + (c_offset c))) (cumsum_from 0 (map (fun x_ => (duration x_)) (c_elements c))))).
(* TrafficLightCycle.get_state_at_time_step *)
Definition src_state_at (c : cycle) (t : Z) : res (Z) :=
  match (pyindex ((c_offset c) :: (map (fun x_ => (x_ + (c_offset c))) (cumsum_from 0 (map (fun x_ => (duration x_)) (c_elements c))))) (-1)%Z) with
  | Some e_1 => if (Z.eqb (e_1 - (c_offset c)) 0)
    then Err
    else match (pyindex (c_elements c) ((argmax (map (fun x_ => (Z.ltb ((Z.modulo (t - (c_offset c)) (e_1 - (c_offset c))) + (c_offset c)) x_)) ((c_offset c) :: (map (fun x_ => (x_ + (c_offset c))) (cumsum_from 0 (map (fun x_ => (duration x_)) (c_elements c))))))) - 1%Z)) with
      | Some e_2 => Ok ((colour e_2))
      | None => Err
      end
  | None => Err
  end.
(* TrafficLight.get_state_at_time_step *)
Definition src_light_state_at (l : light) (t : Z) : res (Z) :=
  match (pyindex ((c_offset (l_cycle l)) :: (map (fun x_ => (x_ + (c_offset (l_cycle l)))) (cumsum_from 0 (map (fun x_ => (duration x_)) (c_elements (l_cycle l)))))) (-1)%Z) with
  | Some e_3 => if (Z.eqb (e_3 - (c_offset (l_cycle l))) 0)
    then Err
    else match (pyindex (c_elements (l_cycle l)) ((argmax (map (fun x_ => (Z.ltb ((Z.modulo (t - (c_offset (l_cycle l))) (e_3 - (c_offset (l_cycle l)))) + (c_offset (l_cycle l))) x_)) ((c_offset (l_cycle l)) :: (map (fun x_ => (x_ + (c_offset (l_cycle l)))) (cumsum_from 0 (map (fun x_ => (duration x_)) (c_elements (l_cycle l)))))))) - 1%Z)) with
      | Some e_4 => Ok ((colour e_4))
      | None => Err
      end
  | None => Err
  end.
