(* GENERATED on every run by harness/props/c09_hang_src.py from the syntax tree of Scenario.remove_hanging_lanelet_members.
   Do not edit.  source: commonroad/scenario/scenario.py sha1=cdabb0c03eb8fbea4c08467a4ce3b4e8975b1006 *)
From Coq Require Import List.
From CR Require Import Model.IdPool Model.IdRemoveSrc Model.IdHangSrc.
Import ListNotations.

Definition src_hanging : hprog := {|
  hp_signs := {| hs_universe := KSign; hs_del := (HRemoved, HSigns); hs_save := (HRemaining, HSigns) |};
  hp_lights := {| hs_universe := KLight; hs_del := (HRemoved, HLights); hs_save := (HRemaining, HLights) |};
  hp_calls := [KSign; KLight] |}.
