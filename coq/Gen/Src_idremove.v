(* GENERATED on every run by harness/props/c09_rm_src.py from the syntax trees of Scenario.remove_obstacle, remove_lanelet,
   remove_traffic_sign, remove_traffic_light, remove_intersection, erase_lanelet_network and replace_lanelet_network.  Do not edit.
   source: commonroad/scenario/scenario.py sha1=cdabb0c03eb8fbea4c08467a4ce3b4e8975b1006 *)
From Coq Require Import List.
From CR Require Import Model.IdPool Model.IdRemoveSrc.
Import ListNotations.

Definition src_removal : removal_src := {|
  rs_obstacle := {| om_list := LRecurse; om_branches := [(Static, [QSkip; QDel Static; QId]); (Dynamic, [QSkip; QDel Dynamic; QId]); (Env, [QDel Env; QId]); (Phantom, [QDel Phantom; QId])] |};
  rs_lanelet := {| lm_default_refs := true; lm_hanging_first := true; lm_body := [QNet KLanelet; QId] |};
  rs_sign := {| rm_list := LInline [QNet KSign; QId]; rm_body := [QNet KSign; QId] |};
  rs_light := {| rm_list := LInline [QNet KLight; QId]; rm_body := [QNet KLight; QId] |};
  rs_inter := {| rm_list := LRecurse; rm_body := [QNet KInter; QId; QIncs] |};
  rs_erase := [ELoop KLanelet; ELoop KSign; ELoop KLight; ELoop KInter; EReset];
  rs_replace := [PErase; PAddNet] |}.
