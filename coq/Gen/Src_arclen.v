(* GENERATED on every run by harness/vlib/py2coq.py (symbolic execution of the Python source). Do not edit.
   sources: /repo/commonroad/scenario/lanelet.py sha1=6b97a2da41d1 *)
From Coq Require Import QArith ZArith Bool List String.
Import ListNotations.
From CR Require Import Base.QMod Base.PyRes Model.ArcLen.
Open Scope Q_scope.

Section Src.
Variable sqrt_ : Q -> Q.   (* np.sqrt on one element: uninterpreted *)

Fixpoint interpolate_position_loop0 (fuel : nat) (l : lanelet) (distance : Q) (idx : Z) : option (pyres (Z)) :=
  match fuel with
  | O => None
  | S fuel' => match (py_nth (cumsum_from 0 (0 :: (map sqrt_ (map (fun p_ => ((((px p_) * (px p_)) + ((py p_) * (py p_))) + ((pz p_) * (pz p_)))) (deltas (l_center l)))))) idx) with Some w_0 => if (negb (Qle_bool w_0 distance)) then interpolate_position_loop0 fuel' l distance (idx + 1%Z) else Some (POk (idx)) | None => Some (PRaise "IndexError"%string) end
  end.

(* Lanelet._compute_polyline_cumsum_dist([P]) *)
Definition src_cumsum_dist (P : list pt) : pyres (list Q) :=
  if (negb (Nat.eqb (List.length (0 :: (map sqrt_ (map (fun p_ => ((((px p_) * (px p_)) + ((py p_) * (py p_))) + ((pz p_) * (pz p_)))) (deltas P))))) (List.length P)))
  then (PRaise "ValueError"%string)
  else POk ((cumsum_from 0 (0 :: (map sqrt_ (map (fun p_ => ((((px p_) * (px p_)) + ((py p_) * (py p_))) + ((pz p_) * (pz p_)))) (deltas P)))))).
(* Lanelet.distance, _distance is None *)
Definition src_distance (l : lanelet) : pyres (list Q) :=
  if (negb (Nat.eqb (List.length (0 :: (map sqrt_ (map (fun p_ => ((((px p_) * (px p_)) + ((py p_) * (py p_))) + ((pz p_) * (pz p_)))) (deltas (l_center l)))))) (List.length (l_center l))))
  then (PRaise "ValueError"%string)
  else POk ((cumsum_from 0 (0 :: (map sqrt_ (map (fun p_ => ((((px p_) * (px p_)) + ((py p_) * (py p_))) + ((pz p_) * (pz p_)))) (deltas (l_center l))))))).
(* Lanelet.interpolate_position, _distance is None *)
Definition src_interpolate (fuel : nat) (l : lanelet) (s : Q) : option (pyres (pt * pt * pt * Z)) :=
  if (negb (Nat.eqb (List.length (0 :: (map sqrt_ (map (fun p_ => ((((px p_) * (px p_)) + ((py p_) * (py p_))) + ((pz p_) * (pz p_)))) (deltas (l_center l)))))) (List.length (l_center l))))
  then Some (PRaise "ValueError"%string)
  else match (py_nth (cumsum_from 0 (0 :: (map sqrt_ (map (fun p_ => ((((px p_) * (px p_)) + ((py p_) * (py p_))) + ((pz p_) * (pz p_)))) (deltas (l_center l)))))) (-1)%Z) with
    | Some e_1 => if ((Qle_bool s e_1) && (Qle_bool 0 s))
      then match interpolate_position_loop0 fuel l s ((Z.of_nat (searchsorted (cumsum_from 0 (0 :: (map sqrt_ (map (fun p_ => ((((px p_) * (px p_)) + ((py p_) * (py p_))) + ((pz p_) * (pz p_)))) (deltas (l_center l)))))) s)) - 1%Z) with
        | None => None
        | Some (PRaise exc_) => Some (PRaise exc_)
        | Some (POk (idx_3)) => match (py_nth (cumsum_from 0 (0 :: (map sqrt_ (map (fun p_ => ((((px p_) * (px p_)) + ((py p_) * (py p_))) + ((pz p_) * (pz p_)))) (deltas (l_center l)))))) idx_3) with
          | Some e_4 => match (py_nth (cumsum_from 0 (0 :: (map sqrt_ (map (fun p_ => ((((px p_) * (px p_)) + ((py p_) * (py p_))) + ((pz p_) * (pz p_)))) (deltas (l_center l)))))) (idx_3 + 1%Z)) with
            | Some e_5 => match (py_nth (cumsum_from 0 (0 :: (map sqrt_ (map (fun p_ => ((((px p_) * (px p_)) + ((py p_) * (py p_))) + ((pz p_) * (pz p_)))) (deltas (l_center l)))))) idx_3) with
              | Some e_6 => match (py_nth (l_center l) idx_3) with
                | Some e_7 => match (py_nth (l_center l) (idx_3 + 1%Z)) with
                  | Some e_8 => match (py_nth (l_right l) idx_3) with
                    | Some e_9 => match (py_nth (l_right l) (idx_3 + 1%Z)) with
                      | Some e_10 => match (py_nth (l_left l) idx_3) with
                        | Some e_11 => match (py_nth (l_left l) (idx_3 + 1%Z)) with
                          | Some e_12 => if (Qeq_bool (e_5 - e_6) 0)
                            then Some (PRaise "nan"%string)
                            else Some (POk ((((((1 - ((s - e_4) / (e_5 - e_6))) * (px e_7)) + (((s - e_4) / (e_5 - e_6)) * (px e_8))), (((1 - ((s - e_4) / (e_5 - e_6))) * (py e_7)) + (((s - e_4) / (e_5 - e_6)) * (py e_8))), (((1 - ((s - e_4) / (e_5 - e_6))) * (pz e_7)) + (((s - e_4) / (e_5 - e_6)) * (pz e_8)))), ((((1 - ((s - e_4) / (e_5 - e_6))) * (px e_9)) + (((s - e_4) / (e_5 - e_6)) * (px e_10))), (((1 - ((s - e_4) / (e_5 - e_6))) * (py e_9)) + (((s - e_4) / (e_5 - e_6)) * (py e_10))), (((1 - ((s - e_4) / (e_5 - e_6))) * (pz e_9)) + (((s - e_4) / (e_5 - e_6)) * (pz e_10)))), ((((1 - ((s - e_4) / (e_5 - e_6))) * (px e_11)) + (((s - e_4) / (e_5 - e_6)) * (px e_12))), (((1 - ((s - e_4) / (e_5 - e_6))) * (py e_11)) + (((s - e_4) / (e_5 - e_6)) * (py e_12))), (((1 - ((s - e_4) / (e_5 - e_6))) * (pz e_11)) + (((s - e_4) / (e_5 - e_6)) * (pz e_12)))), idx_3)))
                          | None => Some (PRaise "IndexError"%string)
                          end
                        | None => Some (PRaise "IndexError"%string)
                        end
                      | None => Some (PRaise "IndexError"%string)
                      end
                    | None => Some (PRaise "IndexError"%string)
                    end
                  | None => Some (PRaise "IndexError"%string)
                  end
                | None => Some (PRaise "IndexError"%string)
                end
              | None => Some (PRaise "IndexError"%string)
              end
            | None => Some (PRaise "IndexError"%string)
            end
          | None => Some (PRaise "IndexError"%string)
          end
        end
      else Some (PRaise "AssertionError"%string)
    | None => Some (PRaise "IndexError"%string)
    end.
End Src.
