(* GENERATED on every run by harness/props/c09_src.py from the syntax trees of Scenario._is_object_id_used, _mark_object_id_as_used,
   _mark_object_ids_as_used and generate_object_id. Do not edit.
   source: /repo/commonroad/scenario/scenario.py sha1=cdabb0c03eb8 *)
From Coq Require Import List.
Import ListNotations.
From CR Require Import Model.IdPoolSrc.

Definition src_is_used : used_def := UsedIsMember.
Definition src_mark_one : list istmt := [SIf CCounterNone [ACounterSetX]; SIf CUsed [ARaise]; SDo ASetAdd].
Definition src_mark_all_check : list istmt := [SIf (COr CUsed CInNew) [ARaise]; SDo ANewAdd].
Definition src_mark_all_body : list istmt := [SDo ACallMark].
Definition src_generate : list gstmt := [GInitCounter; GRaiseToMax; GIncrement; GReturnCounter].
