(* GENERATED on every run by harness/props/c10_src.py from the syntax trees of LaneletNetwork.cleanup_*_references and remove_*.  Do not edit.
   source: commonroad/scenario/lanelet.py sha1=6b97a2da41d114a0ff7e7758263bd850fe817918 *)
From Coq Require Import List.
From CR Require Import Model.NetworkSrc.
Import ListNotations.

Definition src_cleanup_lanelets : cleanup_prog :=
  {| cp_universe := ULanelets; cp_lanelet := [RList FPred; RList FSucc; RAdj SLeft; RDir SLeft; RAdj SRight; RDir SRight]; cp_incoming := [RInc FIncoming; RInc FStraight; RInc FRight; RInc FLeft]; cp_inter := [RCross] |}.
Definition src_cleanup_signs : cleanup_prog :=
  {| cp_universe := USigns; cp_lanelet := [RSet FSigns; RStop FSigns]; cp_incoming := []; cp_inter := [] |}.
Definition src_cleanup_lights : cleanup_prog :=
  {| cp_universe := ULights; cp_lanelet := [RSet FLights; RStop FLights]; cp_incoming := []; cp_inter := [] |}.
Definition src_remove_lanelet : remove_prog := {| rp_dict := ULanelets; rp_cleanup := CleanupInside |}.
Definition src_remove_sign : remove_prog := {| rp_dict := USigns; rp_cleanup := CleanupInside |}.
Definition src_remove_light : remove_prog := {| rp_dict := ULights; rp_cleanup := CleanupAfter |}.
Definition src_remove_inter : remove_prog := {| rp_dict := UInters; rp_cleanup := CleanupNone |}.
Definition src_from_list : fromlist_prog := {| fl_deepcopy := true; fl_cleanups := [CkLanelets; CkLights; CkSigns] |}.
