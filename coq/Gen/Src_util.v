(* GENERATED on every run by harness/vlib/py2coq.py (symbolic execution of the Python source). Do not edit.
   sources: /repo/commonroad/common/util.py sha1=0f7c26f92d2c, /repo/commonroad/common/validity.py sha1=19c7673a0ed3 *)
From Coq Require Import QArith Qround ZArith Bool List Qminmax.
From CR Require Import Base.QMod Model.Interval.
Open Scope Q_scope.

Section Src.
Variable tau : Q.   (* the double commonroad.TWO_PI as an exact rational *)

Fixpoint make_valid_orientation_loop0 (fuel : nat) (angle : Q) : option (Q) :=
  match fuel with
  | O => None
  | S fuel' => if (Qlt_bool tau angle) then make_valid_orientation_loop0 fuel'  (angle - tau) else Some (angle)
  end.
Fixpoint make_valid_orientation_loop1 (fuel : nat) (angle : Q) : option (Q) :=
  match fuel with
  | O => None
  | S fuel' => if (Qlt_bool angle (- tau)) then make_valid_orientation_loop1 fuel'  (angle + tau) else Some (angle)
  end.
Fixpoint make_valid_orientation_interval_loop0 (fuel : nat) (angle_start : Q) (angle_end : Q) : option (Q * Q) :=
  match fuel with
  | O => None
  | S fuel' => if ((Qlt_bool tau angle_start) || (Qlt_bool tau angle_end)) then make_valid_orientation_interval_loop0 fuel'  (angle_start - tau) (angle_end - tau) else Some (angle_start, angle_end)
  end.
Fixpoint make_valid_orientation_interval_loop1 (fuel : nat) (angle_start : Q) (angle_end : Q) : option (Q * Q) :=
  match fuel with
  | O => None
  | S fuel' => if ((Qlt_bool angle_start (- tau)) || (Qlt_bool angle_start (- tau))) then make_valid_orientation_interval_loop1 fuel'  (angle_start + tau) (angle_end + tau) else Some (angle_start, angle_end)
  end.

(* Interval(a, b) *)
Definition src_mk (a : Q) (b : Q) : res (itv) :=
  if (Qle_bool a b)
  then Ok ({| lo := a; hi := b |})
  else Err.
(* Interval.contains(number) *)
Definition src_contains_pt (I : itv) (x : Q) : bool :=
  ((Qle_bool (lo I) x) && (Qle_bool x (hi I))).
(* Interval.contains(Interval) *)
Definition src_contains_itv (I : itv) (J : itv) : bool :=
  ((Qle_bool (lo I) (lo J)) && (Qle_bool (hi J) (hi I))).
(* number in Interval *)
Definition src_in_pt (I : itv) (x : Q) : bool :=
  ((Qle_bool (lo I) x) && (Qle_bool x (hi I))).
(* Interval in Interval *)
Definition src_in_itv (I : itv) (J : itv) : bool :=
  ((Qle_bool (lo I) (lo J)) && (Qle_bool (hi J) (hi I))).
Definition src_overlaps (I : itv) (J : itv) : bool :=
  ((Qle_bool (lo J) (hi I)) && (Qle_bool (lo I) (hi J))).
Definition src_intersection (I : itv) (J : itv) : res (option (itv)) :=
  if (negb ((Qle_bool (lo J) (hi I)) && (Qle_bool (lo I) (hi J))))
  then Ok (None)
  else if (Qle_bool (Qmax (lo I) (lo J)) (Qmin (hi I) (hi J)))
    then Ok (Some ({| lo := (Qmax (lo I) (lo J)); hi := (Qmin (hi I) (hi J)) |}))
    else Err.
Definition src_length (I : itv) : Q :=
  ((hi I) - (lo I)).
Definition src_add (I : itv) (c : Q) : res (itv) :=
  if (Qle_bool ((lo I) + c) ((hi I) + c))
  then Ok ({| lo := ((lo I) + c); hi := ((hi I) + c) |})
  else Err.
Definition src_sub (I : itv) (c : Q) : res (itv) :=
  if (Qle_bool ((lo I) - c) ((hi I) - c))
  then Ok ({| lo := ((lo I) - c); hi := ((hi I) - c) |})
  else Err.
Definition src_mul (I : itv) (c : Q) : res (itv) :=
  if (Qlt_bool 0 c)
  then if (Qle_bool ((lo I) * c) ((hi I) * c))
    then Ok ({| lo := ((lo I) * c); hi := ((hi I) * c) |})
    else Err
  else if (Qle_bool ((hi I) * c) ((lo I) * c))
    then Ok ({| lo := ((hi I) * c); hi := ((lo I) * c) |})
    else Err.
Definition src_div (I : itv) (c : Q) : res (itv) :=
  if (Qlt_bool 0 c)
  then if (Qeq_bool c 0)
    then Err
    else if (Qle_bool ((lo I) / c) ((hi I) / c))
      then Ok ({| lo := ((lo I) / c); hi := ((hi I) / c) |})
      else Err
  else if (Qeq_bool c 0)
    then Err
    else if (Qle_bool ((hi I) / c) ((lo I) / c))
      then Ok ({| lo := ((hi I) / c); hi := ((lo I) / c) |})
      else Err.
(* round(Interval, n) *)
Definition src_round (I : itv) (n : nat) : res (itv) :=
  if (Qle_bool (qround n (lo I)) (qround n (hi I)))
  then Ok ({| lo := (qround n (lo I)); hi := (qround n (hi I)) |})
  else Err.
Definition src_gt_num (I : itv) (x : Q) : bool :=
  (if (Qlt_bool x (lo I)) then true else false).
Definition src_gt_itv (I : itv) (J : itv) : bool :=
  (if (Qlt_bool (hi J) (lo I)) then true else false).
Definition src_lt_num (I : itv) (x : Q) : bool :=
  (if (Qlt_bool (hi I) x) then true else false).
Definition src_lt_itv (I : itv) (J : itv) : bool :=
  (if (Qlt_bool (hi I) (lo J)) then true else false).
(* validity.is_valid_orientation *)
Definition src_valid_orientation (x : Q) : bool :=
  ((Qle_bool (- tau) x) && (Qle_bool x tau)).
Definition src_make_valid_orientation (fuel : nat) (a : Q) : option (Q) :=
  match make_valid_orientation_loop0 fuel a with
  | None => None
  | Some (angle_1) => match make_valid_orientation_loop1 fuel angle_1 with
    | None => None
    | Some (angle_2) => Some (angle_2)
    end
  end.
Definition src_normalise (fuel : nat) (a : Q) (b : Q) : option (Q * Q) :=
  match make_valid_orientation_interval_loop0 fuel a b with
  | None => None
  | Some (angle_start_3, angle_end_3) => match make_valid_orientation_interval_loop1 fuel angle_start_3 angle_end_3 with
    | None => None
    | Some (angle_start_4, angle_end_4) => Some ((angle_start_4, angle_end_4))
    end
  end.
(* AngleInterval(a, b) *)
Definition src_amk (fuel : nat) (a : Q) (b : Q) : option (res (itv)) :=
  match make_valid_orientation_interval_loop0 fuel a b with
  | None => None
  | Some (angle_start_5, angle_end_5) => match make_valid_orientation_interval_loop1 fuel angle_start_5 angle_end_5 with
    | None => None
    | Some (angle_start_6, angle_end_6) => if (Qlt_bool (angle_end_6 - angle_start_6) tau)
      then if ((Qle_bool (- tau) angle_start_6) && (Qle_bool angle_start_6 tau))
        then if ((Qle_bool (- tau) angle_end_6) && (Qle_bool angle_end_6 tau))
          then if (Qle_bool angle_start_6 angle_end_6)
            then Some (Ok ({| lo := angle_start_6; hi := angle_end_6 |}))
            else Some Err
          else Some Err
        else Some Err
      else Some Err
    end
  end.
(* angle in AngleInterval *)
Definition src_acontains (I : itv) (th : Q) : bool :=
  (Qle_bool (qmod tau (th - (lo I))) ((hi I) - (lo I))).
(* AngleInterval.contains(angle) *)
Definition src_acontains_pt (I : itv) (th : Q) : bool :=
  (Qle_bool (qmod tau (th - (lo I))) ((hi I) - (lo I))).
(* AngleInterval.contains(AngleInterval) *)
Definition src_acontains_itv (I : itv) (J : itv) : bool :=
  (Qle_bool ((qmod tau ((lo J) - (lo I))) + ((hi J) - (lo J))) ((hi I) - (lo I))).
(* AngleInterval.contains(Interval) *)
Definition src_acontains_plain_itv (I : itv) (J : itv) : bool :=
  (Qle_bool ((qmod tau ((lo J) - (lo I))) + ((hi J) - (lo J))) ((hi I) - (lo I))).
Definition src_aadd (fuel : nat) (I : itv) (c : Q) : option (res (itv)) :=
  match make_valid_orientation_interval_loop0 fuel ((lo I) + c) ((hi I) + c) with
  | None => None
  | Some (angle_start_7, angle_end_7) => match make_valid_orientation_interval_loop1 fuel angle_start_7 angle_end_7 with
    | None => None
    | Some (angle_start_8, angle_end_8) => if (Qlt_bool (angle_end_8 - angle_start_8) tau)
      then if ((Qle_bool (- tau) angle_start_8) && (Qle_bool angle_start_8 tau))
        then if ((Qle_bool (- tau) angle_end_8) && (Qle_bool angle_end_8 tau))
          then if (Qle_bool angle_start_8 angle_end_8)
            then Some (Ok ({| lo := angle_start_8; hi := angle_end_8 |}))
            else Some Err
          else Some Err
        else Some Err
      else Some Err
    end
  end.
Definition src_asub (fuel : nat) (I : itv) (c : Q) : option (res (itv)) :=
  match make_valid_orientation_interval_loop0 fuel ((lo I) - c) ((hi I) - c) with
  | None => None
  | Some (angle_start_9, angle_end_9) => match make_valid_orientation_interval_loop1 fuel angle_start_9 angle_end_9 with
    | None => None
    | Some (angle_start_10, angle_end_10) => if (Qlt_bool (angle_end_10 - angle_start_10) tau)
      then if ((Qle_bool (- tau) angle_start_10) && (Qle_bool angle_start_10 tau))
        then if ((Qle_bool (- tau) angle_end_10) && (Qle_bool angle_end_10 tau))
          then if (Qle_bool angle_start_10 angle_end_10)
            then Some (Ok ({| lo := angle_start_10; hi := angle_end_10 |}))
            else Some Err
          else Some Err
        else Some Err
      else Some Err
    end
  end.
End Src.
