(* GENERATED on every run by harness/props/cache_src.py from the syntax trees of the setters of Rectangle, Circle, Polygon (geometry/shape.py), Lanelet (scenario/lanelet.py), TrajectoryPrediction (prediction/prediction.py) and Obstacle (scenario/obstacle.py).  Do not edit. *)
From Coq Require Import List.
From CR Require Import Model.CacheTable.
Import ListNotations.

(* Rectangle (commonroad/geometry/shape.py sha1=04733724a9c1a76ad741cbb007abf2778155b391)
   attributes: 0 = _length, 1 = _width, 2 = _center, 3 = _orientation
   derived:    0 = _vertices <- {_length, _width, _center, _orientation}, 1 = __shapely_polygon <- {_length, _width, _center, _orientation}
*)
Definition src_rectangle_caches : list nat := [0; 1].
Definition src_rectangle_deps (k : nat) : list nat := match k with | 0 => [0; 1; 2; 3] | 1 => [0; 1; 2; 3] | _ => [] end.
Definition src_rectangle_setters : list setter :=
  [
  (* length *) {| s_attr := 0; s_main := [EStore; EDrop 0; EDrop 1]; s_tail := [] |};
  (* width *) {| s_attr := 1; s_main := [EStore; EDrop 0; EDrop 1]; s_tail := [] |};
  (* center *) {| s_attr := 2; s_main := [EStore; EDrop 0; EDrop 1]; s_tail := [] |};
  (* orientation *) {| s_attr := 3; s_main := [EStore; EDrop 0; EDrop 1]; s_tail := [] |}
  ].

(* Circle (commonroad/geometry/shape.py sha1=04733724a9c1a76ad741cbb007abf2778155b391)
   attributes: 0 = _radius, 1 = _center
   derived:    0 = _shapely_circle <- {_radius, _center}
*)
Definition src_circle_caches : list nat := [0].
Definition src_circle_deps (k : nat) : list nat := match k with | 0 => [0; 1] | _ => [] end.
Definition src_circle_setters : list setter :=
  [
  (* radius *) {| s_attr := 0; s_main := [EStore; EDrop 0]; s_tail := [] |};
  (* center *) {| s_attr := 1; s_main := [EStore; EDrop 0]; s_tail := [] |}
  ].

(* Polygon (commonroad/geometry/shape.py sha1=04733724a9c1a76ad741cbb007abf2778155b391)
   attributes: 0 = _vertices
   derived:    0 = _min <- {_vertices}, 1 = _max <- {_vertices}, 2 = _shapely_polygon <- {_vertices}
*)
Definition src_polygon_caches : list nat := [0; 1; 2].
Definition src_polygon_deps (k : nat) : list nat := match k with | 0 => [0] | 1 => [0] | 2 => [0] | _ => [] end.
Definition src_polygon_setters : list setter :=
  [
  (* vertices *) {| s_attr := 0; s_main := [EStore; ERebuild 0; ERebuild 1; ERebuild 2]; s_tail := [] |}
  ].

(* Lanelet (commonroad/scenario/lanelet.py sha1=6b97a2da41d114a0ff7e7758263bd850fe817918)
   attributes: 0 = _left_vertices, 1 = _center_vertices, 2 = _right_vertices
   derived:    0 = _distance <- {_center_vertices}, 1 = _inner_distance <- {_left_vertices, _right_vertices}, 2 = _polygon <- {_left_vertices, _right_vertices}
   note: left_vertices: rebuild guarded by `self._left_vertices is not None and self._right_vertices is not None` (holds once __init__ has run)
   note: center_vertices: rebuild guarded by `self._left_vertices is not None and self._right_vertices is not None` (holds once __init__ has run)
   note: right_vertices: rebuild guarded by `self._left_vertices is not None and self._right_vertices is not None` (holds once __init__ has run)
*)
Definition src_lanelet_caches : list nat := [0; 1; 2].
Definition src_lanelet_deps (k : nat) : list nat := match k with | 0 => [1] | 1 => [0; 2] | 2 => [0; 2] | _ => [] end.
Definition src_lanelet_setters : list setter :=
  [
  (* left_vertices *) {| s_attr := 0; s_main := [EStore; EDrop 0; EDrop 1; ERebuild 2]; s_tail := [] |};
  (* center_vertices *) {| s_attr := 1; s_main := [EStore; EDrop 0; EDrop 1; ERebuild 2]; s_tail := [] |};
  (* right_vertices *) {| s_attr := 2; s_main := [EStore; EDrop 0; EDrop 1; ERebuild 2]; s_tail := [] |}
  ].

(* TrajectoryPrediction (commonroad/prediction/prediction.py sha1=1d2301001a08edcb1c3776f8463de2d42b0184fd)
   attributes: 0 = _trajectory, 1 = _shape, 2 = _wheelbase_lengths
   derived:    0 = occupancy_set <- {_trajectory, _shape, _wheelbase_lengths}
*)
Definition src_trajectory_prediction_caches : list nat := [0].
Definition src_trajectory_prediction_deps (k : nat) : list nat := match k with | 0 => [0; 1; 2] | _ => [] end.
Definition src_trajectory_prediction_setters : list setter :=
  [
  (* trajectory *) {| s_attr := 0; s_main := [EStore; EDrop 0]; s_tail := [] |};
  (* shape *) {| s_attr := 1; s_main := [EStore; EDrop 0]; s_tail := [] |}
  ].

(* Obstacle (commonroad/scenario/obstacle.py sha1=f6f65f0480b8c0876d2ddc90e0f7e51fb48d85e0)
   attributes: 0 = _initial_state, 1 = _obstacle_shape
   derived:    0 = _initial_occupancy_shape <- {_initial_state, _obstacle_shape}
   note: obstacle_shape: _obstacle_shape is stored only while it does not exist yet (construction); afterwards the setter leaves the object alone
*)
Definition src_obstacle_caches : list nat := [0].
Definition src_obstacle_deps (k : nat) : list nat := match k with | 0 => [0; 1] | _ => [] end.
Definition src_obstacle_setters : list setter :=
  [
  (* initial_state *) {| s_attr := 0; s_main := [EStore; ERebuild 0]; s_tail := [ERebuild 0] |};
  (* obstacle_shape *) {| s_attr := 1; s_main := []; s_tail := [] |}
  ].

(* TrafficLightCycle (commonroad/scenario/traffic_light.py sha1=2d13ef0188dab6b84226451dc9c5a7966118510e)
   attributes: 0 = _cycle_elements, 1 = _time_offset, 2 = _active
   derived:    0 = _cycle_init_timesteps <- {_cycle_elements, _time_offset}
*)
Definition src_traffic_light_cycle_caches : list nat := [0].
Definition src_traffic_light_cycle_deps (k : nat) : list nat := match k with | 0 => [0; 1] | _ => [] end.
Definition src_traffic_light_cycle_setters : list setter :=
  [
  (* cycle_elements *) {| s_attr := 0; s_main := [EStore; EDrop 0]; s_tail := [] |};
  (* time_offset *) {| s_attr := 1; s_main := [EStore; EDrop 0]; s_tail := [] |};
  (* active *) {| s_attr := 2; s_main := [EStore]; s_tail := [] |}
  ].
