(* GENERATED on every run by harness/props/c07_src.py from the syntax trees of the four registry helpers of Scenario.  Do not edit.
   source: commonroad/scenario/scenario.py sha1=cdabb0c03eb8fbea4c08467a4ce3b4e8975b1006 *)
From Coq Require Import List.
From CR Require Import Model.AssignSrc.
Import ListNotations.

Definition src_registry : reg_prog :=
  {| rp_add_static := [IShape];
     rp_remove_static := [IShape; ICenter];
     rp_add_dyn_init := [IShape];
     rp_add_dyn_pred := [DShape];
     rp_remove_dyn_init := [IShape; ICenter];
     rp_remove_dyn_pred := [DShape; DCenter] |}.
