(* GENERATED on every run by harness/props/c15_src.py from the syntax trees of the write methods of XMLFileWriter and ProtobufFileWriter.  Do not edit.
   sources: commonroad/common/writer/file_writer_interface.py sha1=cb94354037e09d80f26dd1783a4e192cb2a0d285, commonroad/common/writer/file_writer_protobuf.py sha1=c0133fc4ee64ac9f3a9f35f81a83fc3dd8aed493, commonroad/common/writer/file_writer_xml.py sha1=19210cfc31a84c431c4f701ed3ecf617b01a5621 *)
From Coq Require Import List.
From CR Require Import Model.WritersSrc.
Import ListNotations.

Definition src_xml_write : list wstep := [WPolicy; WReset; WSetPrec; WHeader; WObjects; WProblems; WValidate; WEmit].
Definition src_xml_write_scenario : list wstep := [WPolicy; WReset; WSetPrec; WHeader; WObjects; WEmit].
Definition src_pb_write : list wstep := [WPolicy; WReset; WHeader; WObjects; WProblems; WValidate; WEmit].
Definition src_pb_write_scenario : list wstep := [WPolicy; WReset; WHeader; WObjects; WEmit].
Definition src_init : init_form := InitSetsPrecision.
Definition src_policy : policy_form := PolicyStd.
