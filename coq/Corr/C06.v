(* Corr/C06.v — correspondence relation for C06: Model/Spatial.v vs the observed behaviour of
   commonroad.geometry.shape and commonroad.scenario.lanelet.LaneletNetwork.
   Booleans and id sets are compared exactly (sets as sets), coordinates / radii with tolerance.
   The harness leaves out decisions closer than 1e-9 to a boundary unless every coordinate involved
   is exactly representable (it counts them). *)
From Coq Require Import QArith Qabs ZArith NArith Bool List.
From CR Require Import Base.QMod Model.Spatial Corr.Obs.
Import ListNotations.
Open Scope Q_scope.

Inductive obs_ids := OIds (l : list Z) | OExc.

Inductive query :=
| QPos (p : pt) (o : obs_ids)                      (* find_lanelet_by_position([p])[0] *)
| QShape (s : prim) (o : obs_ids)                  (* find_lanelet_by_shape(shape) *)
| QContains (p : pt) (o : list (Z * bool)).        (* lanelet.contains_points([p]) per lanelet id *)

Inductive case :=
| CPip (r : ring) (p : pt) (o : bool)              (* shapely Polygon(r).intersects(Point(p)) *)
| CPolyContains (r : ring) (p : pt) (o : bool)     (* Polygon(r).contains_point(p) *)
| CRect (R : rect) (p : pt) (o : bool)             (* Rectangle.contains_point(p) *)
| CRectVerts (R : rect) (vs : list pt)             (* Rectangle.vertices / shapely_object coords *)
| CCirc (C : circ) (p : pt) (o : bool)             (* Circle.contains_point(p) *)
| CCircExport (C : circ) (rad : Q)                 (* radius of Circle.shapely_object *)
| CGroup (ss : list prim) (p : pt) (o : bool)      (* ShapeGroup.contains_point(p) *)
| CMeets (s : prim) (r : ring) (o : bool)          (* lanelet polygon .intersects(shape.shapely_object) *)
| CNet (ops : list op) (qs : list query).          (* construction route, then lookups *)

Definition memZ (i : Z) (l : list Z) : bool := existsb (Z.eqb i) l.
Definition same_set (a b : list Z) : bool := forallb (fun i => memZ i b) a && forallb (fun i => memZ i a) b.

Definition agree_ids (m : result (list Z)) (o : obs_ids) : bool :=
  match m, o with
  | Ret l, OIds l' => same_set l l'
  | Raise _, OExc => true
  | _, _ => false
  end.

Definition close_pt (a b : pt) : bool := close_s (Qabs (px b) + Qabs (py b)) (px a) (px b)
                                         && close_s (Qabs (px b) + Qabs (py b)) (py a) (py b).
Fixpoint close_ring (a b : ring) : bool :=
  match a, b with
  | [], [] => true
  | x :: r, y :: r' => close_pt x y && close_ring r r'
  | _, _ => false
  end.

Definition check_query (s : net) (q : query) : bool :=
  match q with
  | QPos p o => agree_ids (find_by_position s p) o
  | QShape sh o => agree_ids (find_by_shape s (prim_meets_ring sh)) o
  | QContains p o =>
      forallb (fun la => match find (fun e => Z.eqb (fst e) (lid la)) o with
                         | Some e => Bool.eqb (lanelet_contains la p) (snd e)
                         | None => false
                         end) (lanelets s)
      && Nat.eqb (length o) (length (lanelets s))
  end.

Definition check (c : case) : bool :=
  match c with
  | CPip r p o => Bool.eqb (pip r p) o
  | CPolyContains r p o => Bool.eqb (poly_contains r p) o
  | CRect R p o => Bool.eqb (rect_contains R p) o && Bool.eqb (inside_cw (corners R) p) o
  | CRectVerts R vs => close_ring (corners R) vs
  | CCirc C p o => Bool.eqb (circ_contains C p) o
  | CCircExport C rad => close (circ_export_radius C) rad
  | CGroup ss p o => Bool.eqb (shape_contains (Group ss) p) o
  | CMeets s r o => Bool.eqb (prim_meets_ring s r) o
  | CNet ops qs => all_ok ops empty && forallb (check_query (run ops empty)) qs
  end.
