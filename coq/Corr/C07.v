(* Corr/C07.v — correspondence relation for C07: Model/Assign.v vs the observed behaviour of
   Scenario.add_objects / remove_obstacle / assign_obstacles_to_lanelets and of the file reader with
   lanelet_assignment=True.  After every operation of a history: exception class, the keys of the obstacle
   dicts, every assignment attribute of every obstacle of the universe and every registry of every
   lanelet, sets compared as sets.  The oracles cin / sm of the world are tables (the harness fills them
   with what find_lanelet_by_position / find_lanelet_by_shape return for the obstacle's states). *)
From Coq Require Import ZArith Bool List.
From CR Require Import Model.Assign.
Import ListNotations.
Open Scope Z_scope.

Definition tab (A : Type) := list (Z * A).
Fixpoint lookup {A} (k : Z) (t : tab A) : option A :=
  match t with [] => None | (k', v) :: r => if Z.eqb k' k then Some v else lookup k r end.

Record wdata := {
  w_dyn : tab bool;                 (* obstacle id -> is a DynamicObstacle *)
  w_t0 : tab Z;
  w_tf : tab Z;                     (* only for obstacles with a trajectory prediction *)
  w_cin : tab (tab (list Z));       (* obstacle -> time step -> lanelet ids *)
  w_sm : tab (tab (list Z))
}.
Definition oracle (t : tab (tab (list Z))) (o ts : Z) : list Z :=
  match lookup o t with
  | Some d => match lookup ts d with Some l => l | None => [] end
  | None => []
  end.
Definition mkworld (w : wdata) : world :=
  {| kind := fun o => match lookup o (w_dyn w) with Some true => Dynamic | _ => Static end;
     t0 := fun o => match lookup o (w_t0 w) with Some t => t | None => 0 end;
     tf := fun o => lookup o (w_tf w);
     cin := oracle (w_cin w);
     sm := oracle (w_sm w) |}.

Inductive oexn := ENone | EKeyError | EAttributeError | EAssertionError | EOther.
Record osnap := {
  o_statics : list Z; o_dynamics : list Z;
  o_ic : tab (option (list Z)); o_ish : tab (option (list Z));    (* per obstacle of the universe *)
  o_ca : tab (option (tab (list Z))); o_sa : tab (option (tab (list Z)));
  o_sreg : tab (list Z);                                          (* per lanelet *)
  o_dreg : tab (tab (list Z))
}.

Definition same_set (a b : list Z) : bool := forallb (fun i => memZ i b) a && forallb (fun i => memZ i a) b.
Definition same_oset (a b : option (list Z)) : bool :=
  match a, b with Some x, Some y => same_set x y | None, None => true | _, _ => false end.
(* two dicts: the same keys, the same sets *)
Definition same_dict (a b : tab (list Z)) : bool :=
  forallb (fun e => match lookup (fst e) b with Some v => same_set (snd e) v | None => false end) a &&
  forallb (fun e => match lookup (fst e) a with Some v => same_set (snd e) v | None => false end) b.
Definition same_odict (a b : option (tab (list Z))) : bool :=
  match a, b with Some x, Some y => same_dict x y | None, None => true | _, _ => false end.

Definition agree_exn (m : outcome) (o : oexn) : bool :=
  match m, o with
  | Done, ENone => true
  | Raised KeyError, EKeyError => true
  | Raised AttributeError, EAttributeError => true
  | Raised AssertionError, EAssertionError => true
  | _, _ => false
  end.

Definition agree_snap (times : list Z) (s : st) (o : osnap) : bool :=
  same_set (statics s) (o_statics o) && same_set (dynamics s) (o_dynamics o) &&
  forallb (fun e => same_oset (ic s (fst e)) (snd e)) (o_ic o) &&
  forallb (fun e => same_oset (ish s (fst e)) (snd e)) (o_ish o) &&
  forallb (fun e => same_odict (ca s (fst e)) (snd e)) (o_ca o) &&
  forallb (fun e => same_odict (sa s (fst e)) (snd e)) (o_sa o) &&
  forallb (fun e => same_set (sreg s (fst e)) (snd e)) (o_sreg o) &&
  forallb (fun e => forallb (fun t => match dreg s (fst e) t, lookup t (snd e) with
                                      | Some r, Some r' => same_set r r'
                                      | None, None => true
                                      | _, _ => false
                                      end) times
                    && forallb (fun kv => memZ (fst kv) times) (snd e)) (o_dreg o).

Inductive case := CHist (w : wdata) (times : list Z) (steps : list (op * oexn * option osnap)).

Fixpoint replay (W : world) (times : list Z) (steps : list (op * oexn * option osnap)) (s : st) : bool :=
  match steps with
  | [] => true
  | (o, e, snap) :: r =>
      ok W s o &&
      let (s1, out) := step W s o in
      agree_exn out e &&
      match out, snap with
      | Done, Some sn => agree_snap times s1 sn && replay W times r s1
      | Done, None => false
      | Raised _, _ => true        (* the history ends with the exception *)
      end
  end.

Definition check (c : case) : bool :=
  match c with CHist w times steps => replay (mkworld w) times steps init end.
