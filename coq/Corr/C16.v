(* Corr/C16.v — correspondence relation for C16: model (Model/Interval.v) vs observed behaviour
   of commonroad.common.util.Interval / AngleInterval. *)
From Coq Require Import QArith Qabs ZArith Bool List.
From CR Require Import Base.QMod Model.Interval Corr.Obs.
Open Scope Q_scope.

Inductive case :=
| CCtor (a b : Q) (o : obs_i)
| CContainsPt (a b x : Q) (o : obs_b)
| CContainsItv (a b c d : Q) (o : obs_b)
| COverlaps (a b c d : Q) (o : obs_b)
| CIntersection (a b c d : Q) (o : obs_i)
| CAdd (a b c : Q) (o : obs_i)
| CSub (a b c : Q) (o : obs_i)
| CMul (a b c : Q) (o : obs_i)
| CDiv (a b c : Q) (o : obs_i)
| CRound (n : nat) (a b : Q) (o : obs_i)
| CGtNum (a b x : Q) (o : obs_b)
| CLtNum (a b x : Q) (o : obs_b)
| CACtor (a b : Q) (o : obs_i)
| CAContains (a b th : Q) (o : obs_b)
| CAContainsItv (a b c d : Q) (o : obs_b)
| CAAdd (a b c : Q) (o : obs_i)
| CASub (a b c : Q) (o : obs_i)
| CMvo (a : Q) (o : obs_q).

Definition I_ (a b : Q) : itv := {| lo := a; hi := b |}.

Definition agree_res (scale : Q) (m : res itv) (o : obs_i) : bool :=
  match m, o with
  | Ok K, OI a b => close_s scale (lo K) a && close_s scale (hi K) b
  | Err, OIExc => true
  | _, _ => false
  end.

Definition fuel := 200%nat.

Definition check (tau : Q) (c : case) : bool :=
  match c with
  | CCtor a b o => agree_res 0 (mk a b) o
  | CContainsPt a b x o => eqb_obs_b (Some (contains_pt (I_ a b) x)) o
  | CContainsItv a b c d o => eqb_obs_b (Some (contains_itv (I_ a b) (I_ c d))) o
  | COverlaps a b c d o => eqb_obs_b (Some (overlaps (I_ a b) (I_ c d))) o
  | CIntersection a b c d o =>
      match intersection (I_ a b) (I_ c d), o with
      | None, OINone => true
      | Some r, _ => agree_res 0 r o
      | _, _ => false
      end
  | CAdd a b c o => agree_res 0 (add (I_ a b) c) o
  | CSub a b c o => agree_res 0 (sub (I_ a b) c) o
  | CMul a b c o => agree_res 0 (mul (I_ a b) c) o
  | CDiv a b c o => agree_res 0 (div (I_ a b) c) o
  | CRound n a b o => agree_res 0 (round n (I_ a b)) o
  | CGtNum a b x o => eqb_obs_b (Some (gt_num (I_ a b) x)) o
  | CLtNum a b x o => eqb_obs_b (Some (lt_num (I_ a b) x)) o
  | CACtor a b o => match amk tau fuel a b with Some r => agree_res (Qabs a + Qabs b) r o | None => false end
  | CAContains a b th o => eqb_obs_b (Some (acontains tau (I_ a b) th)) o
  | CAContainsItv a b c d o => eqb_obs_b (Some (acontains_itv tau (I_ a b) (I_ c d))) o
  | CAAdd a b c o => match aadd tau fuel (I_ a b) c with Some r => agree_res (Qabs c) r o | None => false end
  | CASub a b c o => match asub tau fuel (I_ a b) c with Some r => agree_res (Qabs c) r o | None => false end
  | CMvo a o => match make_valid_orientation tau fuel a, o with
                | Some m, OQ x => close_s (Qabs a) m x
                | _, _ => false end
  end.
