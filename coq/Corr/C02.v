(* Corr/C02.v — correspondence for the enum transport model: for a Python member name of enum [ename],
   what pb.Enum.Value(name) returned (None = ValueError) and what PyEnum[pb.Enum.Name(number)] gave back. *)
From Coq Require Import ZArith String List Bool.
From CR Require Import Model.EnumName Gen.PbEnums.
Import ListNotations.
Open Scope string_scope.

Inductive case := CEnum (ename member : string) (number : option Z) (back : option string).

Definition oz_eqb (a b : option Z) := match a, b with Some x, Some y => Z.eqb x y | None, None => true | _, _ => false end.
Definition os_eqb (a b : option string) :=
  match a, b with Some x, Some y => String.eqb x y | None, None => true | _, _ => false end.

Definition check (c : case) : bool :=
  match c with
  | CEnum ename member number back =>
      match find (fun r => String.eqb (fst r) ename) pb_enums with
      | None => false
      | Some (_, t) =>
          oz_eqb (encode t member) number &&
          os_eqb (match encode t member with Some z => decode t z | None => None end) back
      end
  end.
