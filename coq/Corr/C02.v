(* Corr/C02.v — correspondence relations for property C02 (protobuf write -> read is lossless).
   E. enum transport: for a Python member name of enum [ename], what pb.Enum.Value(name) returned (None =
      ValueError) and what PyEnum[pb.Enum.Name(number)] gave back  ~  Model/EnumName.v on the generated tables;
   A. the message the real writer produced (converted to a tree by the protobuf runtime: ListFields)
        =  write W.pb_root (value extracted from the original objects)          - EXACT, doubles are not rounded;
   B. value extracted from the objects the real reader built  =  read R.pb_root (tree of the written message). *)
From Coq Require Import QArith ZArith String List Bool.
From CR Require Import Model.Codec Model.EnumName Gen.PbEnums Gen.PbFmt.
Import ListNotations.
Open Scope string_scope.
Open Scope list_scope.

Inductive case :=
| CEnum (ename member : string) (number : option Z) (back : option string)
| CaseA (v : val) (t : tree)      (* original value, tree of the message written by the implementation *)
| CaseB (t : tree) (v : val).     (* tree of the written message, value read back by the implementation *)

Definition oz_eqb (a b : option Z) := match a, b with Some x, Some y => Z.eqb x y | None, None => true | _, _ => false end.
Definition os_eqb (a b : option string) :=
  match a, b with Some x, Some y => String.eqb x y | None, None => true | _, _ => false end.

(* exact equality of atoms: a double is the rational it denotes (tolerance 0) *)
Definition atom_eqb (a b : atom) : bool :=
  match a, b with
  | ANum x, ANum y => Qeq_bool x y
  | AInt x, AInt y => Z.eqb x y
  | AStr x, AStr y => String.eqb x y
  | ABool x, ABool y => Bool.eqb x y
  | _, _ => false
  end.

Fixpoint tree_eqb (a b : tree) {struct a} : bool :=
  match a, b with
  | Leaf t x, Leaf u y => String.eqb t u && atom_eqb x y
  | Node t ks, Node u ls =>
      String.eqb t u &&
      (fix go (ks : list tree) (ls : list tree) {struct ks} : bool :=
         match ks, ls with
         | [], [] => true
         | k :: kr, l :: lr => tree_eqb k l && go kr lr
         | _, _ => false
         end) ks ls
  | _, _ => false
  end.

Fixpoint val_eqb (a b : val) {struct a} : bool :=
  let fix go (xs ys : list val) {struct xs} : bool :=
    match xs, ys with
    | [], [] => true
    | x :: xr, y :: yr => val_eqb x y && go xr yr
    | _, _ => false
    end in
  match a, b with
  | VAtom x, VAtom y => atom_eqb x y
  | VRec xs, VRec ys => go xs ys
  | VList xs, VList ys => go xs ys
  | VNone, VNone => true
  | VSome x, VSome y => val_eqb x y
  | VAlt i x, VAlt j y => Nat.eqb i j && val_eqb x y
  | _, _ => false
  end.

Definition check (c : case) : bool :=
  match c with
  | CEnum ename member number back =>
      match find (fun r => String.eqb (fst r) ename) pb_enums with
      | None => false
      | Some (_, t) =>
          oz_eqb (encode t member) number &&
          os_eqb (match encode t member with Some z => decode t z | None => None end) back
      end
  | CaseA v t => match write W.pb_root "CommonRoad" v with
                 | Some m => tree_eqb m t
                 | None => false
                 end
  | CaseB t v => match read R.pb_root t with
                 | Some v' => val_eqb v' v
                 | None => false
                 end
  end.

(* diagnostics for replay files: position (child indices) of the first difference;
   555 = the model's writer / reader rejects the input, 999 = different number of children, 888 = different
   constructors, 666 = different tags *)
Fixpoint val_diff (a b : val) {struct a} : option (list nat) :=
  let fix go (i : nat) (xs ys : list val) {struct xs} : option (list nat) :=
    match xs, ys with
    | [], [] => None
    | x :: xr, y :: yr => match val_diff x y with Some p => Some (i :: p) | None => go (S i) xr yr end
    | _, _ => Some [i; 999%nat]
    end in
  match a, b with
  | VAtom x, VAtom y => if atom_eqb x y then None else Some []
  | VRec xs, VRec ys => go O xs ys
  | VList xs, VList ys => go O xs ys
  | VNone, VNone => None
  | VSome x, VSome y => val_diff x y
  | VAlt i x, VAlt j y => if Nat.eqb i j then val_diff x y else Some [777%nat]
  | _, _ => Some [888%nat]
  end.

Fixpoint tree_diff (a b : tree) {struct a} : option (list nat) :=
  match a, b with
  | Leaf t x, Leaf u y => if String.eqb t u && atom_eqb x y then None else Some []
  | Node t ks, Node u ls =>
      if negb (String.eqb t u) then Some [666%nat] else
      (fix go (i : nat) (ks : list tree) (ls : list tree) {struct ks} : option (list nat) :=
         match ks, ls with
         | [], [] => None
         | k :: kr, l :: lr => match tree_diff k l with Some p => Some (i :: p) | None => go (S i) kr lr end
         | _, _ => Some [i; 999%nat]
         end) O ks ls
  | _, _ => Some [888%nat]
  end.

Definition diagnose (c : case) : option (list nat) :=
  match c with
  | CEnum _ _ _ _ => if check c then None else Some []
  | CaseA v t => match write W.pb_root "CommonRoad" v with
                 | Some m => tree_diff m t
                 | None => Some [555%nat]
                 end
  | CaseB t v => match read R.pb_root t with
                 | Some v' => val_diff v' v
                 | None => Some [555%nat]
                 end
  end.
