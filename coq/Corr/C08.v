(* Corr/C08.v — correspondence relation for C08: Model/Goal.v vs observed behaviour of
   GoalRegion.is_reached / PlanningProblem.goal_reached.
   A state's position is represented by the list of observed containment results, one per goal state
   (shape = index of the goal state); hypot / atan2 are finite tables (argument pair -> value libm returned
   for exactly that pair) with a sentinel default, so a model that passed other arguments would disagree. *)
From Coq Require Import QArith ZArith Bool List.
From CR Require Import Base.QMod Model.Interval Model.Goal Corr.Obs.
Import ListNotations.
Open Scope Q_scope.

Definition pos := list bool.
Definition shape := nat.
Definition inside (i : shape) (p : pos) : bool := nth i p false.

Definition table := list (Q * Q * Q).
Fixpoint lookup (t : table) (a b : Q) : Q :=
  match t with
  | [] => 1000000
  | (x, y, v) :: r => if Qeq_bool a x && Qeq_bool b y then v else lookup r a b
  end.

Inductive obs_g := OG (b : bool) (i : Z) | OGExc.

Inductive case :=
| CIsReached (G : list (gstate shape)) (s : state pos) (hyp at2 : table) (o : obs_b)
| CGoalReached (G : list (gstate shape)) (ss : list (state pos)) (hyp at2 : table) (o : obs_g).

Definition res_opt {A} (r : res A) : option A := match r with Ok a => Some a | Err => None end.

Definition check (tau : Q) (c : case) : bool :=
  match c with
  | CIsReached G s hyp at2 o =>
      eqb_obs_b (res_opt (is_reached tau pos shape inside (lookup hyp) (lookup at2) G s)) o
  | CGoalReached G ss hyp at2 o =>
      let isr := is_reached tau pos shape inside (lookup hyp) (lookup at2) G in
      match goal_reached tau pos shape inside (lookup hyp) (lookup at2) G ss, o with
      | Err, OGExc => true
      | Ok (true, _), OG true i =>
          (* any index whose state reaches the goal is accepted *)
          (0 <=? i)%Z && match nth_error ss (Z.to_nat i) with
                         | Some s => match isr s with Ok true => true | _ => false end
                         | None => false
                         end
      | Ok (false, j), OG false i => (j =? i)%Z
      | _, _ => false
      end
  end.
