(* Corr/C11.v — correspondence relation for C11.  The abstract world of Model/Caches.v is instantiated with
   *tokens*: every primary value is a term recording how it was obtained (a generated value [T k], moved by motion m
   [Mv m t], projected to 2D [To2d t]); a recomputed value is the tuple of the tokens it was computed from.  Hence a
   cache is valid exactly when it equals the recomputation from the current tokens, and the model predicts, after
   every operation of a history, for every cache: empty / populated and valid / populated and stale.
   The harness observes the same three-valued status on the implementation (cache field present? equal to what a
   rebuilt object computes?) together with exception classes, history lengths and history time steps. *)
From Coq Require Import List ZArith Bool Arith.
From CR Require Import Base.G5Machine Model.Caches.
Import ListNotations.

Inductive tok := T (z : Z) | Mv (m : Z) (t : tok) | To2d (t : tok).
Fixpoint tok_eqb (a b : tok) : bool :=
  match a, b with
  | T x, T y => Z.eqb x y
  | Mv m x, Mv n y => Z.eqb m n && tok_eqb x y
  | To2d x, To2d y => tok_eqb x y
  | _, _ => false
  end.
Definition pair_eqb (a b : tok * tok) : bool := tok_eqb (fst a) (fst b) && tok_eqb (snd a) (snd b).

Fixpoint cumsum (acc : Z) (l : list Z) : list Z :=
  match l with [] => [] | x :: r => (acc + x)%Z :: cumsum (acc + x)%Z r end.
Fixpoint list_eqb {A} (e : A -> A -> bool) (a b : list A) : bool :=
  match a, b with
  | [], [] => true
  | x :: r, y :: s => e x y && list_eqb e r s
  | _, _ => false
  end.

(* states carry their time step; everything else is a token *)
Definition TokW : world := {|
  shape := tok; traj := tok; state := Z * tok; setpred := tok; sigst := Z; ids := Z; sigser := Z;
  motion := Z; verts := tok; colour := Z;
  oshape := tok * tok; occ := Z * (tok * tok); occs := tok * tok; ring := tok; dists := tok; geom := tok;
  cum := list Z; qarg := unit; ans := tok;
  occ_of := fun s t => (s, t);
  oshape_of := fun s st => (s, snd st);
  poly_of := fun v => v;
  dist_of := fun v => v;
  inner_of := fun v => v;
  geom_of := fun r => r;
  cum_of := fun e off => off :: map (fun x => (x + off)%Z) (cumsum 0 (map snd e));
  move_traj := fun m t => Mv m t;
  move_state := fun m st => (fst st, Mv m (snd st));
  move_set := fun m t => Mv m t;
  move_verts := fun m v => Mv m v;
  to2d := fun v => To2d v;
  time_of := fun st => fst st;
  mk_occ := fun t s => (t, s);
  occ_lookup := fun c t => Some (t, c);
  set_lookup := fun sp t => Some (t, (sp, sp));
  traj_state := fun tr t => Some (t, tr);
  interp_of := fun d v _ => d;
  contains_of := fun r _ => r;
  hit_pt := fun _ _ => true;
  hit_shape := fun _ _ => true;
  light_state := fun e off c t => None
|}.

Inductive cst := Empty | Valid | Stale.
Definition cst_eqb (a b : cst) : bool :=
  match a, b with Empty, Empty | Valid, Valid | Stale, Stale => true | _, _ => false end.
Definition st_opt {A} (e : A -> A -> bool) (c : option A) (want : A) : cst :=
  match c with None => Empty | Some x => if e x want then Valid else Stale end.
Definition st_val {A} (e : A -> A -> bool) (x want : A) : cst := if e x want then Valid else Stale.

Definition p_status (p : pred TokW) : list cst := [st_opt pair_eqb (p_occ TokW p) (p_shape TokW p, p_traj TokW p)].
Definition o_status (o : obst TokW) : list cst :=
  st_val pair_eqb (o_init_occ TokW o) (d_shape TokW (o_data TokW o), snd (d_init TokW (o_data TokW o)))
  :: match o_pred TokW o with PTraj _ q => p_status q | _ => [Empty] end.
Definition l_status (l : lanelet TokW) : list cst :=
  [st_val tok_eqb (l_poly TokW l) (l_verts TokW l); st_opt tok_eqb (l_dist TokW l) (l_verts TokW l);
   st_opt tok_eqb (l_inner TokW l) (l_verts TokW l)].
Definition c_status (c : cycle TokW) : list cst :=
  [st_opt (list_eqb Z.eqb) (c_cum TokW c) (cum_of TokW (c_elems TokW c) (c_off TokW c))].
Definition ent_eqb (a b : Z * tok) : bool := Z.eqb (fst a) (fst b) && tok_eqb (snd a) (snd b).
Definition n_status (n : net TokW) : list cst :=
  let want := map (fun l => (l_id TokW l, l_verts TokW l)) (n_lanelets TokW n) in
  st_val (list_eqb ent_eqb) (n_buffered TokW n) want :: st_opt (list_eqb ent_eqb) (n_tree TokW n) want
  :: flat_map l_status (n_lanelets TokW n) ++ flat_map c_status (n_lights TokW n).
Definition s_status (s : scen TokW) : list cst := n_status (s_net TokW s) ++ flat_map o_status (s_obst TokW s).

(* what the harness observes after every operation *)
Record obs := { ob_status : list cst;
                ob_err : bool;                    (* the operation raised *)
                ob_hist : list Z;                 (* time steps of obstacle.history (obstacle kinds only) *)
                ob_lens : list Z }.               (* lengths of the four history lists *)

Definition status_eqb := list_eqb cst_eqb.
Definition zs_eqb := list_eqb Z.eqb.

Definition o_hist_obs (o : obst TokW) : list Z * list Z :=
  let d := o_data TokW o in
  (map fst (d_hist TokW d),
   [Z.of_nat (length (d_hist TokW d)); Z.of_nat (length (d_sighist TokW d)); Z.of_nat (length (d_cenhist TokW d));
    Z.of_nat (length (d_shphist TokW d))]).

Definition is_err_o (r : ores TokW) : bool := match r with ORErr _ _ => true | _ => false end.
Definition is_err_n (r : nres TokW) : bool := match r with NRErr _ _ => true | _ => false end.
Definition is_err_s (r : sres TokW) : bool := match r with SRNet _ r' => is_err_n r' | SRObst _ (Some r') => is_err_o r' | _ => false end.

Section Run.
  Context {S O R : Type} (step : S -> O -> S * R) (status : S -> list cst) (err : R -> bool)
          (extra : S -> obs -> bool).
  Fixpoint agree (s : S) (l : list (O * obs)) : bool :=
    match l with
    | [] => true
    | (o, b) :: r =>
        let (s', res) := step s o in
        status_eqb (status s') (ob_status b) && Bool.eqb (err res) (ob_err b) && extra s' b && agree s' r
    end.
End Run.

Definition no_extra {S} (_ : S) (_ : obs) : bool := true.
Definition o_extra (o : obst TokW) (b : obs) : bool :=
  let (h, l) := o_hist_obs o in zs_eqb h (ob_hist b) && zs_eqb l (ob_lens b).
(* cycle kinds: the values of cycle_init_timesteps themselves, when populated, are carried in ob_hist *)
Definition c_extra (c : cycle TokW) (b : obs) : bool :=
  match c_cum TokW c with Some x => zs_eqb x (ob_hist b) | None => match ob_hist b with [] => true | _ => false end end.

Inductive case :=
| CPred (s t : tok) (l : list (pop TokW * obs))
| CObst (x : odata TokW * pprim TokW) (l : list (oop TokW * obs))
| CLanelet (x : Z * tok) (l : list (lop TokW * obs))
| CCycle (x : list (Z * Z) * Z * bool) (l : list (cop TokW * obs))
| CNet (x : nprim TokW) (l : list (nop TokW * obs))
| CScen (x : nprim TokW * list (odata TokW * pprim TokW)) (l : list (sop TokW * obs)).

Definition check (c : case) : bool :=
  match c with
  | CPred s t l => agree (pstep TokW) p_status (fun _ => false) no_extra (p_build TokW (s, t)) l
  | CObst x l => agree (ostep TokW) o_status is_err_o o_extra (o_build TokW x) l
  | CLanelet x l => agree (lstep TokW) l_status (fun _ => false) no_extra (l_build TokW x) l
  | CCycle x l => agree (cstep TokW) c_status (fun _ => false) c_extra (c_build TokW x) l
  | CNet x l => agree (nstep TokW) n_status is_err_n no_extra (n_build TokW x) l
  | CScen x l => agree (sstep TokW) s_status is_err_s no_extra (s_build TokW x) l
  end.
