(* Corr/C12.v — correspondence relation for C12: the spec table (Model/EqHashSpecs.v) interpreted by
   Model/EqHash.v vs the observed results of ==, hash() on a pair of objects.
   [cx], [cy]: the values the two objects hold, read back through their public attributes. *)
From Coq Require Import QArith ZArith List Bool String.
From CR Require Import Model.EqHash Model.EqHashTypes Gen.Tables_C12 Model.EqHashSpecs Corr.Obs.
Import ListNotations.

Record case := MkCase {
  cx : value; cy : value;
  o_eq : obs_b;      (* x == y *)
  o_qe : obs_b;      (* y == x *)
  o_heq : obs_b;     (* hash(x) == hash(y), OBExc if one of them raises *)
  o_hx : bool;       (* hash(x) returns *)
  o_hy : bool
}.

Definition is_some {A} (o : option A) : bool := match o with Some _ => true | None => false end.

Fixpoint mem (a : string) (l : list string) : bool :=
  match l with [] => false | b :: r => String.eqb a b || mem a r end.

(* the read-back value lists exactly the generated attributes A_K of its class (validates the table and the
   read-back against each other); SignalState may leave slots unset, CustomState chooses its attributes *)
Fixpoint shape_ok (v : value) : bool :=
  match v with
  | VList l | VSet l => forallb shape_ok l
  | VKey w => shape_ok w
  | VObj c fs =>
      forallb (fun p => shape_ok (snd p)) fs &&
      match assoc c attrs_C12 with
      | None => false
      | Some A =>
          if mem c dynamic_classes_C12 then true
          else if String.eqb c "SignalState" then forallb (fun p => mem (fst p) A) fs
          else list_eqb String.eqb (map fst fs) A
      end
  | _ => true
  end.

(* every attribute (recursively) holds a value of its generated type: the instance lies in the domain of the
   totality theorem of hash (C12_hash_total), and the type table describes what the constructors store *)
Definition typed_ok (v : value) : bool :=
  match v with VObj c _ => has_ty types_C12 v (TY [AObj c]) | _ => false end.

(* [eqv], [hkey], [hash_eq] of the model, with the normal forms / keys of x and y computed once *)
Definition check (c : case) : bool :=
  let nx := nfe T_C12 (cx c) in
  let ny := nfe T_C12 (cy c) in
  let hx := hkey T_C12 (cx c) in
  let hy := hkey T_C12 (cy c) in
  shape_ok (cx c) && shape_ok (cy c) && typed_ok (cx c) && typed_ok (cy c) &&
  eqb_obs_b (Some (peq nx ny)) (o_eq c) &&
  eqb_obs_b (Some (peq ny nx)) (o_qe c) &&
  Bool.eqb (is_some hx) (o_hx c) &&
  Bool.eqb (is_some hy) (o_hy c) &&
  match hx, hy, o_heq c with
  | Some a, Some b, OB b' => Bool.eqb (peq a b) b'
  | None, _, OBExc | _, None, OBExc => true
  | _, _, _ => false
  end.

(* [check] is the conjunction written with the model's own definitions *)
Lemma check_spec c : check c =
  (shape_ok (cx c) && shape_ok (cy c) && typed_ok (cx c) && typed_ok (cy c) &&
   eqb_obs_b (Some (eqv T_C12 (cx c) (cy c))) (o_eq c) &&
   eqb_obs_b (Some (eqv T_C12 (cy c) (cx c))) (o_qe c) &&
   Bool.eqb (is_some (hkey T_C12 (cx c))) (o_hx c) &&
   Bool.eqb (is_some (hkey T_C12 (cy c))) (o_hy c) &&
   match hash_eq T_C12 (cx c) (cy c), o_heq c with
   | Some b, OB b' => Bool.eqb b b'
   | None, OBExc => true
   | _, _ => false
   end).
Proof.
  unfold check, eqv, hash_eq. cbv zeta.
  destruct (hkey T_C12 (cx c)); destruct (hkey T_C12 (cy c)); destruct (o_heq c); reflexivity.
Qed.

(* which conjunct failed (printed for disagreeing cases only) *)
Definition explain (c : case) : list bool :=
  [shape_ok (cx c); shape_ok (cy c); typed_ok (cx c); typed_ok (cy c);
   eqb_obs_b (Some (eqv T_C12 (cx c) (cy c))) (o_eq c);
   eqb_obs_b (Some (eqv T_C12 (cy c) (cx c))) (o_qe c);
   Bool.eqb (is_some (hkey T_C12 (cx c))) (o_hx c);
   Bool.eqb (is_some (hkey T_C12 (cy c))) (o_hy c);
   match hash_eq T_C12 (cx c) (cy c), o_heq c with
   | Some b, OB b' => Bool.eqb b b' | None, OBExc => true | _, _ => false end].
