(* Corr/C15.v — correspondence relation for C15: the writer state machine of Model/Writers.v (symbolic
   instance, repaired code) against an observed history of CommonRoadFileWriter objects.
   The harness identifies the bytes of a written file (date aside) with the reference renderings they
   are equal to: tokens (format, inputs, precision, with planning problems), each reference produced
   by one fresh writer writing once.  No token = bytes equal to no reference. *)
From Coq Require Import List Bool Arith.
From CR Require Import Model.Writers.
Import ListNotations.

Definition tok := (fmt * nat * nat * bool)%type.        (* format, inputs, precision, with problems *)
Inductive obs :=
| ObsNew
| ObsSkipped                      (* the call returned, no file was touched *)
| ObsWritten (path : nat) (same_as : list tok)   (* exactly this file was (re)written *)
| ObsOther.                       (* anything else: exception, several files changed, ... *)

Definition render_tok (t : tok) : Sym.bytes :=
  let '(f, a, p, pp) := t in Sym.render f p a pp.

Definition agree (m : out Sym.bytes) (o : obs) : bool :=
  match m, o with
  | ONew, ObsNew => true
  | OSkipped, ObsSkipped => true
  | OWritten p b, ObsWritten q toks => Nat.eqb p q && existsb (fun t => Sym.bytes_eqb b (render_tok t)) toks
  | _, _ => false
  end.

Fixpoint agree_all (ms : list (out Sym.bytes)) (os : list obs) : bool :=
  match ms, os with
  | [], [] => true
  | m :: r, o :: t => agree m o && agree_all r t
  | _, _ => false
  end.

(* the files at the end of the history, as (path, tokens) *)
Definition files_agree (s : Sym.world) (fs : list (nat * list tok)) : bool :=
  Nat.eqb (length (files _ _ _ _ _ s)) (length fs) &&
  forallb (fun pf => match lookup (fst pf) (files _ _ _ _ _ s) with
                     | Some b => existsb (fun t => Sym.bytes_eqb b (render_tok t)) (snd pf)
                     | None => false
                     end) fs.

Record case := { c_ops : list (op nat); c_obs : list obs; c_files : list (nat * list tok) }.

Definition check (c : case) : bool :=
  agree_all (Sym.trace repaired (c_ops c) Sym.empty) (c_obs c) &&
  files_agree (Sym.run repaired (c_ops c) Sym.empty) (c_files c).
