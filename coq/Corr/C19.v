(* Corr/C19.v — correspondence relations for C19.
   (1) check_param: Model/DrawParams.v vs commonroad.visualization.draw_params.  A case is a constructor call
       MPDrawParams(k1=v1, ...) followed by assignments  root.q1...qn.name = v ; the observation is the whole
       parameter tree afterwards (every declared field of every nested group), compared exactly.
   (2) check_sel: Model/RenderSel.v (+ Model/RenderParams.v, Model/DrawParams.v) vs MPRenderer.  A case is a
       scenario abstracted to what Obstacle.occupancy_at_time answers (shapes are lists of ids of primitive
       shapes, numbered by the harness after canonicalising vertices), the assignments made on a fresh
       MPDrawParams, and what was observed between draw and render: the sorted ids of the patches in
       MPRenderer.obstacle_patches after the scenario was drawn, the sorted ids of the lanelets whose fill polygon
       is in static_collections, the sorted ids of the planning problems drawn.  With decorations off
       ([s_exact]) the patches must be exactly the model's drawn shapes (as multisets), otherwise the model's
       shapes must be among them. *)
From Coq Require Import ZArith String List Bool.
Import ListNotations.
From CR Require Import Model.DrawParams Model.RenderSel Model.RenderParams Gen.Tables_C19.
Open Scope Z_scope.

Record pcase := mkPC { pc_kw : list (string * val); pc_ops : list op; pc_obs : node }.

Definition check_param (c : pcase) : bool :=
  match run (pc_ops c) (construct (pc_kw c) mp_default) with
  | Some t => node_eqb t (pc_obs c)
  | None => false
  end.

Fixpoint insertZ (a : Z) (l : list Z) : list Z :=
  match l with
  | [] => [a]
  | b :: r => if a <=? b then a :: l else b :: insertZ a r
  end.
Definition sortZ (l : list Z) : list Z := fold_right insertZ [] l.

Fixpoint eqlZ (a b : list Z) : bool :=
  match a, b with
  | [], [] => true
  | x :: r, y :: t => (x =? y) && eqlZ r t
  | _, _ => false
  end.

(* a, b sorted: is a a sub-multiset of b? *)
Fixpoint subms (a b : list Z) {struct a} : bool :=
  match a with
  | [] => true
  | x :: r =>
      (fix scan (l : list Z) : bool :=
         match l with
         | [] => false
         | y :: s => if x =? y then subms r s else if y <? x then scan s else false
         end) b
  end.

Record scase := mkSC {
  s_obst : list (obst (list Z));
  s_kw : list (string * val);
  s_ops : list op;
  s_exact : bool;
  s_patches : list Z;            (* sorted *)
  s_lanelets : list Z;           (* ids of the network's lanelets *)
  s_check_lanelets : bool;       (* lanelet.fill_lanelet is on: the fill polygons identify the drawn lanelets *)
  s_lanelets_obs : list Z;       (* sorted *)
  s_pps : list Z;                (* ids of the planning problems *)
  s_pps_obs : list Z }.          (* sorted *)

Definition predicted (r : rparams) (c : scase) : list Z :=
  sortZ (flat_map (fun ia : item * list Z => snd ia) (drawn r (s_obst c))).

Definition check_sel (c : scase) : bool :=
  match run (s_ops c) (construct (s_kw c) mp_default) with
  | None => false
  | Some t =>
      match rparams_of t with
      | None => false
      | Some r =>
          forallb (@wf_obst (list Z)) (s_obst c)
          && (if s_exact c then eqlZ (predicted r c) (s_patches c) else subms (predicted r c) (s_patches c))
          && (if s_check_lanelets c
              then eqlZ (sortZ (select_ids (s_lanelets c) (r_lanelet_ids r))) (s_lanelets_obs c) else true)
          && eqlZ (sortZ (select_ids (s_pps c) (r_pp_ids r))) (s_pps_obs c)
      end
  end.

(* what the model predicts for a case (printed for disagreeing cases only) *)
Definition explain_sel (c : scase) : option (list Z * list Z * list Z) :=
  match run (s_ops c) (construct (s_kw c) mp_default) with
  | None => None
  | Some t =>
      match rparams_of t with
      | None => None
      | Some r => Some (predicted r c, sortZ (select_ids (s_lanelets c) (r_lanelet_ids r)),
                        sortZ (select_ids (s_pps c) (r_pp_ids r)))
      end
  end.
