(* Corr/Obs.v — observation types and tolerance comparison shared by the correspondence checks.
   A generated Cases file contains only data of these types; the comparison of the model's
   result with the implementation's observation is done here, inside Coq. *)
From Coq Require Import QArith Qabs ZArith Bool List.
From CR Require Import Base.QMod.
Open Scope Q_scope.

Inductive obs_b := OB (b : bool) | OBExc.                 (* returned a bool / raised *)
Inductive obs_q := OQ (x : Q) | OQNone | OQExc.           (* returned a number / None / raised *)
Inductive obs_i := OI (a b : Q) | OINone | OIExc.         (* returned an interval / None / raised *)

Definition tol : Q := 1 # 1000000000.
Definition Qmax1 (x : Q) : Q := if Qle_bool 1 (Qabs x) then Qabs x else 1.
(* |m - i| <= tol * max(1, |i|, scale) *)
Definition close_s (scale m i : Q) : bool :=
  Qle_bool (Qabs (m - i)) (tol * (Qmax1 i + Qabs scale)).
Definition close (m i : Q) : bool := close_s 0 m i.

Definition eqb_obs_b (m : option bool) (o : obs_b) : bool :=
  match m, o with
  | Some b, OB b' => Bool.eqb b b'
  | None, OBExc => true
  | _, _ => false
  end.
