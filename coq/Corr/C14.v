(* Corr/C14.v — correspondence relation for C14: Model/SolutionFmt.v + Model/SolXsd.v against
   commonroad.common.solution (writer, reader, PlanningProblemSolution) and lxml's XMLSchema verdict.
   Float values are carried as their IEEE-754 bit pattern (Z); the oracle pair str(np.float64 x) /
   float(text) is a pair of finite tables supplied with each case (computed by the implementation's
   Python runtime), so "bit-identical" is literal equality of integers. *)
From Coq Require Import String Ascii List ZArith Bool.
From CR Require Import Model.SolTypes Model.SolutionFmt Model.SolXsd Gen.Tables_C14 Gen.Xsd_solution.
Import ListNotations.
Open Scope string_scope.
Open Scope list_scope.

Record oracle := {
  o_fstr : list (Z * string);       (* bits -> str(np.float64(x)) *)
  o_fparse : list (string * Z);     (* text -> bits of float(text) *)
  o_cpu : option string             (* _get_processor_name() *)
}.
Fixpoint zassoc (k : Z) (l : list (Z * string)) : option string :=
  match l with [] => None | (k', v) :: r => if (k =? k')%Z then Some v else zassoc k r end.
Definition fstr_of (o : oracle) (b : Z) : string :=
  match zassoc b (o_fstr o) with Some s => s | None => "?" end.
Definition fparse_of (o : oracle) (s : string) : option Z := lookup s (o_fparse o).
(* is_positive: np.sign(x) > 0, i.e. sign bit clear, not zero, not NaN *)
Definition fpos_bits (b : Z) : bool := (0 <? b)%Z && (b <=? 9218868437227405312)%Z.

(* scenario ids: (str(id), version); dates: the text to the second *)
Definition SID := (string * string)%type.
Definition sid_parse_c (s v : string) : option SID := Some (s, v).
(* strptime("%Y-%m-%dT%H:%M:%S"), falling back to "%Y-%m-%d" *)
Definition dparse_c (s : string) : option string :=
  if xs_datetime_ok s then Some s
  else if xs_datetime_ok (s ++ "T00:00:00")%string then Some (s ++ "T00:00:00")%string else None.

Definition num_c := num Z.
Definition state_c := state Z.
Definition pps_c := pps Z.
Definition solution_c := solution Z SID string.

Definition T := tables_C14.
Definition write_c (o : oracle) (s : solution_c) : option xml :=
  write_solution Z (fstr_of o) SID fst snd string (fun d => d) (o_cpu o) T s.
Definition read_c (o : oracle) (x : xml) : option solution_c :=
  read_solution Z (fparse_of o) fpos_bits SID sid_parse_c string dparse_c T x.

(* ------------------------------------------------------------------ decidable equalities *)
Definition num_eqb (a b : num_c) : bool :=
  match a, b with
  | NF _ x, NF _ y => (x =? y)%Z
  | NZ _ x, NZ _ y => (x =? y)%Z
  | _, _ => false
  end.
Fixpoint list_eqb {A} (e : A -> A -> bool) (a b : list A) : bool :=
  match a, b with
  | [], [] => true
  | x :: r, y :: s => e x y && list_eqb e r s
  | _, _ => false
  end.
Definition fv_eqb (a b : fv Z) : bool :=
  match a, b with
  | FS _ x, FS _ y => num_eqb x y
  | FA _ x, FA _ y => list_eqb num_eqb x y
  | _, _ => false
  end.
Definition state_eqb (a b : state_c) : bool :=
  list_eqb (fun p q => String.eqb (fst p) (fst q) && fv_eqb (snd p) (snd q)) a b.
Definition pps_eqb (a b : pps_c) : bool :=
  (p_id _ a =? p_id _ b)%Z && String.eqb (p_vm _ a) (p_vm _ b) && (p_vt _ a =? p_vt _ b)%Z
  && String.eqb (p_cost _ a) (p_cost _ b) && String.eqb (p_ty _ a) (p_ty _ b)
  && list_eqb state_eqb (p_states _ a) (p_states _ b).
Definition opt_eqb {A} (e : A -> A -> bool) (a b : option A) : bool :=
  match a, b with Some x, Some y => e x y | None, None => true | _, _ => false end.
Definition solution_eqb (a b : solution_c) : bool :=
  String.eqb (fst (s_sid _ _ _ a)) (fst (s_sid _ _ _ b)) && String.eqb (snd (s_sid _ _ _ a)) (snd (s_sid _ _ _ b))
  && list_eqb pps_eqb (s_pps _ _ _ a) (s_pps _ _ _ b)
  && opt_eqb String.eqb (s_date _ _ _ a) (s_date _ _ _ b)
  && opt_eqb num_eqb (s_ctime _ _ _ a) (s_ctime _ _ _ b)
  && opt_eqb String.eqb (s_pname _ _ _ a) (s_pname _ _ _ b).
Fixpoint xml_eqb (a b : xml) : bool :=
  match a, b with
  | Node t1 a1 k1 x1, Node t2 a2 k2 x2 =>
      String.eqb t1 t2 && String.eqb x1 x2
      && list_eqb (fun p q => String.eqb (fst p) (fst q) && String.eqb (snd p) (snd q)) a1 a2
      && (fix go (l1 l2 : list xml) : bool :=
            match l1, l2 with
            | [], [] => true
            | x :: r, y :: s => xml_eqb x y && go r s
            | _, _ => false
            end) k1 k2
  end.

(* ------------------------------------------------------------------ cases *)
(* arguments of one PlanningProblemSolution(...) call: the attribute list of the first state decides
   the trajectory type; obs = the type the implementation computed, None if the constructor raised *)
Record raw_pps := { r_id : Z; r_vm : string; r_vt : Z; r_cost : string; r_attrs0 : list string;
                    r_states : list state_c; r_obs : option string }.
Definition build_pps (r : raw_pps) : option pps_c :=
  pps_ctor Z T (r_id r) (r_vm r) (r_vt r) (r_cost r) (r_attrs0 r) (r_states r).

Inductive case :=
(* a solution built through the public constructors, written, read back, validated by lxml *)
| CDoc (o : oracle) (sid : SID) (raw : list raw_pps) (date : option string) (ct : option num_c)
       (pn : option string)
       (tree : option xml)                 (* parsed dump(), None if writing raised *)
       (back : option solution_c)          (* the reader's result on dump(), None if it raised *)
       (lxml_valid : bool)
(* an arbitrary (mutated) tree given to the reader and to lxml *)
| CTree (o : oracle) (tree : xml) (cmp_read : bool) (back : option solution_c) (cmp_valid : bool)
        (lxml_valid : bool)
(* StateType.get_state_type / PlanningProblemSolution.__init__ alone *)
| CType (r : raw_pps).

Definition ctor_agrees (r : raw_pps) : bool :=
  match build_pps r, r_obs r with
  | Some p, Some ty => String.eqb (p_ty _ p) ty
  | None, None => true
  | _, _ => false
  end.

Definition check (c : case) : bool :=
  match c with
  | CDoc o sid raw date ct pn tree back valid =>
      forallb ctor_agrees raw
      && match mapM build_pps raw with
         | None => true        (* some constructor raised (agreed above): no document *)
         | Some ps =>
             let s := {| s_sid := sid; s_pps := dict_pps Z [] ps; s_date := date; s_ctime := ct; s_pname := pn |} in
             opt_eqb xml_eqb (write_c o s) tree
             && match tree with
                | Some x => opt_eqb solution_eqb (read_c o x) back
                            && Bool.eqb (validate_doc xsd_root_name xsd_root_type x) valid
                | None => true
                end
         end
  | CTree o tree cmp_read back cmp_valid valid =>
      (negb cmp_read || opt_eqb solution_eqb (read_c o tree) back)
      && (negb cmp_valid || Bool.eqb (validate_doc xsd_root_name xsd_root_type tree) valid)
  | CType r => ctor_agrees r
  end.
