(* Corr/C17.v — correspondence relation for C17 *)
From Coq Require Import ZArith List Bool.
From CR Require Import Model.TrafficLight.
Import ListNotations.
Open Scope Z_scope.

(* els as (colour code, duration); offset; time step; observed: colour code via the cycle and via the light
   (None = the implementation raised) *)
Inductive case := CState (els : list (Z * Z)) (o t : Z) (obs_cycle obs_light : option Z).

Definition eqo (a b : option Z) : bool :=
  match a, b with Some x, Some y => x =? y | None, None => true | _, _ => false end.

Definition check (c : case) : bool :=
  match c with
  | CState els o t oc ol =>
      let e := map (fun p => {| colour := fst p; duration := snd p |}) els in
      eqo (state_at e o t) oc && eqo (light_state_at e o t) ol
  end.
