(* Corr/C04.v — correspondence relation for C04: Model/Occupancy.v against the observed behaviour of
   occupancy_at_time / state_at_time / the scenario-level queries (which stored object is returned, exactly),
   rotate_translate_local (parameters, tolerance) and the enclosing rectangle for uncertain states (tolerance).
   For the dispatch a state is (time step, uid, centre of its occupancy shape, centre used for a static obstacle),
   a region is (uid, centre or None): the harness numbers the stored states / occupancies of an obstacle and
   reports for every query the uid of the object the implementation returned. *)
From Coq Require Import QArith Qabs ZArith Bool List.
From CR Require Import Base.QMod Model.Interval Model.Transform Model.Shapes Model.Scene Model.Occupancy Corr.Obs Corr.C05.
Import ListNotations.
Open Scope Q_scope.

Record st := { st_time : Z; st_uid : Z; st_occ_centre : option pt; st_pos_centre : option pt }.
Definition reg := (Z * option pt)%type.
Definition place_st (s : st) : reg := (st_uid s, st_occ_centre s).
Notation obst := (obstacle st reg).

(* observation of one per-obstacle query: occupancy None | (time step, uid of the region); state None | uid *)
Inductive oobs := OOcc (t : Z) (uid : Z) | ONone | ORaise.
Definition occ_agrees (m : option (occ reg)) (o : oobs) : bool :=
  match m, o with
  | None, ONone => true
  | Some oc, OOcc t u => match o_time oc with TStep t' => Z.eqb t t' | _ => false end && Z.eqb (fst (o_region oc)) u
  | _, _ => false
  end.
(* set-based occupancies keep their own time key: compare the uid only *)
Definition occ_agrees_uid (m : option (occ reg)) (o : oobs) : bool :=
  match m, o with
  | None, ONone => true
  | Some oc, OOcc _ u => Z.eqb (fst (o_region oc)) u
  | _, _ => false
  end.
Definition state_agrees (m : option st) (o : option Z) : bool :=
  match m, o with
  | None, None => true
  | Some s, Some u => Z.eqb (st_uid s) u
  | _, _ => false
  end.

Fixpoint zmem (x : Z) (l : list Z) : bool := match l with [] => false | y :: r => Z.eqb x y || zmem x r end.
Definition same_set (a b : list Z) : bool :=
  forallb (fun x => zmem x b) a && forallb (fun x => zmem x a) b && Nat.eqb (List.length a) (List.length b).
Fixpoint pmem (x : Z * Z) (l : list (Z * Z)) : bool :=
  match l with [] => false | y :: r => (Z.eqb (fst x) (fst y) && Z.eqb (snd x) (snd y)) || pmem x r end.
Definition same_pairs (a b : list (Z * Z)) : bool :=
  forallb (fun x => pmem x b) a && forallb (fun x => pmem x a) b && Nat.eqb (List.length a) (List.length b).

Definition inside_of (x0 x1 y0 y1 : Q) (c : pt) : bool :=
  Qle_bool x0 (px c) && Qle_bool (px c) x1 && Qle_bool y0 (py c) && Qle_bool (py c) y1.

Inductive case :=
(* per obstacle, one time step: occupancy_at_time, state_at_time *)
| CDispatch (o : obst) (t : Z) (occ_obs : oobs) (exact_time : bool) (state_obs : option Z)
(* Trajectory.state_at_time_step alone *)
| CTraj (tr : traj st) (t : Z) (state_obs : option Z)
(* scenario level *)
| COccs (obs : list obst) (t : Z) (r : option role) (o : option (list (Z * Z)))          (* (obstacle id, region uid) | raised *)
| CStates (obs : list obst) (t : Z) (o : option (list (Z * Z)))                          (* (obstacle id, state uid) *)
| CRoleType (obs : list obst) (r : option role) (ty : option Z) (o : list Z)
| CByPos (obs : list obst) (roles : list role) (t : Z) (x0 x1 y0 y1 : Q) (o : list Z)
(* placement for exact states: shape.rotate_translate_local(pos, th) *)
| CPlace (scale : Q) (sh : shape) (pos : pt) (th c s : Q) (o : obs)
(* Rectangle.vertices *)
| CRectVerts (scale : Q) (l w : Q) (ctr : pt) (ori c s : Q) (o : obs)
(* enclosing rectangle for an uncertain state *)
| CEnclose (scale : Q) (sm : shape_meas) (pm : pos_meas) (om : ori_meas) (orc : enc_oracle) (o : obs)
(* what the enclosure formula reads off a primitive shape (shapely bounds, shape.center) against the model's
   bbox / centroid; [co] [so] = cos / sin of a rectangle's orientation *)
| CMeas (scale : Q) (sh : shape) (co so : Q) (sm : shape_meas)
(* occupancy of a shape at an exact state through TrajectoryPrediction (heading: stored | atan2(velocity_y, velocity));
   atan2 / (cos, sin) tabulated from libm at the arguments the harness read off the state itself *)
| CFromState (scale : Q) (sh : shape) (st : state) (atab : list (Q * Q * Q)) (cstab : list (Q * (Q * Q))) (o : obs).

Fixpoint tab2 (l : list (Q * Q * Q)) (y x : Q) : Q :=
  match l with
  | [] => 0
  | (y0, x0, v) :: r => if Qeq_bool y y0 && Qeq_bool x x0 then v else tab2 r y x
  end.
Fixpoint tab1 (l : list (Q * (Q * Q))) (a : Q) : Q * Q :=
  match l with
  | [] => (2, 2)     (* not a (cos, sin) pair: an argument outside the table shows *)
  | (a0, v) :: r => if Qeq_bool a a0 then v else tab1 r a
  end.

Definition close_pt (sc : Q) (p q : pt) : bool := close_s sc (px p) (px q) && close_s sc (py p) (py q).
Definition close_box (sc : Q) (a b : box) : bool :=
  close_s sc (b_minx a) (b_minx b) && close_s sc (b_miny a) (b_miny b) &&
  close_s sc (b_maxx a) (b_maxx b) && close_s sc (b_maxy a) (b_maxy b).
Definition meas_agrees (sc : Q) (m : option shape_meas) (o : shape_meas) : bool :=
  match m, o with
  | Some (SMBox b r), SMBox b' r' => close_box sc b b' && close_pt sc r r'
  | Some (SMCirc r c), SMCirc r' c' => close_s sc r r' && close_pt sc c c'
  | _, _ => false
  end.

Definition rcentre (r : reg) : option pt := snd r.

Definition check (tau : Q) (k : case) : bool :=
  match k with
  | CDispatch o t oo exact so =>
      (if exact then occ_agrees else occ_agrees_uid) (occupancy_at_time st reg st_time place_st o t) oo
      && state_agrees (state_at_time st reg st_time o t) so
  | CTraj tr t so => state_agrees (state_at_time_step st tr t) so
  | COccs obs t r o =>
      match occupancies_at_time_step st reg st_time place_st obs t r, o with
      | Ok l, Some l' => same_pairs (map (fun x => (fst x, fst (o_region (snd x)))) l) l'
      | Err, None => true
      | _, _ => false
      end
  | CStates obs t o =>
      match obstacle_states_at_time_step st reg st_time obs t, o with
      | Ok l, Some l' => same_pairs (map (fun x => (fst x, st_uid (snd x))) l) l'
      | Err, None => true
      | _, _ => false
      end
  | CRoleType obs r ty o => same_set (obstacles_by_role_and_type st reg obs r ty) o
  | CByPos obs roles t x0 x1 y0 y1 o =>
      same_set (by_position st reg st_time place_st rcentre st_pos_centre (inside_of x0 x1 y0 y1) obs roles t) o
  | CPlace sc sh pos th c s o => agree tau sc atoms_shape (rotate_translate_local tau fuel pos th c s sh) o
  | CRectVerts sc l w ctr ori c s o => agree tau sc (map APt) (Ok (rect_vertices l w ctr ori c s)) o
  | CEnclose sc sm pm om orc o => agree tau sc atoms_shape (enclosure sm pm om orc) o
  | CMeas sc sh co so sm => meas_agrees sc (meas_prim sh co so) sm
  | CFromState sc sh st atab cstab o =>
      agree tau sc atoms_shape
            (occupancy_exact tau fuel (fun a => fst (tab1 cstab a)) (fun a => snd (tab1 cstab a)) (tab2 atab) sh st) o
  end.
