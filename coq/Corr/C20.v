(* Corr/C20.v — correspondence relation for C20: Model/ArcLen.v, Model/Routes.v vs observed behaviour of
   Lanelet.distance, interpolate_position, merge_lanelets, find_lanelet_successors_in_range and
   find_lanelet_predecessors_in_range (the latter with the predecessor lists as [edges]).
   Discrete outputs (segment index, error kind, vertex lists of the merged lanelet, id lists) are compared
   exactly, real-valued ones within Obs.close_s; path lists as multisets.
   Vertices are (x, y, z) with z = 0 for a 2-D lanelet.  The oracle segment lengths [ls] of a case are checked here
   against the polyline of the case ([lens_ok]: 0 <= l, |l^2 - |d|^2| <= 1e-15 |d|^2, one per segment), so the
   hypothesis valid_lens of the theorems is what the cases satisfy up to rounding.  A merge case also carries the
   cumulative distance of the MERGED lanelet as the implementation reports it: it must be [cum] of valid lengths of
   the model's merged centre line (Proofs.ArcLen.merge_distance says what that is in terms of the parts). *)
From Coq Require Import QArith Qabs ZArith Bool List.
From CR Require Import Base.QMod Model.ArcLen Model.Routes Corr.Obs.
Import ListNotations.
Open Scope Q_scope.

Inductive obs_ip := OIP (c r l : pt) (idx : Z) | OIPAssert | OIPIndex | OIPNan.
Inductive obs_m := OM (l : lanelet) (dist : list Q) | OMAssert.

Inductive case :=
| CDist (C : list pt) (ls : list Q) (scale : Q) (o : list Q)
| CInterp (C R L : list pt) (ls : list Q) (s : Q) (scale : Q) (o : obs_ip)
| CMerge (l1 l2 : lanelet) (lm : list Q) (scale : Q) (o : obs_m)
| CRoutes (edges : list (Z * list Z)) (lens : list (Z * Q)) (start : Z) (maxlen : Q) (o : list (list Z)).

Fixpoint assoc {A} (d : A) (l : list (Z * A)) (i : Z) : A :=
  match l with
  | [] => d
  | (k, v) :: r => if (i =? k)%Z then v else assoc d r i
  end.

Fixpoint all2 {A B} (f : A -> B -> bool) (a : list A) (b : list B) : bool :=
  match a, b with
  | [], [] => true
  | x :: r, y :: s => f x y && all2 f r s
  | _, _ => false
  end.

Definition close_pt (scale : Q) (m o : pt) : bool :=
  close_s scale (px m) (px o) && close_s scale (py m) (py o) && close_s scale (pz m) (pz o).
Definition eq_pt (m o : pt) : bool := Qeq_bool (px m) (px o) && Qeq_bool (py m) (py o) && Qeq_bool (pz m) (pz o).

(* the sqrt oracle: l is the length of segment d up to rounding *)
Definition len_ok (d : pt) (l : Q) : bool :=
  Qle_bool 0 l && Qle_bool (Qabs (l * l - norm2 d)) (norm2 d * (1 # 1000000000000000)).
Definition lens_ok (P : list pt) (ls : list Q) : bool := all2 len_ok (deltas P) ls.
Definition eqb_path : list Z -> list Z -> bool := all2 Z.eqb.

Fixpoint remove1 (p : list Z) (l : list (list Z)) : option (list (list Z)) :=
  match l with
  | [] => None
  | x :: r => if eqb_path p x then Some r
              else match remove1 p r with Some r' => Some (x :: r') | None => None end
  end.
Fixpoint perm_b (a b : list (list Z)) : bool :=
  match a with
  | [] => match b with [] => true | _ => false end
  | x :: r => match remove1 x b with None => false | Some b' => perm_b r b' end
  end.

Definition eq_lanelet (m o : lanelet) : bool :=
  (l_id m =? l_id o)%Z && all2 eq_pt (l_left m) (l_left o) && all2 eq_pt (l_center m) (l_center o) &&
  all2 eq_pt (l_right m) (l_right o) && eqb_path (l_succ m) (l_succ o) && eqb_path (l_pred m) (l_pred o).

Definition check (c : case) : bool :=
  match c with
  | CDist C ls scale o => lens_ok C ls && all2 (close_s scale) (cum ls) o
  | CInterp C R L ls s scale o =>
      lens_ok C ls &&
      match interpolate C R L ls s, o with
      | IOk c r l i, OIP c' r' l' i' => (i =? i')%Z && close_pt scale c c' && close_pt scale r r' && close_pt scale l l'
      | IAssert, OIPAssert => true
      | IIndex, OIPIndex => true
      | INan, OIPNan => true
      | _, _ => false
      end
  | CMerge l1 l2 lm scale o =>
      match merge l1 l2, o with
      | MOk m, OM m' d' => eq_lanelet m m' && lens_ok (l_center m) lm && all2 (close_s scale) (cum lm) d'
      | MAssert, OMAssert => true
      | _, _ => false
      end
  | CRoutes edges lens start maxlen o =>
      match routes (assoc [] edges) (assoc 0 lens) start maxlen (S (S (List.length edges))) with
      | Some R => perm_b R o
      | None => false
      end
  end.
