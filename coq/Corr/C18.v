(* Corr/C18.v — correspondence relation for C18: Model/ReadOnly.v vs the real objects.
   A case is the model state read off a real scenario + planning-problem set (stored attribute names and values
   (one number per state: digest of the values, arrays inside position regions included) of the trajectory states, the
   other stored data of every obstacle (one number), the id sets of the intersections, cached occupancy sets, lanelet distance caches, spatial index, memoised light-cycle
   times, goal-lanelet tables with their container kind) and a list of steps; a step is the list of model
   operations a harness operation consists of (followed by an XML and a protobuf export), whether one of the
   operations the model predicts exceptions for raised, and the model state read off the real objects afterwards.
   [check]: the model run from its own state predicts every observed state (caches included), every predicted
   exception, and the observation (caches excluded) of every observed state equals that of the first. *)
From Coq Require Import List ZArith Bool PArith.
Import ListNotations.
From CR Require Import Model.ReadOnly.
Open Scope Z_scope.

Fixpoint eql {A} (eqb : A -> A -> bool) (a b : list A) : bool :=
  match a, b with
  | [], [] => true
  | x :: r, y :: t => eqb x y && eql eqb r t
  | _, _ => false
  end.
Definition eqo {A} (eqb : A -> A -> bool) (a b : option A) : bool :=
  match a, b with Some x, Some y => eqb x y | None, None => true | _, _ => false end.
Definition eqlZ := eql Z.eqb.

(* attribute names of a state: compared as sets (the instance dictionary is compared by its keys) *)
Definition subset (a b : list attr) : bool := forallb (fun x => existsb (attr_eqb x) b) a.
Definition same_attrs (a b : list attr) : bool := subset a b && subset b a && Nat.eqb (length a) (length b).

Definition tstate_eqb (a b : tstate) : bool :=
  Z.eqb (st_time a) (st_time b) && same_attrs (st_attrs a) (st_attrs b) && Bool.eqb (st_prop_orient a) (st_prop_orient b)
  && Z.eqb (st_val a) (st_val b).
Definition pred_eqb (a b : pred) : bool :=
  match a, b with
  | PTraj s1 o1, PTraj s2 o2 => eql tstate_eqb s1 s2 && eqo eqlZ o1 o2
  | PSet t1, PSet t2 => eqlZ t1 t2
  | PNone, PNone => true
  | _, _ => false
  end.
Definition role_eqb (a b : role) : bool :=
  match a, b with Static, Static | Dynamic, Dynamic | Phantom, Phantom | Env, Env => true | _, _ => false end.
Definition obst_eqb (a b : obst) : bool :=
  role_eqb (o_role a) (o_role b) && Z.eqb (o_t0 a) (o_t0 b) && pred_eqb (o_pred a) (o_pred b)
  && Z.eqb (o_val a) (o_val b).
Definition lanelet_eqb (a b : lanelet) : bool :=
  Z.eqb (l_id a) (l_id b) && Bool.eqb (l_dist a) (l_dist b) && Bool.eqb (l_inner a) (l_inner b).
Definition cycle_eqb (a b : cycle) : bool :=
  eqlZ (c_durs a) (c_durs b) && Z.eqb (c_off a) (c_off b) && eqo eqlZ (c_cum a) (c_cum b).
Definition incoming_eqb (a b : incoming) : bool :=
  Z.eqb (i_id a) (i_id b) && eqlZ (i_lanelets a) (i_lanelets b) && eqlZ (i_right a) (i_right b)
  && eqlZ (i_straight a) (i_straight b) && eqlZ (i_left a) (i_left b).
Definition inter_eqb (a b : inter) : bool :=
  Z.eqb (x_id a) (x_id b) && eql incoming_eqb (x_incs a) (x_incs b) && eqlZ (x_cross a) (x_cross b).
Definition net_eqb (a b : net) : bool :=
  eql lanelet_eqb (n_lanelets a) (n_lanelets b) && eqlZ (n_buffered a) (n_buffered b)
  && eqo eqlZ (n_tree a) (n_tree b) && eql (eqo cycle_eqb) (n_lights a) (n_lights b)
  && eql inter_eqb (n_inters a) (n_inters b).
Definition kv_eqb (a b : Z * list Z) : bool := Z.eqb (fst a) (fst b) && eqlZ (snd a) (snd b).
Definition table_eqb (a b : table) : bool :=
  match a, b with
  | TNone, TNone => true
  | TDict x, TDict y | TDefault x, TDefault y => eql kv_eqb x y     (* items in insertion order *)
  | _, _ => false
  end.
Definition goal_eqb (a b : goal) : bool := Nat.eqb (g_n a) (g_n b) && table_eqb (g_table a) (g_table b).
Definition scen_eqb (a b : scen) : bool :=
  eql obst_eqb (s_obst a) (s_obst b) && net_eqb (s_net a) (s_net b) && eql goal_eqb (s_goals a) (s_goals b).

(* does the model predict an exception for one of these operations? *)
Definition raises (r : res) : bool := match r with RErr _ => true | RFound Raised => true | _ => false end.
Definition predicts (o : op) : bool :=
  match o with OccAt _ _ | OccsAt _ | OccSet _ | GetObstacles _ _ | FindPos | FindShape | LightAt _ _ => true | _ => false end.

(* [c]: the code version, read off the source on every run (harness: syntax tree of _create_occupancy_set and of
   PlanningProblemMessage.create_message); the theorems of Props/C18.v are about [repaired] *)
Fixpoint run_group (c : code) (s : scen) (ops : list op) : scen * bool :=
  match ops with
  | [] => (s, false)
  | o :: r => let (s1, res1) := step c s o in
              let (s2, b) := run_group c s1 r in (s2, (predicts o && raises res1) || b)
  end.

Record stepobs := mkStep { so_ops : list op; so_raised : bool; so_after : scen }.
Definition case := (scen * list stepobs)%type.

Fixpoint check_from (c : code) (s0 s : scen) (l : list stepobs) : bool :=
  match l with
  | [] => true
  | st :: r =>
      let (s1, raised) := run_group c s (so_ops st ++ [XmlWrite; PbWrite]) in
      scen_eqb s1 (so_after st) && Bool.eqb raised (so_raised st)
      && scen_eqb (observe (so_after st)) (observe s0)
      && check_from c s0 s1 r
  end.
Definition check_c (c : code) (x : case) : bool := check_from c (fst x) (fst x) (snd x).
Definition check : case -> bool := check_c repaired.
Definition code_eqb (a b : code) : bool :=
  Bool.eqb (occ_on_copy a) (occ_on_copy b) && Bool.eqb (pb_checks_key a) (pb_checks_key b).
