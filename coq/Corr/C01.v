(* Corr/C01.v — correspondence relations between the generic codec instantiated with the generated
   XML format table (Gen/XmlFmt.v) and the real XML writer / reader:
   A. the tree the implementation wrote  ~  write xml_root (value extracted from the original objects)
      (numeric leaves within 10^-d, d the writer's precision);
   B. value extracted from the read-back objects  ~  read xml_root (tree the implementation wrote);
   F. float_to_str on digit strings = Model/DecStr.v;
   H. writer histories (several writer objects of either format and any precision constructed / used in one
      process, either write method): precision.decimals observed after every step = Model/WriterPrec.v trace.
      The files written inside such histories enter relation A with d = the precision of THEIR writer. *)
From Coq Require Import QArith Qabs ZArith String List Bool.
From CR Require Import Base.QMod Model.Codec Model.DecStr Model.WriterPrec Gen.XmlFmt.
Import ListNotations.
Open Scope string_scope.
Open Scope list_scope.

(* float(text) and the exact decimal value of text differ by half an ulp: relative slack *)
Definition slack : Q := 1 # 10000000000000.

Definition atom_close (tol : Q) (a b : atom) : bool :=
  match a, b with
  | ANum x, ANum y => Qeq_bool x y || Qlt_bool (Qabs (x - y)) (tol + slack * (1 + Qabs y))
  | AInt x, AInt y => Z.eqb x y
  | AStr x, AStr y => String.eqb x y
  | ABool x, ABool y => Bool.eqb x y
  | _, _ => false
  end.

Fixpoint tree_close (tol : Q) (a b : tree) {struct a} : bool :=
  match a, b with
  | Leaf t x, Leaf u y => String.eqb t u && atom_close tol x y
  | Node t ks, Node u ls =>
      String.eqb t u &&
      (fix go (ks : list tree) (ls : list tree) {struct ks} : bool :=
         match ks, ls with
         | [], [] => true
         | k :: kr, l :: lr => tree_close tol k l && go kr lr
         | _, _ => false
         end) ks ls
  | _, _ => false
  end.

Fixpoint val_close (tol : Q) (a b : val) {struct a} : bool :=
  let fix go (xs ys : list val) {struct xs} : bool :=
    match xs, ys with
    | [], [] => true
    | x :: xr, y :: yr => val_close tol x y && go xr yr
    | _, _ => false
    end in
  match a, b with
  | VAtom x, VAtom y => atom_close tol x y
  | VRec xs, VRec ys => go xs ys
  | VList xs, VList ys => go xs ys
  | VNone, VNone => true
  | VSome x, VSome y => val_close tol x y
  | VAlt i x, VAlt j y => Nat.eqb i j && val_close tol x y
  | _, _ => false
  end.

Definition pow10z (d : nat) : Z := 10 ^ Z.of_nat d.
Definition tol_of (d : nat) : Q := 1 # (Z.to_pos (pow10z d)).
Definition tiny : Q := 0.

Inductive case :=
| CaseA (d : nat) (v : val) (t : tree)      (* original value, tree written by the implementation *)
| CaseB (t : tree) (v : val)                (* tree written by the implementation, read-back value *)
| CaseF (d : nat) (x y : dec)               (* str(x) as digits, float_to_str(x) as digits (no exponent) *)
| CaseH (g0 : nat) (h : list step) (obs : list nat).   (* global before, history, precision.decimals after each step *)

Fixpoint nlist_eqb (a b : list nat) : bool :=
  match a, b with
  | [], [] => true
  | x :: r, y :: q => Nat.eqb x y && nlist_eqb r q
  | _, _ => false
  end.

Definition zlist_eqb (a b : list Z) : bool :=
  Nat.eqb (length a) (length b) && forallb (fun p => Z.eqb (fst p) (snd p)) (combine a b).
Definition dec_eqb (a b : dec) : bool :=
  Bool.eqb (neg a) (neg b) && zlist_eqb (ip a) (ip b) && zlist_eqb (fp a) (fp b).

Definition check (c : case) : bool :=
  match c with
  | CaseA d v t => match write W.xml_root "commonRoad" v with
                   | Some m => tree_close (tol_of d) m t
                   | None => false
                   end
  | CaseB t v => match read R.xml_root t with
                 | Some v' => val_close tiny v' v
                 | None => false
                 end
  | CaseF d x y => dec_eqb (float_to_str d x) y
  | CaseH g0 h obs => nlist_eqb (map fst (trace (world0 g0) h)) obs
  end.

(* diagnostics: position (child indices) of the first difference, for replay files *)
Fixpoint val_diff (tol : Q) (a b : val) {struct a} : option (list nat) :=
  let fix go (i : nat) (xs ys : list val) {struct xs} : option (list nat) :=
    match xs, ys with
    | [], [] => None
    | x :: xr, y :: yr => match val_diff tol x y with Some p => Some (i :: p) | None => go (S i) xr yr end
    | _, _ => Some [i; 999%nat]
    end in
  match a, b with
  | VAtom x, VAtom y => if atom_close tol x y then None else Some []
  | VRec xs, VRec ys => go O xs ys
  | VList xs, VList ys => go O xs ys
  | VNone, VNone => None
  | VSome x, VSome y => val_diff tol x y
  | VAlt i x, VAlt j y => if Nat.eqb i j then val_diff tol x y else Some [777%nat]
  | _, _ => Some [888%nat]
  end.

Fixpoint tree_diff (tol : Q) (a b : tree) {struct a} : option (list nat) :=
  match a, b with
  | Leaf t x, Leaf u y => if String.eqb t u && atom_close tol x y then None else Some []
  | Node t ks, Node u ls =>
      if negb (String.eqb t u) then Some [666%nat] else
      (fix go (i : nat) (ks : list tree) (ls : list tree) {struct ks} : option (list nat) :=
         match ks, ls with
         | [], [] => None
         | k :: kr, l :: lr => match tree_diff tol k l with Some p => Some (i :: p) | None => go (S i) kr lr end
         | _, _ => Some [i; 999%nat]
         end) O ks ls
  | _, _ => Some [888%nat]
  end.

Definition diagnose (c : case) : option (list nat) :=
  match c with
  | CaseA d v t => match write W.xml_root "commonRoad" v with
                   | Some m => tree_diff (tol_of d) m t
                   | None => Some [555%nat]
                   end
  | CaseB t v => match read R.xml_root t with
                 | Some v' => val_diff tiny v' v
                 | None => Some [555%nat]
                 end
  | CaseF d x y => if dec_eqb (float_to_str d x) y then None else Some []
  | CaseH g0 h obs => if nlist_eqb (map fst (trace (world0 g0) h)) obs then None else Some []
  end.
