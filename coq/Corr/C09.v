(* Corr/C09.v — correspondence relation for C09: Model/IdPool.v vs commonroad.scenario.scenario.Scenario.
   A case is an operation sequence started on an empty scenario, with what was observed on the implementation
   after every step: the result (unit / generated id / exception class), the contained ids per kind (lanelets
   with their sign / light references, intersections with their incoming ids), sorted(_id_set), _id_counter.
   Dict and set contents are compared sorted (the observation is sorted by the harness). *)
From Coq Require Import ZArith List Bool.
Import ListNotations.
From CR Require Import Model.IdPool.
Open Scope Z_scope.

Record obs := mkObs {
  o_res : res;
  o_lanelets : list lanelet; o_signs : list Z; o_lights : list Z; o_inters : list inter;
  o_static : list Z; o_dynamic : list Z; o_env : list Z; o_phantom : list Z;
  o_idset : list Z; o_counter : option Z }.

Definition case := list (op * obs).

Fixpoint insert_by {A} (key : A -> Z) (a : A) (l : list A) : list A :=
  match l with
  | [] => [a]
  | b :: r => if key a <=? key b then a :: l else b :: insert_by key a r
  end.
Definition sort_by {A} (key : A -> Z) (l : list A) : list A := fold_right (insert_by key) [] l.
Definition sortZ := sort_by (fun z : Z => z).

Fixpoint eqlZ (a b : list Z) : bool :=
  match a, b with
  | [], [] => true
  | x :: r, y :: t => (x =? y) && eqlZ r t
  | _, _ => false
  end.
Fixpoint eql {A} (eqb : A -> A -> bool) (a b : list A) : bool :=
  match a, b with
  | [], [] => true
  | x :: r, y :: t => eqb x y && eql eqb r t
  | _, _ => false
  end.
Definition same_set (m o : list Z) : bool := eqlZ (sortZ m) o.

Definition lanelet_eqb (m o : lanelet) : bool :=
  (l_id m =? l_id o) && same_set (l_signs m) (l_signs o) && same_set (l_lights m) (l_lights o).
Definition inter_obs_eqb (m o : inter) : bool := (x_id m =? x_id o) && eqlZ (x_incs m) (x_incs o).

Definition exn_eqb (a b : exn) : bool :=
  match a, b with ValueError, ValueError | KeyError, KeyError | OtherError, OtherError => true | _, _ => false end.
Definition res_eqb (a b : res) : bool :=
  match a, b with
  | RUnit, RUnit => true
  | RId x, RId y => x =? y
  | RErr x, RErr y => exn_eqb x y
  | _, _ => false
  end.
Definition optZ_eqb (a b : option Z) : bool :=
  match a, b with Some x, Some y => x =? y | None, None => true | _, _ => false end.

Definition agree (s : st) (r : res) (o : obs) : bool :=
  res_eqb r (o_res o)
  && eql lanelet_eqb (sort_by l_id (n_lanelets (network s))) (o_lanelets o)
  && same_set (n_signs (network s)) (o_signs o)
  && same_set (n_lights (network s)) (o_lights o)
  && eql inter_obs_eqb (sort_by x_id (n_inters (network s))) (o_inters o)
  && same_set (statics s) (o_static o) && same_set (dynamics s) (o_dynamic o)
  && same_set (envs s) (o_env o) && same_set (phantoms s) (o_phantom o)
  && same_set (idset s) (o_idset o)
  && optZ_eqb (counter s) (o_counter o).

Fixpoint check_from (s : st) (c : case) : bool :=
  match c with
  | [] => true
  | (o, ob) :: r => let (s1, res1) := step s o in agree s1 res1 ob && check_from s1 r
  end.
Definition check (c : case) : bool := check_from init c.
