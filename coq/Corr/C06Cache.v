(* Corr/C06Cache.v — correspondence for Model/ShapeCache.v: a history of public setters and queries on one Rectangle /
   Circle / Polygon object of commonroad.geometry.shape, with, after every step, which caches the real object holds
   (Rectangle: _vertices, the shapely polygon; Circle: _shapely_circle; Polygon: "the shapely polygon was replaced by
   this step"), and, for every query, whether its answer equals the answer of an object freshly constructed from the
   current attribute values.  Values are tokens (integers naming the generated values); what the model is asked to
   reproduce is which cache is filled when, and that filled caches are those of the current values. *)
From Coq Require Import ZArith Bool List.
Import ListNotations.
From CR Require Import Model.ShapeCache.
Open Scope Z_scope.

Definition tverts (l w c o : Z) : list Z := [l; w; c; o].
Definition tgeom (v : list Z) : list Z := 0 :: v.
Definition tcirc (r c : Z) : list Z := [r; c].
Definition tbox (v : list Z) : list Z := 1 :: v.

Definition isSome {A} (o : option A) : bool := match o with Some _ => true | None => false end.
Fixpoint list_eqb (a b : list Z) : bool :=
  match a, b with
  | [], [] => true
  | x :: r, y :: s => Z.eqb x y && list_eqb r s
  | _, _ => false
  end.

(* observation after a step: the two cache flags, and (queries) "answer = answer of the freshly constructed object" *)
Record robs := { o_verts : bool; o_geom : bool; o_fresh : bool }.

Inductive ccase :=
| CRectHist (l w c o : Z) (steps : list (rop Z Z * robs))
| CCircHist (r c : Z) (steps : list (cop Z Z * robs))
| CPolyHist (v : list Z) (steps : list (pop (list Z) * robs)).   (* o_geom of a step: the polygon object was replaced *)

Fixpoint rect_ok (s : rect Z Z (list Z) (list Z)) (steps : list (rop Z Z * robs)) : bool :=
  match steps with
  | [] => true
  | (op, ob) :: rest =>
      let (s1, ans) := rstep Z Z (list Z) (list Z) tverts tgeom true s op in
      let fresh := snd (rstep Z Z (list Z) (list Z) tverts tgeom true (r_rebuilt Z Z (list Z) (list Z) s) op) in
      let same := match ans, fresh with
                  | RUnit, RUnit => true
                  | RVerts a, RVerts b => list_eqb a b
                  | RGeom a, RGeom b => list_eqb a b
                  | _, _ => false
                  end in
      Bool.eqb (isSome (r_verts _ _ _ _ s1)) (o_verts ob) && Bool.eqb (isSome (r_geom _ _ _ _ s1)) (o_geom ob)
      && Bool.eqb same (o_fresh ob) && rect_ok s1 rest
  end.

Fixpoint circ_ok (s : circ Z Z (list Z)) (steps : list (cop Z Z * robs)) : bool :=
  match steps with
  | [] => true
  | (op, ob) :: rest =>
      let (s1, ans) := cstep Z Z (list Z) tcirc true s op in
      let fresh := snd (cstep Z Z (list Z) tcirc true (c_rebuilt Z Z (list Z) s) op) in
      let same := match ans, fresh with
                  | None, None => true
                  | Some a, Some b => list_eqb a b
                  | _, _ => false
                  end in
      Bool.eqb (isSome (c_geom _ _ _ s1)) (o_geom ob) && Bool.eqb same (o_fresh ob) && circ_ok s1 rest
  end.

Fixpoint poly_ok (s : poly (list Z) (list Z)) (steps : list (pop (list Z) * robs)) : bool :=
  match steps with
  | [] => true
  | (op, ob) :: rest =>
      let (s1, ans) := pstep (list Z) (list Z) tgeom tbox true s op in
      let replaced := negb (list_eqb (p_geom _ _ s1) (p_geom _ _ s)) in
      let same := match ans with
                  | None => true
                  | Some a => list_eqb a (tgeom (p_v _ _ s))
                  end in
      Bool.eqb replaced (o_geom ob) && Bool.eqb same (o_fresh ob) && poly_ok s1 rest
  end.

Definition check (c : ccase) : bool :=
  match c with
  | CRectHist l w c o steps => rect_ok (rect_new Z Z (list Z) (list Z) l w c o) steps
  | CCircHist r c steps => circ_ok (circ_new Z Z (list Z) r c) steps
  | CPolyHist v steps => poly_ok (poly_new (list Z) (list Z) tgeom tbox v) steps
  end.
