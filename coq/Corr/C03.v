(* Corr/C03.v — correspondence relations between the Gallina XSD validator (Model/XsdCheck.v) instantiated
   with the GENERATED schema (Gen/Xsd2020a.v) and lxml's XMLSchema built from the shipped XSD file:
   V. a whole document (the file written by the real writer, or a deliberately perturbed variant of it):
      validates xsd2020a doc = lxml's verdict;
   S. one leaf text against one simple type of the schema: simple_accepts = lxml's verdict;
   E. the value extracted from a generated scenario (whose written file lxml accepts) satisfies the hypothesis
      [expressible] of the validity theorem - the theorem is not vacuous on the generator's domain. *)
From Coq Require Import QArith String List Bool.
From CR Require Import Model.Codec Model.XsdCheck Gen.XmlFmt Gen.Xsd2020a.
Import ListNotations.
Open Scope string_scope.

Inductive case :=
| CaseV (lxml_valid : bool) (doc : xtree)
| CaseS (type : string) (text : string) (lxml_valid : bool)
| CaseE (v : val).

Definition check (c : case) : bool :=
  match c with
  | CaseV e d => Bool.eqb (validates xsd2020a d) e
  | CaseS ty s e => Bool.eqb (simple_accepts xsd2020a ty s) e
  | CaseE v => expressible xsd2020a (s_root_type xsd2020a) W.xml_root v
  end.
