(* Corr/C13.v — correspondence relation for C13: Model/BenchId.v vs the observed behaviour of
   ScenarioID (constructor, __str__, from_benchmark_id) and of Solution.benchmark_id /
   CommonRoadSolutionReader._parse_benchmark_id / _parse_vehicle_id.  Case files hold data only. *)
From Coq Require Import String Ascii List ZArith Bool.
From CR Require Import Gen.Tables_C13 Model.BenchId.
Import ListNotations.
Open Scope list_scope.
Open Scope string_scope.

Definition opt_eqb {A} (e : A -> A -> bool) (x y : option A) : bool :=
  match x, y with Some a, Some b => e a b | None, None => true | _, _ => false end.
Fixpoint list_eqb {A} (e : A -> A -> bool) (x y : list A) : bool :=
  match x, y with
  | [], [] => true
  | a :: r, b :: t => e a b && list_eqb e r t
  | _, _ => false
  end.
Definition pred_eqb (p q : pred) : bool :=
  match p, q with
  | PNone, PNone => true
  | PInt a, PInt b => Z.eqb a b
  | PList a, PList b => list_eqb Z.eqb a b
  | _, _ => false
  end.
Definition sid_eqb (s t : sid) : bool :=
  Bool.eqb (coop s) (coop t) && String.eqb (country s) (country t) && String.eqb (mname s) (mname t) &&
  Z.eqb (mid s) (mid t) && opt_eqb Z.eqb (conf s) (conf t) && opt_eqb String.eqb (beh s) (beh t) &&
  pred_eqb (pid s) (pid t) && String.eqb (ver s) (ver t).
Definition exn_eqb (a b : exn) : bool :=
  match a, b with
  | AssertionError, AssertionError | ValueError, ValueError
  | SolutionReaderException, SolutionReaderException => true
  | _, _ => false
  end.

(* what the implementation did: returned a value / raised one of the modelled exceptions / raised
   something else (never agrees) *)
Inductive obs (A : Type) : Type := OVal (a : A) | OExc (e : exn) | OOther.
Arguments OVal {A} a.
Arguments OExc {A} e.
Arguments OOther {A}.

Definition agree {A} (e : A -> A -> bool) (m : res A) (o : obs A) : bool :=
  match m, o with
  | Ok a, OVal b => e a b
  | Err x, OExc y => exn_eqb x y
  | _, _ => false
  end.

Inductive case :=
| CCtor (a : args) (o : obs sid)                       (* ScenarioID built from a: stored fields *)
| CPrint (a : args) (printed : string)                 (* str of the ScenarioID built from an accepted a *)
| CParse (b version : string) (warned : bool) (o : obs sid)   (* from_benchmark_id *)
| CBid (vs : list (string * Z)) (cs : list string) (a : args) (printed : string)   (* Solution.benchmark_id *)
| CParseBid (b : string) (o : obs (list string * list string * (bool * obs sid)))  (* _parse_benchmark_id *)
| CVid (v : string) (o : obs (string * Z))             (* _parse_vehicle_id: (model name, type value) *)
| CCost (c : string) (o : obs string).                 (* cost lookup of _parse_planning_problem_solution *)

Definition vid_eqb (x y : string * Z) : bool := String.eqb (fst x) (fst y) && Z.eqb (snd x) (snd y).

Definition check (c : case) : bool :=
  match c with
  | CCtor a o => agree sid_eqb (ctor a) o
  | CPrint a printed => match ctor a with Ok s => String.eqb (print s) printed | Err _ => false end
  | CParse b v warned o =>
      let (w, r) := from_benchmark_id b v in Bool.eqb w warned && agree sid_eqb r o
  | CBid vs cs a printed =>
      match ctor a with Ok s => String.eqb (print_bid vs cs s) printed | Err _ => false end
  | CParseBid b o =>
      match parse_benchmark_id b, o with
      | Ok (v, c, (w, r)), OVal (v', c', (w', o')) =>
          list_eqb String.eqb v v' && list_eqb String.eqb c c' && Bool.eqb w w' && agree sid_eqb r o'
      (* from_benchmark_id raising inside _parse_benchmark_id propagates *)
      | Ok (_, _, (_, Err e)), OExc e' => exn_eqb e e'
      | Err e, OExc e' => exn_eqb e e'
      | _, _ => false
      end
  | CVid v o => agree vid_eqb (parse_vehicle_id v) o
  | CCost c o => agree String.eqb (parse_cost_id c) o
  end.
