(* Corr/C05.v — correspondence relation for C05: the models of Model/Transform.v, Model/Shapes.v,
   Model/Scene.v against the observed result of the implementation's translate_rotate.
   The observation is the flat list of all stored numbers of the transformed object in the traversal
   order of [atoms_*] (points as x, y; orientations; orientation intervals as start, length, end; all other
   numbers), or "raised".  Plain numbers are compared with tolerance tol * (max(1,|i|) + scale),
   orientations modulo tau with the same tolerance; the two ends of an orientation interval must in addition lie
   inside [-tau, tau] as observed (an AngleInterval is normalised; the model's ends are, Proofs/Shapes.v MItv).
   [CTwice k t2 a2 c2 s2]: the object of case [k] transformed by k's motion and then by (t2, a2); the observation
   of [k] is the one after the second motion (the model is applied twice). *)
From Coq Require Import QArith Qabs ZArith Bool List.
From CR Require Import Base.QMod Model.Interval Model.Transform Model.Shapes Model.Scene Corr.Obs.
Import ListNotations.
Open Scope Q_scope.

Inductive fnum := FQ (x : Q) | FA (x : Q) | FR (x : Q).
Inductive obs := OFlat (l : list Q) | OExc.

Definition flat_atom (x : atom) : list fnum :=
  match x with
  | APt p => [FQ (px p); FQ (py p)]
  | AOri o => [FA o]
  | AItv J => [FR (lo J); FQ (hi J - lo J); FR (hi J)]
  | AVec v => [FQ (px v); FQ (py v)]
  | ANum x => [FQ x]
  end.
Definition flat (l : list atom) : list fnum := flat_map flat_atom l.

(* |m - i| modulo tau: the representative of m - i in [-tau/2, tau/2) *)
Definition close_mod (tau scale m i : Q) : bool :=
  let d := qmod tau (m - i + tau / 2) - tau / 2 in
  Qle_bool (Qabs d) (tol * (1 + Qabs scale)).
(* an end of an orientation interval: equal modulo tau, and the observed value inside [-tau, tau] *)
Definition in_range (tau scale i : Q) : bool := Qle_bool (Qabs i) (tau + tol * (1 + Qabs scale)).
Definition agree_num (tau scale : Q) (m : fnum) (i : Q) : bool :=
  match m with
  | FQ x => close_s scale x i
  | FA x => close_mod tau scale x i
  | FR x => close_mod tau scale x i && in_range tau scale i
  end.
Fixpoint agree_list (tau scale : Q) (m : list fnum) (i : list Q) : bool :=
  match m, i with
  | [], [] => true
  | x :: r, y :: r' => agree_num tau scale x y && agree_list tau scale r r'
  | _, _ => false
  end.
Definition agree {A} (tau scale : Q) (f : A -> list atom) (m : res A) (o : obs) : bool :=
  match m, o with
  | Ok x, OFlat l => agree_list tau scale (flat (f x)) l
  | Err, OExc => true
  | _, _ => false
  end.

(* every case carries: scale (largest input magnitude), translation, angle, cos, sin as returned by libm *)
Inductive case :=
| CPts (scale : Q) (t : pt) (a c s : Q) (vs : list pt) (o : obs)       (* transform.translate_rotate *)
| CRotTr (scale : Q) (t : pt) (a c s : Q) (vs : list pt) (o : obs)     (* transform.rotate_translate *)
| CShape (scale : Q) (t : pt) (a c s : Q) (sh : shape) (o : obs)
| CState (scale : Q) (t : pt) (a c s : Q) (st : state) (o : obs)
| CLanelet (scale : Q) (t : pt) (a c s : Q) (l : lanelet) (o : obs)
| CPost (scale : Q) (t : pt) (a c s : Q) (p : pt) (o : obs)            (* TrafficSign / TrafficLight *)
| CObstacle (scale : Q) (t : pt) (a c s : Q) (ob : obstacle) (o : obs)
| CScenario (scale : Q) (t : pt) (a c s : Q) (sc : scenario) (o : obs)
| CPPSet (scale : Q) (t : pt) (a c s : Q) (ps : list pproblem) (o : obs)
| CTwice (k : case) (t2 : pt) (a2 c2 s2 : Q).                          (* k's motion, then (t2, a2) *)

Definition fuel := 50%nat.

Definition check1 (tau : Q) (k : case) : bool :=
  match k with
  | CPts sc t a c s vs o => agree tau sc (map APt) (Ok (translate_rotate_pts t a c s vs)) o
  | CRotTr sc t a c s vs o => agree tau sc (map APt) (Ok (rotate_translate_pts t a c s vs)) o
  | CShape sc t a c s sh o => agree tau sc atoms_shape (tr_shape tau fuel t a c s sh) o
  | CState sc t a c s st o => agree tau sc atoms_state (tr_state tau fuel t a c s st) o
  | CLanelet sc t a c s l o => agree tau sc atoms_lanelet (tr_lanelet tau t a c s l) o
  | CPost sc t a c s p o => agree tau sc (fun q => [APt q]) (tr_post tau t a c s p) o
  | CObstacle sc t a c s ob o => agree tau sc atoms_obstacle (tr_obstacle tau fuel t a c s ob) o
  | CScenario sc t a c s scn o => agree tau sc atoms_scenario (tr_scenario tau fuel t a c s scn) o
  | CPPSet sc t a c s ps o => agree tau sc atoms_ppset (tr_ppset tau fuel t a c s ps) o
  | CTwice _ _ _ _ _ => false
  end.

(* translate_rotate(t, a) followed by translate_rotate(t2, a2) on the result: the model is bound twice; an
   exception of either step is "raised" *)
Definition check2 (tau : Q) (k : case) (t2 : pt) (a2 c2 s2 : Q) : bool :=
  match k with
  | CPts sc t a c s vs o =>
      agree tau sc (map APt) (Ok (translate_rotate_pts t2 a2 c2 s2 (translate_rotate_pts t a c s vs))) o
  | CRotTr sc t a c s vs o =>
      agree tau sc (map APt) (Ok (rotate_translate_pts t2 a2 c2 s2 (rotate_translate_pts t a c s vs))) o
  | CShape sc t a c s sh o =>
      agree tau sc atoms_shape (bind (tr_shape tau fuel t a c s sh) (tr_shape tau fuel t2 a2 c2 s2)) o
  | CState sc t a c s st o =>
      agree tau sc atoms_state (bind (tr_state tau fuel t a c s st) (tr_state tau fuel t2 a2 c2 s2)) o
  | CLanelet sc t a c s l o =>
      agree tau sc atoms_lanelet (bind (tr_lanelet tau t a c s l) (tr_lanelet tau t2 a2 c2 s2)) o
  | CPost sc t a c s p o => agree tau sc (fun q => [APt q]) (bind (tr_post tau t a c s p) (tr_post tau t2 a2 c2 s2)) o
  | CObstacle sc t a c s ob o =>
      agree tau sc atoms_obstacle (bind (tr_obstacle tau fuel t a c s ob) (tr_obstacle tau fuel t2 a2 c2 s2)) o
  | CScenario sc t a c s scn o =>
      agree tau sc atoms_scenario (bind (tr_scenario tau fuel t a c s scn) (tr_scenario tau fuel t2 a2 c2 s2)) o
  | CPPSet sc t a c s ps o =>
      agree tau sc atoms_ppset (bind (tr_ppset tau fuel t a c s ps) (tr_ppset tau fuel t2 a2 c2 s2)) o
  | CTwice _ _ _ _ _ => false
  end.

Definition check (tau : Q) (k : case) : bool :=
  match k with
  | CTwice k1 t2 a2 c2 s2 => check2 tau k1 t2 a2 c2 s2
  | _ => check1 tau k
  end.
