(* Corr/C10.v — correspondence relation for C10: Model/Network.v vs LaneletNetwork / Scenario.
   A case is a start network (as observed on the implementation after construction) and a sequence of operations,
   each with the network observed afterwards.  Networks are compared through a canonical serialisation in which
   every relation is sorted (the implementation holds sets), lanelets / signs / lights / intersections are sorted
   by id, and the incoming elements keep their order. *)
From Coq Require Import ZArith List Bool.
Import ListNotations.
From CR Require Import Model.Network.
Open Scope Z_scope.

Fixpoint insert_by {A} (key : A -> Z) (a : A) (l : list A) : list A :=
  match l with
  | [] => [a]
  | b :: r => if key a <=? key b then a :: l else b :: insert_by key a r
  end.
Definition sort_by {A} (key : A -> Z) (l : list A) : list A := fold_right (insert_by key) [] l.
Definition sortZ := sort_by (fun z : Z => z).

Fixpoint eqlZ (a b : list Z) : bool :=
  match a, b with
  | [], [] => true
  | x :: r, y :: t => (x =? y) && eqlZ r t
  | _, _ => false
  end.

Definition ser_list (l : list Z) : list Z := Z.of_nat (length l) :: sortZ l.
Definition ser_opt (o : option Z) : list Z := match o with None => [0] | Some z => [1; z] end.
Definition ser_optb (o : option bool) : list Z := match o with None => [0] | Some true => [1] | Some false => [2] end.
Definition ser_lanelet (l : lanelet) : list Z :=
  l_id l :: ser_list (l_pred l) ++ ser_list (l_succ l) ++ ser_opt (l_adjL l) ++ ser_optb (l_adjL_dir l)
  ++ ser_opt (l_adjR l) ++ ser_optb (l_adjR_dir l) ++ ser_list (l_signs l) ++ ser_list (l_lights l)
  ++ (match l_stop l with None => [0] | Some (s, t) => 1 :: ser_list s ++ ser_list t end)
  ++ ser_list (l_types l) ++ [l_payload l].
Definition ser_incoming (i : incoming) : list Z :=
  i_id i :: ser_list (i_lanelets i) ++ ser_list (i_right i) ++ ser_list (i_straight i) ++ ser_list (i_left i)
  ++ ser_opt (i_leftof i).
Definition ser_inter (x : inter) : list Z :=
  x_id x :: Z.of_nat (length (x_incs x)) :: flat_map ser_incoming (x_incs x) ++ ser_list (x_cross x).
Definition ser_pair (p : Z * Z) : list Z := [fst p; snd p].
Definition ser_network (n : network) : list Z :=
  Z.of_nat (length (lanelets n)) :: flat_map ser_lanelet (sort_by l_id (lanelets n))
  ++ Z.of_nat (length (signs n)) :: flat_map ser_pair (sort_by fst (signs n))
  ++ Z.of_nat (length (lights n)) :: flat_map ser_pair (sort_by fst (lights n))
  ++ Z.of_nat (length (inters n)) :: flat_map ser_inter (sort_by x_id (inters n)).

Definition same (m o : network) : bool := eqlZ (ser_network m) (ser_network o).

Fixpoint check_from (n : network) (steps : list (op * network)) : bool :=
  match steps with
  | [] => true
  | (o, ob) :: r => let n1 := apply o n in same n1 ob && wfb n1 && check_from n1 r
  end.
(* the start network must be well-formed in the model's sense (the domain of the theorems); the model's network
   after every step is tested for well-formedness too (an instance of C10_reachable_wf) *)
Definition check (c : network * list (op * network)) : bool :=
  wfb (fst c) && check_from (fst c) (snd c).
