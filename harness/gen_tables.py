"""regenerates coq/Gen/*.v from /repo's current sources (translator part of the tie, DESIGN 1.3).
Files are rewritten only when their content changes, so unchanged sources cause no rebuild.
Run by setup.sh and by every check that depends on a generated table."""
import os
import sys

HERE = os.path.dirname(os.path.abspath(__file__))
GEN = os.path.join(os.path.dirname(HERE), "coq", "Gen")


def write_if_changed(name, text):
    os.makedirs(GEN, exist_ok=True)
    p = os.path.join(GEN, name)
    if not os.path.exists(p) or open(p).read() != text:
        with open(p, "w") as f:
            f.write(text)
        return True
    return False


def gen_xmlfmt():
    from props import xmlfmt
    return write_if_changed("XmlFmt.v", xmlfmt.coq_table())


def main(which=None):
    changed = []
    for name, fn in [("XmlFmt.v", gen_xmlfmt)]:
        if which and name not in which:
            continue
        if fn():
            changed.append(name)
    # generators owned by individual property drivers (each fail-closed); optional
    for mod in ("props.c12_gen", "props.c13_gen", "props.c14_gen", "props.c19_gen"):
        try:
            m = __import__(mod, fromlist=["x"])
        except ImportError:
            continue
        if hasattr(m, "generate"):
            m.generate()
    return changed


if __name__ == "__main__":
    sys.path.insert(0, HERE)
    print("generated:", main() or "nothing changed")
