"""C03 — fail-closed translator: the shipped CommonRoad 2020a XSD -> Coq data (coq/Gen/Xsd2020a.v), in the normal
form of DESIGN 5/C03 (Model/XsdCheck.v):

  complex type  = attributes (name, simple type, required) + content model
  content model = CAlt [Seq; ...] | CAll [Group; ...] | CSimple simple-type        Seq = [Group; ...]
  Group         = (elements (tag -> type), minOccurs, maxOccurs)   -- matches a run of children with these tags
  simple type   = primitive (decimal, integer, nonNegativeInteger, positiveInteger, boolean, string, date, time)
                  + enumeration + minExclusive / minInclusive / maxInclusive
  identity      = one xs:key (union of child paths, @field) + one xs:keyref (.//*, @field)

Every construct outside this subset RAISES (unknown element / attribute of the schema language, nested
particles that do not fit a Group, non-builtin restriction bases, unknown facets, xpath outside the subset);
tag sets of the groups of one Seq must be pairwise disjoint (unique particle attribution => greedy matching is
exact) and inside one complex type a tag has one type (element declarations consistent).  The normal form is
also returned as a Python dict (used by the harness to pick mutation targets)."""
import os
from fractions import Fraction

from lxml import etree

from props.codec_gen import XSD_PATH, XS

HERE = os.path.dirname(os.path.abspath(__file__))
GEN = os.path.join(os.path.dirname(os.path.dirname(HERE)), "coq", "Gen")

PRIMS = {"xs:decimal": "PDecimal", "xs:integer": "PInteger", "xs:nonNegativeInteger": "PNonNeg",
         "xs:positiveInteger": "PPos", "xs:boolean": "PBoolean", "xs:string": "PString", "xs:date": "PDate",
         "xs:time": "PTime"}
NUMERIC = {"PDecimal", "PInteger", "PNonNeg", "PPos"}
FACETS = {"enumeration", "minExclusive", "minInclusive", "maxInclusive"}
UNBOUNDED = None


class XsdError(ValueError):
    pass


def local(node):
    if not isinstance(node.tag, str):
        return None  # comment / PI
    if not node.tag.startswith(XS):
        raise XsdError(f"foreign element {node.tag} in the schema")
    return node.tag[len(XS):]


def kids(node, allowed):
    out = []
    for ch in node:
        n = local(ch)
        if n is None:
            continue
        if n == "annotation":
            continue
        if n not in allowed:
            raise XsdError(f"unsupported construct <xs:{n}> inside <xs:{local(node)} name={node.get('name')!r}>")
        out.append(ch)
    if node.text and node.text.strip() or any(ch.tail and ch.tail.strip() for ch in node):
        raise XsdError(f"text inside <xs:{local(node)}>")
    return out


def only_attrs(node, allowed):
    for a in node.attrib:
        if a not in allowed:
            raise XsdError(f"unsupported attribute {a}={node.get(a)!r} on <xs:{local(node)} name={node.get('name')!r}>")


def occurs(node):
    def one(name):
        v = node.get(name, "1")
        if name == "maxOccurs" and v == "unbounded":
            return UNBOUNDED
        if not v.isdigit():
            raise XsdError(f"bad {name}={v!r}")
        return int(v)
    lo, hi = one("minOccurs"), one("maxOccurs")
    if hi is not None and lo > hi:
        raise XsdError("minOccurs > maxOccurs")
    return lo, hi


class Translator:
    def __init__(self, path=None):
        self.path = path or XSD_PATH
        self.root = etree.parse(self.path).getroot()
        self.simple = {}   # name -> dict(prim, enum, min_ex, min_in, max_in)
        self.complex = {}  # name -> dict(attrs=[(name, st, required)], content=(...))
        self.named_simple, self.named_complex = {}, {}
        self.key = self.keyref = None
        self.root_name = self.root_type = None

    # ------------------------------------------------------------------ simple types
    def builtin(self, qname):
        if qname not in PRIMS:
            raise XsdError(f"unsupported built-in / unknown simple type {qname!r}")
        if qname not in self.simple:
            self.simple[qname] = {"prim": PRIMS[qname], "enum": None, "min_ex": None, "min_in": None, "max_in": None}
        return qname

    def simple_type(self, node, name):
        only_attrs(node, {"name"})
        ch = kids(node, {"restriction"})
        if len(ch) != 1:
            raise XsdError(f"simpleType {name}: exactly one xs:restriction expected")
        r = ch[0]
        only_attrs(r, {"base"})
        base = r.get("base")
        if base not in PRIMS:
            raise XsdError(f"simpleType {name}: restriction base {base!r} is not a supported built-in type")
        st = {"prim": PRIMS[base], "enum": None, "min_ex": None, "min_in": None, "max_in": None}
        for f in kids(r, FACETS):
            only_attrs(f, {"value"})
            if len(f):
                raise XsdError(f"facet with children in {name}")
            fn, val = local(f), f.get("value")
            if val is None:
                raise XsdError(f"facet without value in {name}")
            if fn == "enumeration":
                if st["prim"] != "PString":
                    raise XsdError(f"simpleType {name}: enumeration on a non-string base is not supported")
                st["enum"] = (st["enum"] or []) + [val]
            else:
                if st["prim"] not in NUMERIC:
                    raise XsdError(f"simpleType {name}: {fn} on a non-numeric base")
                key = {"minExclusive": "min_ex", "minInclusive": "min_in", "maxInclusive": "max_in"}[fn]
                if st[key] is not None:
                    raise XsdError(f"simpleType {name}: duplicate facet {fn}")
                try:
                    st[key] = Fraction(val)
                except Exception:
                    raise XsdError(f"simpleType {name}: facet value {val!r}")
                if "e" in val.lower() or "/" in val:
                    raise XsdError(f"simpleType {name}: facet value {val!r} is not a decimal")
        if name in self.simple:
            raise XsdError(f"duplicate simple type {name}")
        self.simple[name] = st
        return name

    def type_ref(self, qname):
        """a type= attribute: built-in, named simple or named complex type"""
        if qname.startswith("xs:"):
            return ("TS", self.builtin(qname))
        if qname in self.named_simple:
            return ("TS", qname)
        if qname in self.named_complex:
            return ("TC", qname)
        raise XsdError(f"reference to undeclared type {qname!r}")

    def simple_ref(self, qname, where):
        k, n = self.type_ref(qname)
        if k != "TS":
            raise XsdError(f"{where}: simple type expected, got complex type {qname}")
        return n

    # ------------------------------------------------------------------ particles
    def element(self, node, ctx):
        """-> (tag, tyref, lo, hi)"""
        only_attrs(node, {"name", "type", "minOccurs", "maxOccurs"})
        name = node.get("name")
        if not name:
            raise XsdError(f"{ctx}: element without name (ref= is not supported)")
        ch = kids(node, {"complexType", "simpleType"})
        if node.get("type") is not None:
            if ch:
                raise XsdError(f"{ctx}/{name}: both type= and an inline type")
            ty = self.type_ref(node.get("type"))
        elif len(ch) == 1:
            anon = f"{ctx}/{name}"
            if local(ch[0]) == "complexType":
                self.complex_type(ch[0], anon)
                ty = ("TC", anon)
            else:
                ty = ("TS", self.simple_type(ch[0], anon))
        else:
            raise XsdError(f"{ctx}/{name}: element without type (xs:anyType is not supported)")
        lo, hi = occurs(node)
        return name, ty, lo, hi

    def seq_items(self, node, ctx):
        """the groups of an xs:sequence body"""
        groups = []
        for ch in kids(node, {"element", "choice"}):
            if local(ch) == "element":
                name, ty, lo, hi = self.element(ch, ctx)
                groups.append(([(name, ty)], lo, hi))
            else:  # a choice of single elements: one group
                only_attrs(ch, {"minOccurs", "maxOccurs"})
                lo, hi = occurs(ch)
                elems = []
                for e in kids(ch, {"element"}):
                    name, ty, elo, ehi = self.element(e, ctx)
                    if (elo, ehi) != (1, 1):
                        raise XsdError(f"{ctx}: element {name} with occurrence bounds inside a nested choice")
                    elems.append((name, ty))
                if not elems:
                    raise XsdError(f"{ctx}: empty choice")
                groups.append((elems, lo, hi))
        return groups

    def content(self, node, ctx):
        n = local(node)
        only_attrs(node, {"minOccurs", "maxOccurs"})
        lo, hi = occurs(node)
        if n == "sequence":
            seq = self.seq_items(node, ctx)
            if (lo, hi) == (1, 1):
                return ("CAlt", [seq])
            if (lo, hi) == (0, 1):
                return ("CAlt", [[], seq])
            raise XsdError(f"{ctx}: xs:sequence with occurrence bounds {lo}..{hi}")
        if n == "all":
            if (lo, hi) != (1, 1):
                raise XsdError(f"{ctx}: xs:all with occurrence bounds")
            gs = []
            for e in kids(node, {"element"}):
                name, ty, elo, ehi = self.element(e, ctx)
                if ehi is None or ehi > 1:
                    raise XsdError(f"{ctx}: maxOccurs > 1 inside xs:all")
                gs.append(([(name, ty)], elo, ehi))
            return ("CAll", gs)
        if n == "choice":
            parts = kids(node, {"element", "sequence"})
            if not parts:
                raise XsdError(f"{ctx}: empty choice")
            if (lo, hi) == (1, 1):
                alts = []
                for p in parts:
                    if local(p) == "element":
                        name, ty, elo, ehi = self.element(p, ctx)
                        alts.append([([(name, ty)], elo, ehi)])
                    else:
                        only_attrs(p, {"minOccurs", "maxOccurs"})
                        if occurs(p) != (1, 1):
                            raise XsdError(f"{ctx}: sequence with occurrence bounds inside a choice")
                        alts.append(self.seq_items(p, ctx))
                return ("CAlt", alts)
            elems = []
            for p in parts:
                if local(p) != "element":
                    raise XsdError(f"{ctx}: repeated choice over non-elements")
                name, ty, elo, ehi = self.element(p, ctx)
                if (elo, ehi) != (1, 1):
                    raise XsdError(f"{ctx}: repeated choice over elements with occurrence bounds")
                elems.append((name, ty))
            return ("CAlt", [[(elems, lo, hi)]])
        raise XsdError(f"{ctx}: unsupported particle {n}")

    def attribute(self, node, ctx):
        only_attrs(node, {"name", "type", "use"})
        name = node.get("name")
        if not name:
            raise XsdError(f"{ctx}: attribute without name")
        use = node.get("use", "optional")
        if use not in ("required", "optional"):
            raise XsdError(f"{ctx}/@{name}: use={use!r}")
        ch = kids(node, {"simpleType"})
        if node.get("type") is not None:
            if ch:
                raise XsdError(f"{ctx}/@{name}: both type= and inline type")
            st = self.simple_ref(node.get("type"), f"{ctx}/@{name}")
        elif len(ch) == 1:
            st = self.simple_type(ch[0], f"{ctx}/@{name}")
        else:
            raise XsdError(f"{ctx}/@{name}: attribute without type")
        return name, st, use == "required"

    def complex_type(self, node, name):
        only_attrs(node, {"name", "mixed"})
        mixed = node.get("mixed", "false")
        if mixed not in ("true", "false"):
            raise XsdError(f"complexType {name}: mixed={mixed!r}")
        parts = kids(node, {"sequence", "choice", "all", "attribute"})
        particles = [p for p in parts if local(p) != "attribute"]
        if len(particles) > 1:
            raise XsdError(f"complexType {name}: more than one particle")
        seen_attr = False
        for p in parts:  # the schema language wants the particle before the attributes
            if local(p) == "attribute":
                seen_attr = True
            elif seen_attr:
                raise XsdError(f"complexType {name}: particle after attribute")
        attrs = [self.attribute(a, name) for a in parts if local(a) == "attribute"]
        if len({a[0] for a in attrs}) != len(attrs):
            raise XsdError(f"complexType {name}: duplicate attribute")
        if mixed == "true":
            if particles:
                raise XsdError(f"complexType {name}: mixed content with a particle is not supported")
            cont = ("CSimple", self.builtin("xs:string"))  # character data, no child elements
        elif particles:
            cont = self.content(particles[0], name)
        else:
            cont = ("CAlt", [[]])
        self.check_content(name, cont)
        if name in self.complex:
            raise XsdError(f"duplicate complex type {name}")
        self.complex[name] = {"attrs": attrs, "content": cont}

    @staticmethod
    def check_content(name, cont):
        if cont[0] == "CSimple":
            return
        seqs = cont[1] if cont[0] == "CAlt" else [cont[1]]
        types = {}
        for seq in seqs:
            seen = set()
            for elems, lo, hi in seq:
                tags = [t for t, _ in elems]
                if len(set(tags)) != len(tags) or seen & set(tags):
                    raise XsdError(f"complexType {name}: tag sets of the groups are not disjoint ({tags}) - "
                                   f"greedy matching would not be exact")
                seen |= set(tags)
                for t, ty in elems:
                    if types.setdefault(t, ty) != ty:
                        raise XsdError(f"complexType {name}: element {t} declared with two types")

    # ------------------------------------------------------------------ identity constraints
    @staticmethod
    def field_attr(node, what):
        only_attrs(node, {"xpath"})
        xp = (node.get("xpath") or "").strip()
        if not xp.startswith("@") or not xp[1:].replace("_", "a").isalnum():
            raise XsdError(f"{what}: field xpath {xp!r} outside the subset (@name)")
        return xp[1:]

    def identity(self, el):
        for k in [c for c in el if local(c) in ("key", "keyref", "unique")]:
            n = local(k)
            if n == "unique":
                raise XsdError("xs:unique is not supported")
            only_attrs(k, {"name", "refer"} if n == "keyref" else {"name"})
            parts = kids(k, {"selector", "field"})
            sel = [p for p in parts if local(p) == "selector"]
            fld = [p for p in parts if local(p) == "field"]
            if len(sel) != 1 or len(fld) != 1:
                raise XsdError(f"{n} {k.get('name')}: exactly one selector and one field are supported")
            only_attrs(sel[0], {"xpath"})
            xp = sel[0].get("xpath") or ""
            field = self.field_attr(fld[0], n)
            if n == "key":
                if self.key is not None:
                    raise XsdError("more than one xs:key")
                paths = []
                for alt in xp.split("|"):
                    alt = alt.strip()
                    if not alt.startswith("./"):
                        raise XsdError(f"key selector {alt!r} outside the subset (./a/b)")
                    steps = alt[2:].split("/")
                    if not steps or any(not s or not s.replace("_", "a").isalnum() for s in steps):
                        raise XsdError(f"key selector {alt!r} outside the subset (./a/b)")
                    if steps not in paths:  # an XPath union is a node SET
                        paths.append(steps)
                self.key = {"name": k.get("name"), "paths": paths, "field": field}
            else:
                if self.keyref is not None:
                    raise XsdError("more than one xs:keyref")
                if xp.strip() != ".//*":
                    raise XsdError(f"keyref selector {xp!r} outside the subset (.//*)")
                self.keyref = {"name": k.get("name"), "refer": k.get("refer"), "field": field}
        if self.keyref is not None and (self.key is None or self.keyref["refer"] != self.key["name"]):
            raise XsdError("keyref refers to an undeclared key")

    # ------------------------------------------------------------------ driver
    def run(self):
        only_attrs(self.root, set())
        if local(self.root) != "schema":
            raise XsdError("not an xs:schema")
        top = kids(self.root, {"simpleType", "complexType", "element"})
        for n in top:  # declare names first (forward references)
            if local(n) == "simpleType":
                self.named_simple[n.get("name")] = n
            elif local(n) == "complexType":
                self.named_complex[n.get("name")] = n
        if None in self.named_simple or None in self.named_complex:
            raise XsdError("top-level type without name")
        if set(self.named_simple) & set(self.named_complex):
            raise XsdError("a simple and a complex type share a name")
        for name, n in self.named_simple.items():
            self.simple_type(n, name)
        for name, n in self.named_complex.items():
            self.complex_type(n, name)
        els = [n for n in top if local(n) == "element"]
        if len(els) != 1:
            raise XsdError("exactly one global element expected")
        el = els[0]
        only_attrs(el, {"name"})
        self.root_name = el.get("name")
        inner = kids(el, {"complexType", "key", "keyref", "unique"})
        cts = [c for c in inner if local(c) == "complexType"]
        if len(cts) != 1:
            raise XsdError("root element: one inline complexType expected")
        self.root_type = "<" + self.root_name + ">"
        self.complex_type(cts[0], self.root_type)
        self.identity(el)
        # every referenced type exists
        for name, ct in self.complex.items():
            for _, st, _ in ct["attrs"]:
                assert st in self.simple, (name, st)
            c = ct["content"]
            if c[0] == "CSimple":
                assert c[1] in self.simple
                continue
            for seq in (c[1] if c[0] == "CAlt" else [c[1]]):
                for elems, _, _ in seq:
                    for _, (k, n) in elems:
                        if n not in (self.simple if k == "TS" else self.complex):
                            raise XsdError(f"{name}: dangling type {n}")
        return self

    def normal_form(self):
        return {"root": self.root_name, "root_type": self.root_type, "simple": self.simple, "complex": self.complex,
                "key": self.key, "keyref": self.keyref}

    # ------------------------------------------------------------------ Coq printer
    def coq(self):
        from vlib.core import qstr, qq

        def opt(x, f):
            return "None" if x is None else f"(Some {f(x)})"

        def st_row(name, st):
            enum = opt(st["enum"], lambda l: "[" + "; ".join(qstr(v) for v in l) + "]")
            return (f"  ({qstr(name)}, mk_stype {st['prim']} {enum} {opt(st['min_ex'], qq)} {opt(st['min_in'], qq)} "
                    f"{opt(st['max_in'], qq)})")

        def tyref(t):
            return f"({t[0]} {qstr(t[1])})"

        def group(g):
            elems, lo, hi = g
            es = "[" + "; ".join(f"({qstr(t)}, {tyref(ty)})" for t, ty in elems) + "]"
            return f"mk_group {es} {lo}%nat {opt(hi, lambda n: str(n) + '%nat')}"

        def seq(s):
            return "[" + ";\n        ".join(group(g) for g in s) + "]"

        def content(c):
            if c[0] == "CSimple":
                return f"(CSimple {qstr(c[1])})"
            if c[0] == "CAll":
                return f"(CAll {seq(c[1])})"
            return "(CAlt [" + ";\n      ".join(seq(s) for s in c[1]) + "])"

        def ct_row(name, ct):
            attrs = "[" + "; ".join(f"({qstr(a)}, {qstr(st)}, {'true' if req else 'false'})" for a, st, req in ct["attrs"]) + "]"
            return f"  ({qstr(name)}, mk_ctype {attrs}\n    {content(ct['content'])})"

        key = opt(self.key, lambda k: "([" + "; ".join("[" + "; ".join(qstr(s) for s in p) + "]" for p in k["paths"]) +
                  f"], {qstr(k['field'])})")
        keyref = opt(self.keyref, lambda k: qstr(k["field"]))
        return ("(* GENERATED by harness/props/c03_xsd.py from the shipped " + os.path.basename(self.path) +
                " (fail-closed translator,\n   normal form of DESIGN 5/C03).  Do not edit. *)\n"
                "From Coq Require Import QArith String List.\nFrom CR Require Import Model.XsdCheck.\n"
                "Import ListNotations.\nOpen Scope string_scope.\n\n"
                "Definition xsd_simple : list (string * stype) := [\n" +
                ";\n".join(st_row(n, s) for n, s in self.simple.items()) + "\n].\n\n"
                "Definition xsd_complex : list (string * ctype) := [\n" +
                ";\n".join(ct_row(n, c) for n, c in self.complex.items()) + "\n].\n\n"
                f"Definition xsd2020a : schema := mk_schema {qstr(self.root_name)} (TC {qstr(self.root_type)}) "
                f"xsd_simple xsd_complex\n  {key}\n  {keyref}.\n")


_NF = None


def normal_form():
    global _NF
    if _NF is None:
        _NF = Translator().run().normal_form()
    return _NF


def generate():
    """(re)write coq/Gen/Xsd2020a.v when the translation changed; returns True if it did"""
    text = Translator().run().coq()
    os.makedirs(GEN, exist_ok=True)
    p = os.path.join(GEN, "Xsd2020a.v")
    if not os.path.exists(p) or open(p).read() != text:
        with open(p, "w") as f:
            f.write(text)
        return True
    return False


if __name__ == "__main__":
    print("Xsd2020a.v", "regenerated" if generate() else "unchanged")
