"""C16 translator tie: commonroad/common/util.py (Interval, AngleInterval, make_valid_orientation*) and the part of
validity.py it calls are translated to Gallina on every run (coq/Gen/Src_util.v); Proofs/SrcInterval.v proves each
translated function equal to the hand-written model the C16 theorems are about, so a semantic change of the source
breaks a proof obligation.  Fail-closed: an untranslatable construct raises."""
import ast
import os

from vlib.core import COQ, REPO
from vlib.py2coq import Module, Translator, emit_file, write_if_changed

HEADER = ("From Coq Require Import QArith Qround ZArith Bool List Qminmax.\n"
          "From CR Require Import Base.QMod Model.Interval.\nOpen Scope Q_scope.")
I = ("I", "obj", "Interval")
J = ("J", "obj", "Interval")
A = ("I", "obj", "AngleInterval")
AJ = ("J", "obj", "AngleInterval")
Qx = lambda n: (n, "Q")  # noqa
JOBS = [
    ("src_mk", ("ctor", "Interval"), [Qx("a"), Qx("b")], "itv", "Interval(a, b)"),
    ("src_contains_pt", ("method", "Interval", "contains"), [I, Qx("x")], "bool", "Interval.contains(number)"),
    ("src_contains_itv", ("method", "Interval", "contains"), [I, J], "bool", "Interval.contains(Interval)"),
    ("src_in_pt", ("method", "Interval", "__contains__"), [I, Qx("x")], "bool", "number in Interval"),
    ("src_in_itv", ("method", "Interval", "__contains__"), [I, J], "bool", "Interval in Interval"),
    ("src_overlaps", ("method", "Interval", "overlaps"), [I, J], "bool", ""),
    ("src_intersection", ("method", "Interval", "intersection"), [I, J], "itv", ""),
    ("src_length", ("getter", "Interval", "length"), [I], "Q", ""),
    ("src_add", ("method", "Interval", "__add__"), [I, Qx("c")], "itv", ""),
    ("src_sub", ("method", "Interval", "__sub__"), [I, Qx("c")], "itv", ""),
    ("src_mul", ("method", "Interval", "__mul__"), [I, Qx("c")], "itv", ""),
    ("src_div", ("method", "Interval", "__truediv__"), [I, Qx("c")], "itv", ""),
    ("src_round", ("method", "Interval", "__round__"), [I, ("n", "nat")], "itv", "round(Interval, n)"),
    ("src_gt_num", ("method", "Interval", "__gt__"), [I, Qx("x")], "bool", ""),
    ("src_gt_itv", ("method", "Interval", "__gt__"), [I, J], "bool", ""),
    ("src_lt_num", ("method", "Interval", "__lt__"), [I, Qx("x")], "bool", ""),
    ("src_lt_itv", ("method", "Interval", "__lt__"), [I, J], "bool", ""),
    ("src_valid_orientation", ("func", "is_valid_orientation"), [Qx("x")], "bool", "validity.is_valid_orientation"),
    ("src_make_valid_orientation", ("func", "make_valid_orientation"), [Qx("a")], "Q", ""),
    ("src_normalise", ("func", "make_valid_orientation_interval"), [Qx("a"), Qx("b")], "Q * Q", ""),
    ("src_amk", ("ctor", "AngleInterval"), [Qx("a"), Qx("b")], "itv", "AngleInterval(a, b)"),
    ("src_acontains", ("method", "AngleInterval", "__contains__"), [A, Qx("th")], "bool", "angle in AngleInterval"),
    ("src_acontains_pt", ("method", "AngleInterval", "contains"), [A, Qx("th")], "bool", "AngleInterval.contains(angle)"),
    ("src_acontains_itv", ("method", "AngleInterval", "contains"), [A, AJ], "bool", "AngleInterval.contains(AngleInterval)"),
    ("src_acontains_plain_itv", ("method", "AngleInterval", "contains"), [A, J], "bool", "AngleInterval.contains(Interval)"),
    ("src_aadd", ("method", "AngleInterval", "__add__"), [A, Qx("c")], "itv", ""),
    ("src_asub", ("method", "AngleInterval", "__sub__"), [A, Qx("c")], "itv", ""),
]


def text():
    R = os.path.join(REPO, "commonroad", "common")
    rec = ("itv", [("_start", "lo", "Q"), ("_end", "hi", "Q")])
    tr = Translator([Module("util", os.path.join(R, "util.py")), Module("validity", os.path.join(R, "validity.py"))],
                    consts={"TWO_PI": ("Q", "tau"), "validity.ValidTypes.NUMBERS": ("numtypes", None)},
                    records={"Interval": rec, "AngleInterval": rec}, nonzero={"tau"},
                    prims={"is_real_number": lambda t, a, n: ("static", a[0][0] in ("Q", "Z", "num")),
                           "npy.greater_equal": lambda t, a, n: t.cmp1(ast.GtE(), a[0], a[1], n),
                           "npy.greater": lambda t, a, n: t.cmp1(ast.Gt(), a[0], a[1], n)})
    return emit_file(tr, HEADER, JOBS, "Variable tau : Q.   (* the double commonroad.TWO_PI as an exact rational *)")


def generate():
    return write_if_changed(os.path.join(COQ, "Gen", "Src_util.v"), text())


if __name__ == "__main__":
    print(text())
