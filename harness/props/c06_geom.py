"""Exact planar geometry over fractions.Fraction (the property statements of C06 / C07 evaluated
without shapely), raw-data generators of lanelet networks (strips of curved / straight lanelets that
share boundaries exactly, overlapping and disjoint groups), query points / shapes, and builders that
turn the raw data into commonroad objects through the public constructors."""
import math
from fractions import Fraction as F

import numpy as np

from commonroad.geometry.shape import Circle, Polygon, Rectangle, ShapeGroup
from commonroad.scenario.lanelet import Lanelet, LaneletType

GUARD = 1e-9


# ------------------------------------------------------------------------------------------ exact predicates
def fr(p):
    return (F(p[0]), F(p[1]))


def cross(a, b, p):
    return (b[0] - a[0]) * (p[1] - a[1]) - (b[1] - a[1]) * (p[0] - a[0])


def dotp(a, b, p):
    return (a[0] - p[0]) * (b[0] - p[0]) + (a[1] - p[1]) * (b[1] - p[1])


def on_seg(a, b, p):
    return cross(a, b, p) == 0 and dotp(a, b, p) <= 0


def edges(ring):
    n = len(ring)
    return [(ring[i], ring[(i + 1) % n]) for i in range(n)]


def pip(ring, p):
    """closed polygon contains p (boundary inclusive); ring / p of Fractions"""
    inside = False
    for a, b in edges(ring):
        if on_seg(a, b, p):
            return True
        if (a[1] > p[1]) != (b[1] > p[1]):
            # x coordinate of the edge at height p.y
            t = a[0] + (p[1] - a[1]) * (b[0] - a[0]) / (b[1] - a[1])
            if p[0] < t:
                inside = not inside
    return inside


def seg_dist2(a, b, p):
    """squared distance from p to segment ab"""
    ux, uy = b[0] - a[0], b[1] - a[1]
    wx, wy = p[0] - a[0], p[1] - a[1]
    uu = ux * ux + uy * uy
    t = wx * ux + wy * uy
    if t <= 0 or uu == 0:
        return wx * wx + wy * wy
    if t >= uu:
        return (p[0] - b[0]) ** 2 + (p[1] - b[1]) ** 2
    return wx * wx + wy * wy - t * t / uu


def boundary_dist2(ring, p):
    return min(seg_dist2(a, b, p) for a, b in edges(ring))


def seg_meets(a, b, c, d):
    d1, d2, d3, d4 = cross(c, d, a), cross(c, d, b), cross(a, b, c), cross(a, b, d)
    if ((d1 > 0 > d2) or (d1 < 0 < d2)) and ((d3 > 0 > d4) or (d3 < 0 < d4)):
        return True
    return on_seg(c, d, a) or on_seg(c, d, b) or on_seg(a, b, c) or on_seg(a, b, d)


def ring_meets(r1, r2):
    for a, b in edges(r1):
        for c, d in edges(r2):
            if seg_meets(a, b, c, d):
                return True
    return pip(r2, r1[0]) or pip(r1, r2[0])


def ring_dist2(r1, r2):
    """squared distance between two closed polygons (0 if they meet)"""
    if ring_meets(r1, r2):
        return F(0)
    best = None
    for a, b in edges(r1):
        for c in r2:
            d = seg_dist2(a, b, c)
            best = d if best is None or d < best else best
    for a, b in edges(r2):
        for c in r1:
            d = seg_dist2(a, b, c)
            best = d if best is None or d < best else best
    return best


def disc_ring_dist2(c, ring):
    """squared distance from point c to the closed polygon"""
    return F(0) if pip(ring, c) else boundary_dist2(ring, c)


# ------------------------------------------------------------------------------------------ raw shapes
# S = {"k":"rect","l","w","c":[x,y],"o"} | {"k":"circ","r","c"} | {"k":"poly","v":[[x,y]..]} | {"k":"group","m":[S..]}
def rect_cs(o):
    """cos / sin exactly as rotation_translation_matrix computes them"""
    return (1.0, 0.0) if o == 0 else (math.cos(o), math.sin(o))


def rect_corners_exact(s):
    """corners of the rectangle with the libm cos / sin taken as exact rationals"""
    cs, sn = map(F, rect_cs(s["o"]))
    l, w, cx, cy = F(s["l"]), F(s["w"]), F(s["c"][0]), F(s["c"][1])
    out = []
    for ax, ay in ((-l / 2, -w / 2), (-l / 2, w / 2), (l / 2, w / 2), (l / 2, -w / 2)):
        out.append((cs * ax - sn * ay + cx, sn * ax + cs * ay + cy))
    return out


def shape_ring(s):
    if s["k"] == "rect":
        return rect_corners_exact(s)
    if s["k"] == "poly":
        return [fr(v) for v in s["v"]]
    raise ValueError(s["k"])


def prim_contains_exact(s, p):
    """the set the property assigns to a primitive shape: (inside, squared margin to its boundary)"""
    p = fr(p)
    if s["k"] == "circ":
        d2 = (p[0] - F(s["c"][0])) ** 2 + (p[1] - F(s["c"][1])) ** 2
        r = F(s["r"])
        inside = r >= 0 and d2 <= r * r
        # margin: | |p-c| - r |, computed in floats (only used for the near-boundary guard)
        return inside, abs(math.sqrt(float(d2)) - float(r))
    ring = shape_ring(s)
    return pip(ring, p), math.sqrt(float(boundary_dist2(ring, p)))


def prim_meets_exact(s, ring):
    """(meets, margin): margin = distance between the sets if disjoint, else a lower bound of how
    far they overlap is not computed (None)"""
    if s["k"] == "circ":
        c = (F(s["c"][0]), F(s["c"][1]))
        d = math.sqrt(float(disc_ring_dist2(c, ring)))
        return d <= float(s["r"]), abs(d - float(s["r"])), d
    r2 = shape_ring(s)
    d2 = ring_dist2(r2, ring)
    return d2 == 0, math.sqrt(float(d2)), None


def make_shape(s):
    if s["k"] == "rect":
        return Rectangle(s["l"], s["w"], np.array(s["c"], dtype=float), s["o"])
    if s["k"] == "circ":
        return Circle(s["r"], np.array(s["c"], dtype=float))
    if s["k"] == "poly":
        return Polygon(np.array(s["v"], dtype=float))
    return ShapeGroup([make_shape(m) for m in s["m"]])


def make_shape_moved(s, mv):
    """the shape of spec s as the result of Shape.translate_rotate: an object built at the pose from which the motion
    mv = [tx, ty, angle] leads to s answers a query (so that whatever it remembers is filled), then it is moved"""
    import math
    tx, ty, a = mv
    co, si = math.cos(-a), math.sin(-a)

    def back(p):                         # translate_rotate maps p to R(a)(p + t)
        return [co * p[0] - si * p[1] - tx, si * p[0] + co * p[1] - ty]

    def pre(m):
        if m["k"] == "rect":
            return dict(m, c=back(m["c"]), o=m["o"] - a)
        if m["k"] == "circ":
            return dict(m, c=back(m["c"]))
        if m["k"] == "poly":
            return dict(m, v=[back(v) for v in m["v"]])
        return dict(m, m=[pre(x) for x in m["m"]])
    sh0 = make_shape(pre(s))
    for m, msh in zip(prims(pre(s)), sh0.shapes if s["k"] == "group" else [sh0]):
        msh.contains_point(np.array(m["c"] if "c" in m else m["v"][0], dtype=float))
        _ = msh.shapely_object
    return sh0.translate_rotate(np.array([tx, ty], dtype=float), a)


def make_shape_via(s, seed, trace=None, defer=False):
    """the shape of spec s reached through its public setters: an object built with other values answers queries
    (vertices, point containment, exported geometry), then length / width / center / orientation (radius / center;
    vertices) are assigned the values of s, with further queries in between.  What the object denotes is given by its
    current attribute values.  trace (a list): receives one record per primitive object - the history as model
    operations over value tokens, with the cache flags of the real object after every step and, for queries, whether
    the answer equals that of an object freshly constructed from the current values (Corr/C06Cache.v)."""
    import random
    r = random.Random(seed)
    if s["k"] == "group":
        # the members get their values AFTER the group was built and queried (setters of the member objects)
        parts = [make_shape_via(m, r.randrange(1 << 30), trace, defer=True) for m in s["m"]]
        g = ShapeGroup([sh for sh, _ in parts])
        if r.random() < 0.8:
            m0 = prims(s)[0]
            g.contains_point(np.array(m0["c"] if "c" in m0 else m0["v"][0], dtype=float))
        for _, finish in parts:
            finish()
        return g
    dx, dy = r.choice([3.0, -2.5, 0.75]), r.choice([-4.0, 1.5, 6.25])
    tok = [0]

    def new_tok():
        tok[0] += 1
        return tok[0]
    steps = []
    MISSING = object()

    def flag(obj, name):
        v = getattr(obj, name, MISSING)
        return None if v is MISSING else v is not None
    if s["k"] == "rect":
        cur = {"length": s["l"] + r.choice([0.0, 1.5, 3.0]), "width": s["w"] * r.choice([1.0, 2.0, 0.5]),
               "center": np.array([s["c"][0] + dx, s["c"][1] + dy], dtype=float), "orientation": r.choice([0.0, 0.4, s["o"]])}
        sh = Rectangle(cur["length"], cur["width"], cur["center"], cur["orientation"])
        init = [new_tok() for _ in range(4)]

        def obs(fresh_same):
            steps.append([op, flag(sh, "_vertices"), flag(sh, "_Rectangle__shapely_polygon"), fresh_same])

        def query(kind):
            nonlocal op
            fresh = Rectangle(cur["length"], cur["width"], cur["center"], cur["orientation"])
            if kind == "v":
                op = "RQVerts"
                obs(bool(np.array_equal(sh.vertices, fresh.vertices)))
            else:
                op = "RQGeom"
                if r.random() < 0.5:
                    sh.contains_point(np.array(s["c"], dtype=float))
                obs(bool(np.array_equal(np.array(sh.shapely_object.exterior.coords),
                                        np.array(fresh.shapely_object.exterior.coords))))
        op = None
        for k in r.sample(["v", "g", "g"], r.randint(1, 3)):
            query(k)
        sets = [("length", s["l"], "RSetL"), ("width", s["w"], "RSetW"), ("center", np.array(s["c"], dtype=float), "RSetC"),
                ("orientation", s["o"], "RSetO")]
        r.shuffle(sets)

        def finish():
            nonlocal op
            for a, v, ctor in sets:
                if a == "center" and r.random() < 0.4:
                    # the array the object hands out is overwritten in place and assigned back: the SAME object
                    held = sh.center
                    held[...] = v
                    sh.center = held
                    v = np.array(v, dtype=float)
                else:
                    setattr(sh, a, v)
                cur[a] = v
                op = f"({ctor} {new_tok()})"
                obs(True)
                if r.random() < 0.4:
                    query(r.choice(["v", "g"]))
            if trace is not None:
                trace.append({"k": "rect", "init": init, "steps": steps})
    elif s["k"] == "circ":
        cur = {"radius": s["r"] * r.choice([1.0, 2.0, 0.5]), "center": np.array([s["c"][0] + dx, s["c"][1] + dy], dtype=float)}
        sh = Circle(cur["radius"], cur["center"])
        init = [new_tok() for _ in range(2)]

        def cobs(fresh_same):
            steps.append([op, False, flag(sh, "_shapely_circle"), fresh_same])

        def cquery():
            nonlocal op
            op = "CQGeom"
            fresh = Circle(cur["radius"], cur["center"])
            cobs(bool(np.array_equal(np.array(sh.shapely_object.exterior.coords),
                                     np.array(fresh.shapely_object.exterior.coords))))
        op = None
        if r.random() < 0.8:
            cquery()
        sh.contains_point(np.array(s["c"], dtype=float))
        sets = [("radius", s["r"], "CSetR"), ("center", np.array(s["c"], dtype=float), "CSetC")]
        r.shuffle(sets)

        def finish():
            nonlocal op
            for a, v, ctor in sets:
                if a == "center" and r.random() < 0.4:
                    held = sh.center      # overwritten in place and assigned back: the SAME object
                    held[...] = v
                    sh.center = held
                    v = np.array(v, dtype=float)
                else:
                    setattr(sh, a, v)
                cur[a] = v
                op = f"({ctor} {new_tok()})"
                cobs(True)
                if r.random() < 0.5:
                    cquery()
            if trace is not None:
                trace.append({"k": "circ", "init": init, "steps": steps})
    else:
        v0 = np.array([[x + dx, y + dy] for x, y in s["v"]], dtype=float)
        sh = Polygon(v0)
        init = [new_tok()]
        keep = [getattr(sh, "_shapely_polygon", None)]      # keeps earlier polygon objects alive (identity comparison)

        def pobs(fresh_same):
            g = getattr(sh, "_shapely_polygon", MISSING)
            steps.append([op, False, None if g is MISSING else g is not keep[-1], fresh_same])
            keep.append(None if g is MISSING else g)

        def pquery(vs):
            nonlocal op
            op = "PQGeom"
            fresh = Polygon(np.array(vs, dtype=float))
            sh.contains_point(np.array(s["v"][0], dtype=float)), sh.center
            pobs(bool(sh.shapely_object.equals(fresh.shapely_object)))
        op = None
        pquery(v0)
        mids = [np.array([[x + 0.5 * dx, y] for x, y in s["v"]], dtype=float)] if r.random() < 0.4 else []

        def finish():
            nonlocal op
            for vs in mids + [np.array(s["v"], dtype=float)]:
                sh.vertices = vs
                op = f"(PSetV [{new_tok()}])"
                pobs(True)
                if r.random() < 0.6 or vs is not mids[0] if mids else True:
                    pquery(vs)
            if trace is not None:
                trace.append({"k": "poly", "init": init, "steps": steps})
    if defer:
        return sh, finish
    finish()
    return sh


def shift_shape(s, dx, dy):
    if s["k"] in ("rect", "circ"):
        return dict(s, c=[s["c"][0] + dx, s["c"][1] + dy])
    if s["k"] == "poly":
        return dict(s, v=[[x + dx, y + dy] for x, y in s["v"]])
    return dict(s, m=[shift_shape(m, dx, dy) for m in s["m"]])


def prims(s):
    return s["m"] if s["k"] == "group" else [s]


# ------------------------------------------------------------------------------------------ raw networks
def q16(x):
    """nearest multiple of 1/16: exactly representable, 4 decimals (survives the XML writer)"""
    return round(x * 16) / 16.0


def q3(x):
    return round(x, 3)


def strip(rng, first_id, n_lanes, n_seg, origin, heading, curved, exact, width=None, seg_len=None, pts=None):
    """n_lanes x n_seg lanelets along a reference line; neighbours share boundary vertices exactly.
    Returns {id: {"left": [[x,y]..], "right": [[x,y]..]}} with vertices in driving direction."""
    width = width or rng.choice([2.0, 3.0, 3.5, 4.0])
    seg_len = seg_len or rng.choice([6.0, 8.0, 10.0])
    pts = pts or (rng.randint(3, 5) if curved else rng.randint(2, 3))
    kappa = rng.choice([0.02, 0.03, -0.025, 0.04]) if curved else 0.0
    quant = q16 if exact else q3
    total = n_seg * (pts - 1) + 1
    ds = seg_len / (pts - 1)
    x, y, a = origin[0], origin[1], heading
    ref = []
    for _ in range(total):
        ref.append((x, y, a))
        x, y, a = x + ds * math.cos(a), y + ds * math.sin(a), a + kappa * ds
    # boundary polylines 0..n_lanes (0 = rightmost), quantised once so that neighbours share them
    lines = []
    for b in range(n_lanes + 1):
        d = b * width
        lines.append([[quant(rx - d * math.sin(ra)), quant(ry + d * math.cos(ra))] for rx, ry, ra in ref])
    out = {}
    for s in range(n_seg):
        lo, hi = s * (pts - 1), (s + 1) * (pts - 1) + 1
        for l in range(n_lanes):
            out[first_id + s * n_lanes + l] = {"right": [list(v) for v in lines[l][lo:hi]],
                                               "left": [list(v) for v in lines[l + 1][lo:hi]]}
    return out


def gen_network(rng, exact=None, max_groups=3):
    """raw network: a main road, optionally an overlapping road and a disjoint road"""
    exact = rng.random() < 0.4 if exact is None else exact
    curved = rng.random() < 0.6
    net = {}
    nl, ns = rng.randint(1, 3), rng.randint(1, 3)
    heading = 0.0 if (exact and not curved) else rng.choice([0.0, 0.0, 0.3, -0.5, 1.2, math.pi / 2])
    if exact and not curved:
        heading = rng.choice([0.0, math.pi / 2])  # axis aligned (cos(pi/2) is 6e-17: quantisation removes it)
    net.update(strip(rng, 1, nl, ns, (0.0, 0.0), heading, curved, exact))
    kinds = ["main"]
    if max_groups >= 2 and rng.random() < 0.6:  # overlapping road: crosses / partly covers the main one
        o = (rng.choice([2.0, 5.0, 8.0]), rng.choice([-4.0, -1.5, 1.0]))
        h = rng.choice([0.0, math.pi / 2, 0.7]) if not (exact and not curved) else rng.choice([0.0, math.pi / 2])
        net.update(strip(rng, 40, rng.randint(1, 2), rng.randint(1, 2), o, h, rng.random() < 0.4, exact))
        kinds.append("overlap")
    if max_groups >= 3 and rng.random() < 0.5:  # disjoint road
        net.update(strip(rng, 70, 1, rng.randint(1, 2), (rng.choice([-60.0, 80.0]), rng.choice([-50.0, 60.0])),
                         rng.choice([0.0, 1.0]), rng.random() < 0.5, exact))
        kinds.append("disjoint")
    return {"exact": exact, "curved": curved, "kinds": kinds, "lanelets": {str(k): v for k, v in net.items()}}


def lanelet_ring(ll):
    """right boundary followed by the reversed left boundary (raw floats)"""
    return [list(v) for v in ll["right"]] + [list(v) for v in reversed(ll["left"])]


def ring_exact(ring):
    return [fr(v) for v in ring]


def ring_is_simple(ring):
    """no two non-adjacent edges meet, adjacent ones only in their common vertex (exact)"""
    r = ring_exact(ring)
    es = edges(r)
    n = len(es)
    if n < 3 or len(set(r)) != len(r):
        return False
    for i in range(n):
        for j in range(i + 1, n):
            adjacent = j == i + 1 or (i == 0 and j == n - 1)
            a, b = es[i]
            c, d = es[j]
            if adjacent:
                # only the shared vertex may be common
                shared = b if j == i + 1 else a
                other_i = a if j == i + 1 else b
                other_j = d if j == i + 1 else c
                if on_seg(c, d, other_i) or on_seg(a, b, other_j):
                    return False
                _ = shared
            elif seg_meets(a, b, c, d):
                return False
    return True


def make_lanelet(lid, ll):
    left = np.array(ll["left"], dtype=float)
    right = np.array(ll["right"], dtype=float)
    return Lanelet(left, (left + right) / 2.0, right, int(lid), lanelet_type={LaneletType.URBAN})


def bbox(net):
    xs = [v[0] for ll in net["lanelets"].values() for v in ll["left"] + ll["right"]]
    ys = [v[1] for ll in net["lanelets"].values() for v in ll["left"] + ll["right"]]
    return min(xs), min(ys), max(xs), max(ys)


# ------------------------------------------------------------------------------------------ queries
def gen_point(rng, net):
    """inside / outside / far / exactly on (shared) boundaries"""
    lls = list(net["lanelets"].values())
    ll = rng.choice(lls)
    ring = lanelet_ring(ll)
    k = rng.random()
    quant = q16 if net["exact"] else (lambda v: v)
    if k < 0.25:  # a vertex (shared with the neighbours)
        return list(rng.choice(ring)), "vertex"
    if k < 0.45:  # midpoint of a boundary edge: exactly on it when the ends are dyadic
        i = rng.randrange(len(ring))
        a, b = ring[i], ring[(i + 1) % len(ring)]
        return [(a[0] + b[0]) / 2.0, (a[1] + b[1]) / 2.0], "edge-mid"
    if k < 0.7:  # interior-ish: between a left and a right vertex
        i = rng.randrange(len(ll["left"]))
        t = rng.choice([0.5, 0.25, 0.125, rng.random()])
        a, b = ll["left"][i], ll["right"][i]
        return [quant(a[0] + t * (b[0] - a[0])), quant(a[1] + t * (b[1] - a[1]))], "interior"
    x0, y0, x1, y1 = bbox(net)
    if k < 0.9:  # around the network
        return [quant(rng.uniform(x0 - 3, x1 + 3)), quant(rng.uniform(y0 - 3, y1 + 3))], "around"
    return [quant(rng.uniform(-1e4, 1e4)), quant(rng.uniform(-1e4, 1e4))], "far"


def gen_prim(rng, net, at=None, exact=False, kinds=("rect", "circ", "poly")):
    if at is None:
        at, _ = gen_point(rng, net)
    k = rng.choice(kinds)
    quant = q16 if exact else q3
    if k == "rect":
        o = 0.0 if exact else rng.choice([0.0, 0.0, quant(rng.uniform(-3.1, 3.1)), math.pi / 2, 0.05, -0.05])
        return {"k": "rect", "l": rng.choice([0.5, 1.0, 2.0, 4.5, quant(rng.uniform(0.5, 8))]),
                "w": rng.choice([0.5, 1.0, 2.0, quant(rng.uniform(0.5, 3))]), "c": [at[0], at[1]], "o": o}
    if k == "circ":
        return {"k": "circ", "r": rng.choice([0.25, 0.5, 1.0, 2.0, 3.0, quant(rng.uniform(0.2, 4))]), "c": [at[0], at[1]]}
    n = rng.randint(3, 6)
    while True:
        angs = sorted(rng.uniform(0, 2 * math.pi) for _ in range(n))
        if min((angs[(i + 1) % n] - angs[i]) % (2 * math.pi) for i in range(n)) > 0.4 and \
                max((angs[(i + 1) % n] - angs[i]) % (2 * math.pi) for i in range(n)) < math.pi - 0.2:
            break
    rad = [rng.uniform(0.8, 3.0) for _ in range(n)]
    v = [[quant(at[0] + r * math.cos(a)), quant(at[1] + r * math.sin(a))] for r, a in zip(rad, angs)]
    if rng.random() < 0.5:
        v.reverse()  # clockwise and counter-clockwise inputs
    return {"k": "poly", "v": v}


def gen_shape(rng, net, at=None, exact=False, group=True):
    if group and rng.random() < 0.25:
        base = at if at is not None else gen_point(rng, net)[0]
        quant = q16 if exact else q3
        ms = []
        for _ in range(rng.randint(1, 3)):
            ms.append(gen_prim(rng, net, [quant(base[0] + rng.uniform(-3, 3)), quant(base[1] + rng.uniform(-3, 3))], exact))
        return {"k": "group", "m": ms}
    return gen_prim(rng, net, at, exact)
