"""C15 — a file writer's output depends only on its own inputs.
oracle: histories of CommonRoadFileWriter objects (<= 4 writers, <= 14 writes, XML / protobuf, precisions 1..12,
        3 generated scenarios, files shared between writers, file names with and without the format suffix, modes
        ALWAYS / SKIP / ASK), each history in a process of its own that has never constructed a writer: every written
        file must equal (date aside) what one fresh, identically constructed writer writes once IN A PROCESS WITHOUT
        ANY WRITER HISTORY (reference independent of the process the history runs in); with SKIP no existing file is
        touched; every written file reads back with the ids of its scenario and its coordinates within 10^-precision.
corr:   the same histories through Model/Writers.v (symbolic instance, vm_compute): which calls skip, which file
        each call writes and which rendering it holds, and the files at the end (Corr/C15.v)."""
import builtins
import contextlib
import io
import json
import logging
import math
import multiprocessing
import multiprocessing.connection
import os
import random
import re
import shutil
import tempfile
import traceback

import numpy as np

from vlib import scen
from vlib.core import qb, qlist
from vlib.flow import load_corpus

from commonroad.common.file_reader import CommonRoadFileReader
from commonroad.common.file_writer import CommonRoadFileWriter, OverwriteExistingFile
from commonroad.common.util import FileFormat
from commonroad.scenario.lanelet import Lanelet
from commonroad.scenario.obstacle import DynamicObstacle, ObstacleType, StaticObstacle
from commonroad.planning.goal import GoalRegion
from commonroad.planning.planning_problem import PlanningProblem
from commonroad.scenario.scenario import ScenarioID, Tag
from commonroad.scenario.state import InitialState
from commonroad.geometry.shape import Rectangle

logging.getLogger("commonroad").setLevel(logging.ERROR)

RULE = ("histories from one seeded PRNG, each executed in a process of its own forked from an interpreter that has only "
        "imported the library: 1..4 writers (re-construction of a writer id allowed) over 3 generated scenarios (lanelet "
        "strips with signs / lights / intersection, one lanelet with 15-digit vertices that all three scenarios share "
        "and one of its own, static, dynamic, set-based, environment obstacles, one obstacle with 15-digit coordinates, "
        "so that every precision 1..12 renders every kind of number differently), both formats, two argument "
        "variants, 1..6 (one history in 16: 7..14) write_to_file / write_scenario_to_file calls on <= 3 of the 9 file "
        "names file{0,1,2}{,.xml,.pb} (names with and without the format suffix, siblings 'fileN' / 'fileN<suffix>' "
        "preferred) with modes ALWAYS / SKIP / ASK(y|n); one third of the histories are the targeted shapes 'same "
        "writer twice', 'other precision in between', 'other format in between', 'skip on existing / missing', "
        "'identical writers interleaved', 're-construction', 'same scenario under two precisions', 'skip next to a "
        "sibling name'.  distinct = distinct case dicts; non-trivial = at least one write call")
ASSUME = ["the date stamp is excluded (XML root attribute date; protobuf information.date)",
          "render (what one fresh writer writes once) is abstract in the model; the oracle obtains every reference "
          "from the implementation itself, each in a process of its own that has never constructed or used another "
          "writer (forked from a helper that only imported the library and built the scenarios)",
          "'reads back to the same scenario': same ids, and lanelet boundary vertices, obstacle and planning-problem "
          "initial positions within 10^-precision (XML text is cut to that many decimals; protobuf: 1e-9)",
          "which file name a call writes to is not part of the statement: the oracle judges the file(s) a call "
          "creates or rewrites wherever they are (the model / correspondence do fix the name); SKIP is judged on every "
          "file that exists in the directory when the call starts",
          "static obstacles carry an explicit empty signal_series and goal regions no lanelet references, so that the "
          "protobuf writer accepts the scenarios (its failures on None / partial dicts belong to C02 / C18)"]

MODES = ["always", "skip", "ask_y", "ask_n"]
SAFE_ROLES = ["dynamic", "dynamic", "dynamic_set", "dynamic_none", "env"]
XML_DATE = re.compile(rb'(<commonRoad\b[^>]*?\sdate=")[^"]*(")')
SUFFIXES = ["", ".xml", ".pb"]
N_PATHS = 9
PLANTED_NS = 1_000_000_000


def name_of(pi):
    """file name of path index pi: 0..2 'fileN', 3..5 'fileN.xml', 6..8 'fileN.pb'"""
    return f"file{pi % 3}{SUFFIXES[(pi // 3) % 3]}"


INDEX_OF = {name_of(i): i for i in range(N_PATHS)}


# ------------------------------------------------------------------------------------ scenarios
def _fine_lanelet(lid, xs, y_right, y_left):
    right = np.array([[x, y_right] for x in xs])
    left = np.array([[x, y_left] for x in xs])
    return Lanelet(left, (left + right) / 2.0, right, lid)


def build_world(scen_seed):
    """the 3 (scenario, planning problem set) pairs of a case, rebuilt from its sub-seed"""
    rng = random.Random(scen_seed)
    shared_xs = [rng.uniform(-1, 1) + 10 * j for j in range(3)]  # 15-17 significant digits, same in all 3 scenarios
    out = []
    for i in range(3):
        sc = scen.rand_scenario(rng, n_obstacles=rng.randint(1, 3), roles=SAFE_ROLES)
        if rng.random() < 0.7:
            o = scen.rand_obstacle(rng, 700, role="static")
            sc.add_objects(StaticObstacle(700, o.obstacle_type, o.obstacle_shape, o.initial_state, signal_series=[]))
        # coordinates with 14-15 decimals: every precision 1..12 gives different text
        st = InitialState(time_step=0, position=np.array([3 * math.pi + i, math.e]), orientation=math.sqrt(2) / 2,
                          velocity=math.pi / 3, acceleration=0.0, yaw_rate=0.0, slip_angle=0.0)
        sc.add_objects(DynamicObstacle(710, ObstacleType.CAR, Rectangle(4.123456789012, 1.8), st, None))
        # a dynamic obstacle whose signal series is stored in another order than by time step (looked up by time step,
        # written in list order by both formats): a writer that re-orders its input changes what the next writer sees
        for _ in range(6):
            o = scen.rand_obstacle(rng, 720, role="dynamic")
            if o.signal_series and len(o.signal_series) >= 2:
                ser = list(o.signal_series)
                ser = ser[1:] + ser[:1] if rng.random() < 0.5 else ser[::-1]
                sc.add_objects(DynamicObstacle(720, o.obstacle_type, o.obstacle_shape, o.initial_state, o.prediction,
                                               initial_signal_state=o.initial_signal_state, signal_series=ser))
                break
        # zeros of both signs (str(-0.0) = '-0.0'), and in one scenario of the case a long lanelet (> 1024 distinct
        # numbers in one file): anything a writer memoises per number is exercised across writes and writers
        st0 = InitialState(time_step=0, position=np.array([0.0, -0.0]), orientation=-0.0, velocity=0.0,
                           acceleration=-0.0, yaw_rate=0.0, slip_angle=0.0)
        sc.add_objects(DynamicObstacle(711, ObstacleType.CAR, Rectangle(2.0, 1.0), st0, None))
        if i == scen_seed % 3:
            xs = [0.0] + [round(0.37 * j + 0.001 * (j % 7), 6) for j in range(1, 640)]
            right = np.array([[x, -0.0 if j == len(xs) - 1 else -1.5 - 0.0001 * j] for j, x in enumerate(xs)])
            left = np.array([[x, 1.5 + 0.0001 * j] for j, x in enumerate(xs)])
            sc.add_objects(Lanelet(left, (left + right) / 2.0, right, 82))
            # a car park: one vehicle whose box was measured in whole metres held as numpy integers, then more than 128
            # vehicles' worth of distinct box sizes, and (obstacle 711 above, written after the static ones) the same
            # size as floats: equal numbers, different texts ("2" / "2.0"), far apart in one file
            park = InitialState(time_step=0, position=np.array([5.0, 40.0]), orientation=0.0, velocity=0.0,
                                acceleration=0.0, yaw_rate=0.0, slip_angle=0.0)
            sc.add_objects(StaticObstacle(730, ObstacleType.PARKED_VEHICLE, Rectangle(np.int64(2), np.int64(1)), park))
            for j in range(70):
                pj = InitialState(time_step=0, position=np.array([8.0 + 3 * j, 40.0]), orientation=0.0, velocity=0.0,
                                  acceleration=0.0, yaw_rate=0.0, slip_angle=0.0)
                sc.add_objects(StaticObstacle(731 + j, ObstacleType.PARKED_VEHICLE,
                                              Rectangle(2.01 + 0.01 * j, 1.01 + 0.01 * j), pj))
        # the same for lanelet boundaries: one lanelet whose vertex values all scenarios of the case share, one of its own
        sc.add_objects(_fine_lanelet(80, shared_xs, 60 + math.sqrt(2), 63 + math.e))
        sc.add_objects(_fine_lanelet(81, [rng.uniform(0, 30) for _ in range(2)], 70 + rng.random(), 73 + rng.random()))
        # two adjacent lanelets that hold ONE array object for their common boundary (value-equal to two arrays)
        xs2 = [0.0, 4.0, 9.5, 15.25]
        lo = np.array([[x, 80.0] for x in xs2])
        mid = np.array([[x, 83.5] for x in xs2])
        hi = np.array([[x, 87.0] for x in xs2])
        sc.add_objects([Lanelet(mid, (mid + lo) / 2.0, lo, 85, adjacent_left=86, adjacent_left_same_direction=True),
                        Lanelet(hi, (hi + mid) / 2.0, mid, 86, adjacent_right=85, adjacent_right_same_direction=True)])
        sc.author, sc.affiliation, sc.source = f"author{i}", f"affiliation{i}", f"source{i}"
        sc.tags = {Tag.URBAN, Tag.HIGHWAY} if i % 2 == 0 else {Tag.INTERSECTION}
        pps = scen.rand_planning_problem_set(rng, first_id=900 + 10 * i)
        # a goal whose position is given by lanelets, listed in an order of the user's choosing (not ascending): what a
        # writer does with the list it is handed must not show in what the next writer sees (seed C15-15)
        # (lanelets_of_goal_position is immutable: the problem is put together anew)
        for pid, pp in list(pps.planning_problem_dict.items()):
            js = [j for j, g in enumerate(pp.goal.state_list) if getattr(g, "position", None) is not None]
            if js:
                del pps.planning_problem_dict[pid]
                pps.add_planning_problem(PlanningProblem(pid, pp.initial_state,
                                                         GoalRegion(pp.goal.state_list, {js[0]: [86, 85]})))
                break
        out.append((sc, pps))
    return out


def writer_kwargs(variant):
    if variant == 0:
        return {}
    return {"author": "Other Author", "affiliation": "Other Affiliation", "source": "other source",
            "tags": {Tag.SIMULATED}}


N_EDITS = 5


def apply_edit(world, si, k):
    """an edit of scenario si through its public attributes, made between two writes (the scenario is an input of the
    writer: what is written afterwards is what a fresh writer writes for the scenario as it is now)"""
    sc = world[si][0]
    sid = sc.scenario_id
    if k == 0:
        sid.map_id = sid.map_id + 1
    elif k == 1:
        sid.map_name = sid.map_name + "B"
    elif k == 2:
        sc.scenario_id = ScenarioID(sid.cooperative, sid.country_id, sid.map_name, sid.map_id + 2, sid.configuration_id,
                                    sid.obstacle_behavior, sid.prediction_id, sid.scenario_version)
    elif k == 3:
        if sid.configuration_id is not None:
            sid.configuration_id = sid.configuration_id + 1
        else:
            sid.map_id = sid.map_id + 3
    else:
        sc.translate_rotate(np.array([1.0, -2.0]), 0.0)


def new_writer(world, fmt, prec, si, variant):
    sc, pps = world[si]
    return CommonRoadFileWriter(sc, pps, decimal_precision=prec,
                                file_format=FileFormat.XML if fmt == "xml" else FileFormat.PROTOBUF,
                                **writer_kwargs(variant))


def normalise(fmt, data):
    """bytes with the date stamp blanked"""
    if fmt == "xml":
        return XML_DATE.sub(rb"\1D\2", data, count=1)
    from commonroad.scenario_definition.protobuf_format.generated_scripts import commonroad_pb2
    msg = commonroad_pb2.CommonRoad()
    msg.ParseFromString(data)
    for fd, _ in msg.information.date.ListFields():  # required fields: blank them instead of clearing
        setattr(msg.information.date, fd.name, 1)
    return b"PB" + msg.SerializeToString(deterministic=True)


def try_normalise(fmt, data):
    try:
        return normalise(fmt, data)
    except Exception:  # noqa  (not even parseable as the writer's own format)
        return data


@contextlib.contextmanager
def quiet(answer=None):
    old_in = builtins.input
    if answer is not None:
        builtins.input = lambda *a, **k: answer
    try:
        with contextlib.redirect_stdout(io.StringIO()):
            yield
    finally:
        builtins.input = old_in


def call_write(w, kind, path, mode):
    ow = {"always": OverwriteExistingFile.ALWAYS, "skip": OverwriteExistingFile.SKIP,
          "ask_y": OverwriteExistingFile.ASK_USER_INPUT, "ask_n": OverwriteExistingFile.ASK_USER_INPUT}[mode]
    with quiet({"ask_y": "y", "ask_n": "n"}.get(mode)):
        if kind == "write":
            w.write_to_file(path, ow)
        else:
            w.write_scenario_to_file(path, ow)


def snapshot_dir(d):
    """{file name: bytes} of the regular files of the directory"""
    out = {}
    for fn in sorted(os.listdir(d)):
        p = os.path.join(d, fn)
        if os.path.isfile(p):
            with open(p, "rb") as f:
                out[fn] = f.read()
    return out


# ------------------------------------------------------------------------------------ references without history
class Pristine:
    """Reference renderings that cannot depend on what happened in this process: a helper is forked NOW (the calling
    process has imported the library and built the scenarios, but never constructed a writer) and forks one child per
    request; the child constructs one writer, writes once into an empty directory and exits.  The helper itself never
    touches a writer, so a request made after the history has run is answered from the same clean state."""

    def __init__(self, world, d):
        self.d = d
        self.n = 0
        req_r, req_w = os.pipe()
        ans_r, ans_w = os.pipe()
        self.pid = os.fork()
        if self.pid == 0:
            code = 0
            try:
                os.close(req_w)
                os.close(ans_r)
                self._serve(world, req_r, ans_w)
            except BaseException:  # noqa
                code = 4
            finally:
                os._exit(code)
        os.close(req_r)
        os.close(ans_w)
        self.req_w, self.ans_r = req_w, ans_r

    @staticmethod
    def _serve(world, req_r, ans_w):
        with os.fdopen(req_r, "r") as f:
            for line in f:
                fmt, prec, si, variant, with_pps, sub, edits = json.loads(line)
                pid = os.fork()
                if pid == 0:
                    code = 0
                    try:
                        for k in edits:      # in this process nothing was written (or printed) before the edit
                            apply_edit(world, si, k)
                        w = new_writer(world, fmt, prec, si, variant)
                        call_write(w, "write" if with_pps else "write_scenario", os.path.join(sub, "out"), "always")
                    except BaseException as e:  # noqa  (a writer that fails is an observation, judged by the caller)
                        code = 3
                        with open(sub + ".exc", "w") as g:
                            g.write(type(e).__name__)
                    finally:
                        os._exit(code)
                os.waitpid(pid, 0)
                os.write(ans_w, b".")

    def render(self, fmt, prec, si, variant, with_pps, edits=()):
        """('ok', normalised bytes) | ('exc', name) | ('files', [names]) (no file or several files written)"""
        sub = os.path.join(self.d, f"ref{self.n}")
        self.n += 1
        os.makedirs(sub)
        os.write(self.req_w, (json.dumps([fmt, prec, si, variant, with_pps, sub, list(edits)]) + "\n").encode())
        if os.read(self.ans_r, 1) != b".":
            raise RuntimeError("C15: the reference helper process died")
        try:
            if os.path.exists(sub + ".exc"):
                with open(sub + ".exc") as f:
                    return ("exc", f.read())
            files = snapshot_dir(sub)
            if len(files) != 1:
                return ("files", sorted(files))
            return ("ok", normalise(fmt, next(iter(files.values()))))
        finally:
            shutil.rmtree(sub, ignore_errors=True)

    def close(self):
        os.close(self.req_w)
        os.close(self.ans_r)
        os.waitpid(self.pid, 0)


def references(pristine, case):
    """{(fmt, si, prec, variant, with_pps): normalised bytes | None} for every writer configuration of the case;
    second component: [(conf, with_pps, outcome)] of the references that could not be produced"""
    refs, failed = {}, []
    confs = sorted({(op[2], op[4], op[3], op[5]) for op in case["ops"] if op[0] == "new"})
    for fmt, si, prec, variant in confs:
        for pps in (True, False):
            r = pristine.render(fmt, prec, si, variant, pps)
            refs[(fmt, si, prec, variant, pps)] = r[1] if r[0] == "ok" else None
            if r[0] != "ok":
                failed.append(((fmt, si, prec, variant), pps, r))
    return refs, failed


def guess_fmt(data):
    return "xml" if data.lstrip()[:1] == b"<" else "pb"


def ids_of(sc, pps):
    net = sc.lanelet_network
    return {"lanelets": sorted(x.lanelet_id for x in net.lanelets),
            "signs": sorted(x.traffic_sign_id for x in net.traffic_signs),
            "lights": sorted(x.traffic_light_id for x in net.traffic_lights),
            "intersections": sorted(x.intersection_id for x in net.intersections),
            "obstacles": sorted(x.obstacle_id for x in sc.obstacles),
            "problems": sorted(pps.planning_problem_dict) if pps is not None else []}


def coords_of(sc, pps):
    """{what: float array} of the coordinates the read-back comparison covers"""
    out = {}
    for la in sc.lanelet_network.lanelets:
        out[f"lanelet {la.lanelet_id} left bound"] = np.asarray(la.left_vertices, dtype=float)
        out[f"lanelet {la.lanelet_id} right bound"] = np.asarray(la.right_vertices, dtype=float)
    for o in sc.obstacles:
        p = getattr(getattr(o, "initial_state", None), "position", None)
        if isinstance(p, np.ndarray):
            out[f"obstacle {o.obstacle_id} initial position"] = np.asarray(p, dtype=float)
    if pps is not None:
        for pid, pp in pps.planning_problem_dict.items():
            p = getattr(pp.initial_state, "position", None)
            if isinstance(p, np.ndarray):
                out[f"planning problem {pid} initial position"] = np.asarray(p, dtype=float)
    return out


def coords_deviation(exp, got, tol):
    """None | text: the first coordinate array read back that is further than tol from what was written"""
    for k in sorted(exp):
        if k not in got:
            continue  # a missing object is the business of the id comparison
        a, b = exp[k], got[k]
        if a.shape != b.shape:
            return f"{k}: shape {b.shape} instead of {a.shape}"
        if a.size and float(np.max(np.abs(a - b))) > tol:
            i = int(np.argmax(np.abs(a - b)))
            return f"{k}: {b.flat[i]!r} read back for {a.flat[i]!r} (allowed deviation {tol:.3g})"
    return None


def read_back(path, fmt):
    """('ok', ids, coords) | ('exc', name)"""
    try:
        with quiet():
            sc, pps = CommonRoadFileReader(path, FileFormat.XML if fmt == "xml" else FileFormat.PROTOBUF).open()
        return ("ok", ids_of(sc, pps), coords_of(sc, pps))
    except Exception as e:  # noqa  (a file that cannot be read back is an observation)
        return ("exc", type(e).__name__)


# ------------------------------------------------------------------------------------ running a history
def run_history_here(case):
    """executes the case IN THIS PROCESS (meant to be called in a process that has not used a writer before, see
    run_isolated); returns dict(steps=[...], final={path: tokens}, violations=[(signature, what)])"""
    d = tempfile.mkdtemp(prefix="c15-", dir=os.environ.get("VERIF_TMP", "/var/tmp"))
    pristine = None
    try:
        world = build_world(case["scen_seed"])
        pristine = Pristine(world, d)
        return _run_history(case, world, pristine, os.path.join(d, "h"))
    finally:
        if pristine is not None:
            pristine.close()
        shutil.rmtree(d, ignore_errors=True)


def _run_history(case, world, pristine, d):
    os.makedirs(d)
    expect_ids = [ids_of(sc, pps) for sc, pps in world]
    expect_coords = [coords_of(sc, pps) for sc, pps in world]
    refs, ref_failed = references(pristine, case)
    by_bytes = {}
    for k, v in refs.items():
        if v is not None:
            by_bytes.setdefault(v, []).append(k)
    writers, conf, wrote_before, news_since = {}, {}, {}, {}
    edits = {}
    steps, viol = [], []
    readback_done = set()

    def bad(sig, what):
        viol.append((sig, what))

    for (fmt, si, prec, variant), pps, r in ref_failed:
        knd = "write" if pps else "write_scenario"
        desc = f"a fresh writer ({fmt} scenario {si} precision {prec} variant {variant}) calling {knd} once"
        if r[0] == "exc":
            bad(f"{fmt}:{knd}:raises:{r[1]}", f"{desc} raises {r[1]}")
        else:
            bad(f"{fmt}:{knd}:not-written" if not r[1] else f"{fmt}:{knd}:other-file-changed",
                f"{desc} on a new name in an empty directory leaves the files {r[1]}")

    for idx, op in enumerate(case["ops"]):
        if op[0] == "new":
            _, w, fmt, prec, si, variant = op
            writers[w] = new_writer(world, fmt, prec, si, variant)
            conf[w] = (fmt, si, prec, variant)
            wrote_before[w] = 0
            for k in news_since:
                news_since[k].append((fmt, prec))
            news_since[w] = []
            steps.append({"obs": "new"})
            continue
        if op[0] == "edit":
            _, si_e, k_e = op
            apply_edit(world, si_e, k_e)
            edits[si_e] = edits.get(si_e, ()) + (k_e,)
            expect_ids[si_e] = ids_of(*world[si_e])
            expect_coords[si_e] = coords_of(*world[si_e])
            steps.append({"obs": "other"})
            continue
        kind, w, pi, mode = op
        if w not in writers:
            steps.append({"obs": "nowriter"})
            continue
        if kind.endswith("_fail"):
            # a write that cannot succeed (the directory does not exist): whatever it raises is not judged, but the
            # writer must afterwards still write what a fresh identical writer writes
            try:
                call_write(writers[w], kind[:-5], os.path.join(d, "no_such_directory", name_of(pi)), mode)
            except Exception:  # noqa
                pass
            steps.append({"obs": "other"})
            continue
        fmt, si, prec, variant = conf[w]
        name = name_of(pi)
        path = os.path.join(d, name)
        before = snapshot_dir(d)
        existed = name in before
        for fn in before:
            os.utime(os.path.join(d, fn), ns=(PLANTED_NS, PLANTED_NS))
        try:
            call_write(writers[w], kind, path, mode)
            exc = None
        except Exception as e:  # noqa
            exc = type(e).__name__
        after = snapshot_dir(d)
        # (re)written = new, gone, or the time stamp planted above is gone
        touched = sorted(fn for fn in set(before) | set(after)
                         if fn not in before or fn not in after
                         or os.stat(os.path.join(d, fn)).st_mtime_ns != PLANTED_NS)
        changed = sorted(k for k in set(before) | set(after) if before.get(k) != after.get(k))
        hit_existing = sorted(fn for fn in set(touched) | set(changed) if fn in before)
        with_pps = kind == "write"
        must_skip = existed and mode in ("skip", "ask_n")
        desc = f"op {idx} {kind}(writer {w}: {fmt} scenario {si} precision {prec} variant {variant}, {name}, {mode})"
        if exc is not None:
            bad(f"{fmt}:{kind}:raises:{exc}", f"{desc} raises {exc}")
            steps.append({"obs": "other"})
            continue
        if must_skip:
            if changed or touched:
                bad(f"{fmt}:{kind}:skip:file-changed", f"{desc}: existing file was modified although the call must skip "
                    f"(files created / rewritten: {sorted(set(touched) | set(changed))})")
            steps.append({"obs": "skipped" if not touched else "other"})
            continue
        if mode == "skip" and hit_existing:
            # the name given does not exist, so the call may write - but not over a file that does exist
            bad(f"{fmt}:{kind}:skip:file-changed", f"{desc}: called with overwrite mode SKIP, the existing file(s) "
                f"{hit_existing} were rewritten")
        if not touched:
            bad(f"{fmt}:{kind}:not-written", f"{desc} wrote nothing")
            steps.append({"obs": "other"})
            continue
        # the file the call wrote: the one it was given, or else the only one it created / rewrote
        target = name if name in touched else (touched[0] if len(touched) == 1 else None)
        others = [k for k in sorted(set(touched) | set(changed)) if k != target]
        if others or target is None:
            bad(f"{fmt}:{kind}:other-file-changed", f"{desc} changed file(s) {others or touched}")
        if target is None or target not in after:
            steps.append({"obs": "other"})
            continue
        got = try_normalise(fmt, after[target])
        want = refs[(fmt, si, prec, variant, with_pps)]
        if edits.get(si):
            # the scenario was edited since the case began: the reference is a fresh writer, in a process where nothing
            # was written before, for the scenario with the same edits
            rk = (fmt, si, prec, variant, with_pps, edits[si])
            if rk not in refs:
                r = pristine.render(fmt, prec, si, variant, with_pps, edits[si])
                refs[rk] = r[1] if r[0] == "ok" else None
            want = refs[rk]
        toks = by_bytes.get(got, [])
        steps.append({"obs": "written" if not others and target in INDEX_OF else "other",
                      "path": INDEX_OF.get(target, 0), "toks": toks})
        if want is not None and got != want:
            # classify the deviation (signature = input shape / call site)
            other_prec = [k for k in toks if k[0] == fmt and k[1] == si and k[3] == variant and k[4] == with_pps
                          and k[2] != prec]
            if not other_prec and fmt == "xml":
                # bytes of the same inputs under another precision that no writer of the case asked for?
                other_prec = [p for f2, p in news_since[w] if p != prec]
                other_prec = other_prec if _matches_other_precision(pristine, fmt, si, variant, with_pps, got,
                                                                    other_prec) else []
            if other_prec and not edits.get(si):
                bad(f"{fmt}:{kind}:precision-of-another-writer",
                    f"{desc}: content is rendered with the precision of a writer constructed later "
                    f"({other_prec[0] if not isinstance(other_prec[0], tuple) else other_prec[0][2]}), not {prec}")
            elif wrote_before[w] > 0 and fmt == "xml" and got.count(b"<lanelet ") > want.count(b"<lanelet ") \
                    and not edits.get(si):
                bad(f"{fmt}:{kind}:tree-accumulates",
                    f"{desc}: write no. {wrote_before[w] + 1} of this writer holds {got.count(b'<lanelet ')} lanelet "
                    f"elements, a fresh identical writer emits {want.count(b'<lanelet ')}")
            elif edits.get(si):
                bad(f"{fmt}:{kind}:content-differs:after-edit",
                    f"{desc}: after the scenario was edited (edits {list(edits[si])} of apply_edit) the content differs "
                    f"from what a fresh identical writer emits for the same edited scenario in a process where nothing "
                    f"was written before ({len(got)} vs {len(want)} bytes{_first_difference(fmt, got, want)})")
            else:
                bad(f"{fmt}:{kind}:content-differs:{'rewrite' if wrote_before[w] else 'first-write'}",
                    f"{desc}: content differs from what a fresh identical writer emits in a process where no other "
                    f"writer was ever used ({len(got)} vs {len(want)} bytes{_first_difference(fmt, got, want)})")
        wrote_before[w] += 1
        # read back once per distinct content
        key = (fmt, got)
        if key not in readback_done:
            readback_done.add(key)
            rb = read_back(os.path.join(d, target), fmt)
            exp = dict(expect_ids[si])
            exp_c = dict(expect_coords[si])
            if not with_pps:
                exp["problems"] = []
                exp_c = {k: v for k, v in exp_c.items() if not k.startswith("planning problem")}
            if rb[0] == "exc":
                bad(f"{fmt}:{kind}:readback:raises:{rb[1]}", f"{desc}: the written file cannot be read back ({rb[1]})")
            elif rb[1] != exp:
                diff = [k for k in exp if exp[k] != rb[1][k]]
                bad(f"{fmt}:{kind}:readback:{'+'.join(diff)}", f"{desc}: the file reads back with other ids ({diff}): "
                    f"{ {k: rb[1][k] for k in diff} } instead of { {k: exp[k] for k in diff} }")
            else:
                tol = 1.0001 * 10.0 ** -prec + 1e-13 if fmt == "xml" else 1e-9
                dev = coords_deviation(exp_c, rb[2], tol)
                if dev:
                    bad(f"{fmt}:{kind}:readback:coordinates", f"{desc}: the file does not read back to the scenario "
                        f"written, {dev}")
    final = snapshot_dir(d)
    final_toks = {}
    for fn, data in final.items():
        pi = INDEX_OF.get(fn, 1000 + len(final_toks))
        final_toks[pi] = by_bytes.get(try_normalise(guess_fmt(data), data), [])
    return {"steps": steps, "final": final_toks, "violations": viol}


def _first_difference(fmt, got, want):
    if fmt != "xml":
        return ""
    for a, b in zip(got.splitlines(), want.splitlines()):
        if a != b:
            return f"; first differing line {a.strip()[:60]!r} instead of {b.strip()[:60]!r}"
    return ""


def _matches_other_precision(pristine, fmt, si, variant, with_pps, got, precs):
    """does [got] equal the rendering of the same inputs under one of [precs]?  (diagnosis only, after a failure)"""
    for p in sorted(set(precs)):
        r = pristine.render(fmt, p, si, variant, with_pps)
        if r[0] == "ok" and r[1] == got:
            return True
    return False


# ------------------------------------------------------------------------------------ one process per history
_MP = None
JOBS = max(2, min(8, (os.cpu_count() or 4) // 2))
CASE_TIMEOUT = 300


def _mp():
    """forkserver: its server process is a new interpreter that imports this module (hence the library) and nothing
    else; every history runs in a child forked from it, i.e. in a process without any writer history - the same
    situation as a --replay of the case"""
    global _MP
    if _MP is None:
        _MP = multiprocessing.get_context("forkserver")
        _MP.set_forkserver_preload(["props.c15"])
    return _MP


def _child(case, conn):
    try:
        conn.send(("ok", run_history_here(case)))
    except BaseException:  # noqa  (reported to the parent, which lets it propagate as a crash of the harness)
        conn.send(("crash", traceback.format_exc()))
    finally:
        conn.close()


def run_isolated(cases, jobs=JOBS):
    """yields run_history_here(case) for every case, in order; each case in a process of its own"""
    mp = _mp()
    todo = list(enumerate(cases))[::-1]
    running, done, nxt = {}, {}, 0
    try:
        while todo or running or done:
            while todo and len(running) < jobs and len(done) < 4 * jobs:
                i, c = todo.pop()
                rx, tx = mp.Pipe(duplex=False)
                p = mp.Process(target=_child, args=(c, tx), daemon=True)
                p.start()
                tx.close()
                running[rx] = (i, p)
            ready = multiprocessing.connection.wait(list(running), timeout=CASE_TIMEOUT) if running else []
            if running and not ready:
                raise RuntimeError(f"C15: no history finished within {CASE_TIMEOUT}s "
                                   f"(cases {[i for i, _ in running.values()]})")
            for rx in ready:
                i, p = running.pop(rx)
                try:
                    tag, val = rx.recv()
                except EOFError:
                    tag, val = "crash", f"the process of case {i} died without a result (exit code {p.exitcode})"
                rx.close()
                p.join()
                if tag != "ok":
                    raise RuntimeError(f"C15: harness failure in the process of case {i}:\n{val}")
                done[i] = val
            while nxt in done:
                yield done.pop(nxt)
                nxt += 1
    finally:
        for rx, (i, p) in running.items():
            p.kill()
            p.join()
            rx.close()


def run_history(case):
    return next(run_isolated([case], jobs=1))


# ------------------------------------------------------------------------------------ generators
def pick_paths(rng):
    """1..3 of the 9 file names; siblings ('fileN' and 'fileN<suffix>') preferred, since only names that differ in the
    format suffix can be confused with one another"""
    n = rng.randint(1, 3)
    r = rng.random()
    if r < 0.4:  # plain names only
        return rng.sample(range(3), n)
    if r < 0.8:  # one base name in several spellings (+ maybe another base)
        base = rng.randint(0, 2)
        pool = [base, base + 3, base + 6]
        out = rng.sample(pool, min(n, 3))
        if n == 3 and rng.random() < 0.5:
            out[-1] = rng.randrange(N_PATHS)
        return sorted(set(out))
    return rng.sample(range(N_PATHS), n)


def rand_history(rng):
    nw = rng.randint(1, 4)
    ops = []
    n_writes = rng.randint(1, 6) if rng.random() < 15 / 16 else rng.randint(7, 14)
    paths = pick_paths(rng)
    alive = []
    fmt_bias = rng.choice(["xml", "xml", "pb", None])
    same_scenario = rng.random() < 0.3  # several writers on one scenario (with different precisions)
    s0 = rng.randint(0, 2)
    writes = 0
    while writes < n_writes:
        if not alive or (len(alive) < nw and rng.random() < 0.4) or rng.random() < 0.08:
            w = rng.choice([len(alive)] if len(alive) < nw else list(range(nw)))
            fmt = fmt_bias if fmt_bias and rng.random() < 0.7 else rng.choice(["xml", "pb"])
            ops.append(["new", w, fmt, rng.randint(1, 12), s0 if same_scenario else rng.randint(0, 2),
                        rng.choice([0, 0, 1])])
            if w not in alive:
                alive.append(w)
        else:
            ops.append([rng.choice(["write", "write", "write_scenario"]), rng.choice(alive), rng.choice(paths),
                        rng.choice(["always", "always", "always", "skip", "skip", "ask_y", "ask_n"])])
            writes += 1
    return ops


def targeted_history(rng):
    k = rng.randint(0, 7)
    fmt = rng.choice(["xml", "xml", "pb"])
    p, q = rng.sample(range(1, 13), 2)
    si, sj = rng.randint(0, 2), rng.randint(0, 2)
    base = rng.randint(0, 2)
    f0, f1, f2 = [(base + j) % 3 + 3 * rng.choice([0, 0, 1, 2]) for j in range(3)]  # three different base names
    if k == 0:  # same writer twice (same or other file)
        return [["new", 0, fmt, p, si, 0], ["write", 0, f0, "always"], [rng.choice(["write", "write_scenario"]), 0,
                                                                        rng.choice([f0, f1]), "always"]]
    if k == 1:  # another writer with a different precision constructed in between
        return [["new", 0, fmt, p, si, 0], ["new", 1, rng.choice(["xml", "pb"]), q, sj, 0], ["write", 0, f0, "always"],
                ["write", 1, f1, "always"]]
    if k == 2:  # other format used in between
        other = "pb" if fmt == "xml" else "xml"
        return [["new", 0, fmt, p, si, 1], ["write", 0, f0, "always"], ["new", 1, other, q, si, 0],
                ["write", 1, f1, "always"], ["write", 0, f2, "always"]]
    if k == 3:  # skip on an existing / a missing file
        return [["new", 0, fmt, p, si, 0], ["write", 0, f0, rng.choice(["skip", "ask_n"])], ["new", 1, fmt, q, sj, 0],
                ["write", 1, f0, rng.choice(["skip", "ask_n"])], ["write_scenario", 1, f0, "skip"],
                ["write", 1, f1, "skip"]]
    if k == 4:  # two identical writers, interleaved
        return [["new", 0, fmt, p, si, 0], ["new", 1, fmt, p, si, 0], ["write", 0, f0, "always"],
                ["write", 1, f1, "always"], ["write", 0, f1, "always"], ["write", 1, f0, "ask_y"]]
    if k == 5:  # scenario-only then full, then re-construction of the writer id
        return [["new", 0, fmt, p, si, 0], ["write_scenario", 0, f0, "always"], ["write", 0, f1, "always"],
                ["new", 0, fmt, q, sj, 1], ["write", 0, f0, "always"]]
    if k == 6:  # one scenario written under two precisions (either order of construction and use), then again
        a, b = rng.sample([0, 1], 2)
        return [["new", 0, fmt, p, si, 0], ["new", 1, fmt, q, si, rng.choice([0, 1])],
                [rng.choice(["write", "write_scenario"]), a, f0, "always"],
                [rng.choice(["write", "write_scenario"]), b, f1, "always"], ["write", a, f2, "always"]]
    # sibling names: the same base name with and without a format suffix, written and then protected by SKIP / 'n'
    sib = [base, base + 3, base + 6]
    rng.shuffle(sib)
    mode = rng.choice(["skip", "skip", "ask_n"])
    return [["new", 0, fmt, p, si, 0], [rng.choice(["write", "write_scenario"]), 0, sib[0], "always"],
            ["new", 1, rng.choice([fmt, fmt, "xml", "pb"]), q, sj, 1],
            [rng.choice(["write", "write_scenario"]), 1, sib[1], mode],
            [rng.choice(["write", "write_scenario"]), 1, sib[2], mode],
            [rng.choice(["write", "write_scenario"]), 1, sib[0], mode]]


def with_failed_write(rng, ops):
    """the same history with one write into a missing directory inserted after a write (and before another one)"""
    idx = [i for i, op in enumerate(ops) if op[0] in ("write", "write_scenario")]
    if len(idx) < 1:
        return None
    i = rng.choice(idx)
    kind, w, pi, mode = ops[i]
    fail = [rng.choice(["write_fail", "write_scenario_fail"]), w, pi, "always"]
    tail = ops[i + 1:]
    if not any(op[0] in ("write", "write_scenario") and op[1] == w for op in tail):
        tail = tail + [["write", w, pi, "always"]]
    return ops[:i + 1] + [fail] + tail


def with_edit(rng, ops):
    """the same history with the scenario of one writer edited after one of its writes, followed by a write of that
    writer and one of a newly constructed identical writer"""
    conf, idx = {}, []
    for i, op in enumerate(ops):
        if op[0] == "new":
            conf[op[1]] = op
        elif op[0] in ("write", "write_scenario") and op[1] in conf:
            idx.append((i, dict(conf)))
    if not idx:
        return None
    i, cf = rng.choice(idx)
    _, w, pi, _ = ops[i]
    _, _, fmt, prec, si, variant = cf[w]
    w2 = max(op[1] for op in ops if op[0] == "new") + 1
    tail = [["edit", si, rng.randrange(N_EDITS)], [rng.choice(["write", "write_scenario"]), w, (pi + 1) % 3, "always"],
            ["new", w2, fmt, prec, si, variant], [rng.choice(["write", "write_scenario"]), w2, (pi + 2) % 3, "always"]]
    return ops[:i + 1] + tail


def gen(rng, n):
    cases = []
    for i in range(n):
        ops = targeted_history(rng) if i % 3 == 0 else rand_history(rng)
        c = {"op": "history", "scen_seed": rng.randint(0, 2 ** 31), "ops": ops}
        if i % 7 == 3:
            ops2 = with_failed_write(rng, ops)
            if ops2 is not None:
                c = {"op": "history", "scen_seed": c["scen_seed"], "ops": ops2, "failed_write": True}
        elif i % 7 == 5:
            ops2 = with_edit(rng, ops)
            if ops2 is not None:
                c = {"op": "history", "scen_seed": c["scen_seed"], "ops": ops2, "edited": True}
        cases.append(c)
    return cases


def nontrivial(c):
    return any(op[0] not in ("new", "edit") for op in c["ops"])


def kind(c):
    fm = sorted({op[2] for op in c["ops"] if op[0] == "new"})
    names = {op[2] // 3 for op in c["ops"] if op[0] not in ("new", "edit")}
    if c.get("failed_write"):
        return "+".join(fm) + ":with a failed write"
    if c.get("edited"):
        return "+".join(fm) + ":scenario edited between writes"
    return ("+".join(fm) + f":writers={len({op[1] for op in c['ops'] if op[0] == 'new'})}"
            + f":names={'plain' if names <= {0} else 'suffixed' if 0 not in names else 'mixed'}")


# ------------------------------------------------------------------------------------ oracle
_CACHE = {}


def observed(c):
    k = repr((c["scen_seed"], c["ops"]))
    if k not in _CACHE:
        if len(_CACHE) > 4:
            _CACHE.clear()
        _CACHE[k] = run_history(c)
    return _CACHE[k]


def oracle(c):
    r = observed(c)
    if r["violations"]:
        return r["violations"][0]
    return None


# ------------------------------------------------------------------------------------ correspondence
def q_tok(t):
    fmt, si, prec, variant, pps = t
    return f"({'XML' if fmt == 'xml' else 'PB'}, {si * 2 + variant}, {prec}, {qb(pps)})"


def q_mode(m):
    return {"always": "Always", "skip": "Skip", "ask_y": "(Ask false)", "ask_n": "(Ask true)"}[m]


def coq_case(c, r):
    ops, obs = [], []
    for op, st in zip(c["ops"], r["steps"]):
        if op[0] == "new":
            _, w, fmt, prec, si, variant = op
            ops.append(f"New {w} {'XML' if fmt == 'xml' else 'PB'} {prec} {si * 2 + variant}")
        else:
            knd, w, pi, mode = op
            ops.append(f"{'Write' if knd == 'write' else 'WriteScenario'} {w} {pi} {q_mode(mode)}")
        o = st["obs"]
        if o == "new":
            obs.append("ObsNew")
        elif o == "skipped":
            obs.append("ObsSkipped")
        elif o == "written":
            obs.append(f"(ObsWritten {st['path']} {qlist([q_tok(t) for t in st['toks']])})")
        else:
            obs.append("ObsOther")
    files = [f"({pi}, {qlist([q_tok(t) for t in toks])})" for pi, toks in sorted(r["final"].items())]
    return "{| c_ops := %s; c_obs := %s; c_files := %s |}" % (qlist(ops), qlist(obs), qlist(files))


EXTRA_TARGETS = ["Corr/C15.vo"]


def coq_eval_retry(ctx, imports, terms, shard):
    """evaluate the cases; the compiled development is shared with concurrently running checks (a thorough run of
    another property cleans it), so a missing .vo is rebuilt once instead of being reported as a disagreement"""
    bad, errors = ctx.coq_bad_indices("corr", imports, "", terms, "check", shard=shard)
    if any("Cannot find a physical path" in e or "Compiled library" in e or "No such file" in e for e in errors):
        tier, ctx.tier = ctx.tier, "quick"
        try:
            ctx.build_props(extra_targets=EXTRA_TARGETS)
        finally:
            ctx.tier = tier
        bad, errors = ctx.coq_bad_indices("corr", imports, "", terms, "check", shard=shard)
    return bad, errors


def run(ctx):
    ctx.trusted = ["Coq 8.16.1 kernel + vm_compute (no native_compute)",
                   "axioms: none (Print Assumptions: Closed under the global context for every theorem)",
                   "hand-written model coq/Model/Writers.v of common/writer/file_writer_interface.py:10-14,32-56,142-160, "
                   "file_writer_xml.py:62-74,151-153,164-270, file_writer_protobuf.py:95,199-245, tied to the code by "
                   "coq/Corr/C15.v on every run; what a node / attribute / serialisation is stays abstract (render)",
                   "harness/props/c15.py (history generator, one process per history and per reference rendering, byte "
                   "comparison modulo the date stamp, Coq term printer)",
                   "lxml / protobuf serialisation and the file system are outside the model"]
    ctx.trusted.insert(3, "harness/props/c15_src.py: parser of the bodies of XMLFileWriter / ProtobufFileWriter write_to_file and "
                          "write_scenario_to_file into step lists (coq/Gen/Src_writers.v, regenerated on every run, fail-closed; "
                          "FileWriter._handle_file_path and the precision assignment of __init__ compared with their expected "
                          "text); C15_step_is_source proves that running the parsed bodies (interpreter: Model/WritersSrc.v) is "
                          "[step repaired] of Model/Writers.v on every world and operation; trusted: the parser and that each "
                          "helper (_write_header, _add_all_*, tree.write, _serialize_write_msg) does what the model says of it "
                          "(exercised by the correspondence)")
    from props import c15_src
    try:
        changed = c15_src.generate()
        ctx.notes.append(f"Gen/Src_writers.v regenerated from the source ({'changed' if changed else 'unchanged'})")
    except Exception as e:   # SourceShapeError, SyntaxError, OSError: the model is no longer shown to be the source
        ctx.proof_breaks.append({"theorem": "source parser:Gen/Src_writers.v (C15_step_is_source / C15_frames_are_source)",
                                 "where": "harness/props/c15_src.py", "log": str(e)})
        ctx.log(f"proof_broken theorem=C15_*_is_source (source parser: {e})")
    ctx.build_props(extra_targets=EXTRA_TARGETS)
    if ctx.tier == "thorough":
        ctx.coqchk()
    n = ctx.n(600, 6000)
    cases = load_corpus(ctx.prop) + gen(ctx.rng, n)
    terms, owner = [], []

    def process(cs, with_corr=True):
        for c, r in zip(cs, run_isolated(cs)):
            ctx.count(c, nontrivial(c), kind(c))
            for sig, what in r["violations"]:
                ctx.fail(sig, what, c)
            if with_corr and not c.get("failed_write") and not c.get("edited"):   # not in the model: oracle only
                terms.append(coq_case(c, r))
                owner.append(c)

    process(cases)
    imports = ("From Coq Require Import List Bool Arith NArith.\nImport ListNotations.\n"
               "From CR Require Import Model.Writers Corr.C15.\n")
    bad, errors = coq_eval_retry(ctx, imports, terms, shard=200)
    ctx.coverage["correspondence_cases"] = len(terms)
    for e in errors:
        ctx.corr_break("Corr.C15.check (coqc failed)", e)
    for i in bad:
        ctx.corr_break("Corr.C15.check: Model/Writers.v (repaired) vs CommonRoadFileWriter histories", owner[i])
    ctx.log(f"corr cases={len(terms)} disagree={len(bad)} coq_errors={len(errors)}")
    if (ctx.proof_breaks or ctx.corr_breaks) and not ctx.failures:
        ctx.log(f"proof/correspondence broke ({len(ctx.proof_breaks)}/{len(ctx.corr_breaks)}); widening the search")
        process([b["case"] for b in ctx.corr_breaks if isinstance(b.get("case"), dict)], with_corr=False)
        if not ctx.failures:
            process(gen(ctx.rng, n * 3), with_corr=False)
    return ctx.finish(RULE, assumptions=ASSUME)
