"""C15 — a file writer's output depends only on its own inputs.
oracle: histories of CommonRoadFileWriter objects (<= 4 writers, <= 14 writes, XML / protobuf, precisions 1..12,
        3 generated scenarios, files shared between writers, file names with and without the format suffix, modes
        ALWAYS / SKIP / ASK), each history in a process of its own that has never constructed a writer: every written
        file must equal (date aside) what one fresh, identically constructed writer writes once IN A PROCESS WITHOUT
        ANY WRITER HISTORY (reference independent of the process the history runs in); with SKIP no existing file is
        touched; every written file reads back with the ids of its scenario and its coordinates within 10^-precision.
corr:   the same histories through Model/Writers.v (symbolic instance, vm_compute): which calls skip, which file
        each call writes and which rendering it holds, and the files at the end (Corr/C15.v)."""
import builtins
import contextlib
import io
import json
import logging
import math
import multiprocessing
import multiprocessing.connection
import os
import random
import re
import shutil
import tempfile
import traceback

import numpy as np

from vlib import scen
from vlib.core import qb, qlist
from vlib.flow import load_corpus

from commonroad.common.file_reader import CommonRoadFileReader
from commonroad.common.file_writer import CommonRoadFileWriter, OverwriteExistingFile
from commonroad.common.util import FileFormat
from commonroad.scenario.obstacle import DynamicObstacle, ObstacleType, StaticObstacle
from commonroad.scenario.scenario import Tag
from commonroad.scenario.state import InitialState
from commonroad.geometry.shape import Rectangle

logging.getLogger("commonroad").setLevel(logging.ERROR)

RULE = ("histories from one seeded PRNG: 1..4 writers (re-construction of a writer id allowed) over 3 generated scenarios "
        "(lanelet strips with signs / lights / intersection, static, dynamic, set-based, environment obstacles, one "
        "obstacle with 15-digit coordinates so that every precision 1..12 renders differently), both formats, two "
        "argument variants, 1..6 write_to_file / write_scenario_to_file calls on <= 3 shared paths with modes ALWAYS / "
        "SKIP / ASK(y|n); one third of the histories are the targeted shapes 'same writer twice', 'other precision in "
        "between', 'other format in between', 'skip on existing'.  distinct = distinct case dicts; non-trivial = at "
        "least one file written")
ASSUME = ["the date stamp is excluded (XML root attribute date; protobuf information.date)",
          "render (what one fresh writer writes once) is abstract in the model; the oracle obtains it from the "
          "implementation itself before each history",
          "static obstacles carry an explicit empty signal_series and goal regions no lanelet references, so that the "
          "protobuf writer accepts the scenarios (its failures on None / partial dicts belong to C02 / C18)"]

MODES = ["always", "skip", "ask_y", "ask_n"]
SAFE_ROLES = ["dynamic", "dynamic", "dynamic_set", "dynamic_none", "env"]
XML_DATE = re.compile(rb'(<commonRoad\b[^>]*?\sdate=")[^"]*(")')


# ------------------------------------------------------------------------------------ scenarios
def build_world(scen_seed):
    """the 3 (scenario, planning problem set) pairs of a case, rebuilt from its sub-seed"""
    rng = random.Random(scen_seed)
    out = []
    for i in range(3):
        sc = scen.rand_scenario(rng, n_obstacles=rng.randint(1, 3), roles=SAFE_ROLES)
        if rng.random() < 0.7:
            o = scen.rand_obstacle(rng, 700, role="static")
            sc.add_objects(StaticObstacle(700, o.obstacle_type, o.obstacle_shape, o.initial_state, signal_series=[]))
        # coordinates with 14-15 decimals: every precision 1..12 gives different text
        st = InitialState(time_step=0, position=np.array([3 * math.pi + i, math.e]), orientation=math.sqrt(2) / 2,
                          velocity=math.pi / 3, acceleration=0.0, yaw_rate=0.0, slip_angle=0.0)
        sc.add_objects(DynamicObstacle(710, ObstacleType.CAR, Rectangle(4.123456789012, 1.8), st, None))
        sc.author, sc.affiliation, sc.source = f"author{i}", f"affiliation{i}", f"source{i}"
        sc.tags = {Tag.URBAN, Tag.HIGHWAY} if i % 2 == 0 else {Tag.INTERSECTION}
        pps = scen.rand_planning_problem_set(rng, first_id=900 + 10 * i)
        out.append((sc, pps))
    return out


def writer_kwargs(variant):
    if variant == 0:
        return {}
    return {"author": "Other Author", "affiliation": "Other Affiliation", "source": "other source",
            "tags": {Tag.SIMULATED}}


def new_writer(world, fmt, prec, si, variant):
    sc, pps = world[si]
    return CommonRoadFileWriter(sc, pps, decimal_precision=prec,
                                file_format=FileFormat.XML if fmt == "xml" else FileFormat.PROTOBUF,
                                **writer_kwargs(variant))


def normalise(fmt, data):
    """bytes with the date stamp blanked"""
    if fmt == "xml":
        return XML_DATE.sub(rb"\1D\2", data, count=1)
    from commonroad.scenario_definition.protobuf_format.generated_scripts import commonroad_pb2
    msg = commonroad_pb2.CommonRoad()
    msg.ParseFromString(data)
    for fd, _ in msg.information.date.ListFields():  # required fields: blank them instead of clearing
        setattr(msg.information.date, fd.name, 1)
    return b"PB" + msg.SerializeToString(deterministic=True)


def path_of(d, fmt_hint, pi):
    return os.path.join(d, f"file{pi}")


@contextlib.contextmanager
def quiet(answer=None):
    old_in = builtins.input
    if answer is not None:
        builtins.input = lambda *a, **k: answer
    try:
        with contextlib.redirect_stdout(io.StringIO()):
            yield
    finally:
        builtins.input = old_in


def call_write(w, kind, path, mode):
    ow = {"always": OverwriteExistingFile.ALWAYS, "skip": OverwriteExistingFile.SKIP,
          "ask_y": OverwriteExistingFile.ASK_USER_INPUT, "ask_n": OverwriteExistingFile.ASK_USER_INPUT}[mode]
    with quiet({"ask_y": "y", "ask_n": "n"}.get(mode)):
        if kind == "write":
            w.write_to_file(path, ow)
        else:
            w.write_scenario_to_file(path, ow)


def snapshot_dir(d):
    out = {}
    for fn in sorted(os.listdir(d)):
        if fn.startswith("file"):
            with open(os.path.join(d, fn), "rb") as f:
                out[int(fn[4:])] = f.read()
    return out


def references(world, case, d):
    """{(fmt, si, prec, variant, with_pps): normalised bytes} for every writer configuration of the case, each from one
    fresh writer writing once (computed before the history starts)"""
    refs = {}
    confs = sorted({(op[2], op[4], op[3], op[5]) for op in case["ops"] if op[0] == "new"})
    for fmt, si, prec, variant in confs:
        for pps in (True, False):
            w = new_writer(world, fmt, prec, si, variant)
            p = os.path.join(d, "ref")
            call_write(w, "write" if pps else "write_scenario", p, "always")
            with open(p, "rb") as f:
                refs[(fmt, si, prec, variant, pps)] = normalise(fmt, f.read())
            os.remove(p)
    return refs


def guess_fmt(data):
    return "xml" if data.lstrip()[:1] == b"<" else "pb"


def ids_of(sc, pps):
    net = sc.lanelet_network
    return {"lanelets": sorted(x.lanelet_id for x in net.lanelets),
            "signs": sorted(x.traffic_sign_id for x in net.traffic_signs),
            "lights": sorted(x.traffic_light_id for x in net.traffic_lights),
            "intersections": sorted(x.intersection_id for x in net.intersections),
            "obstacles": sorted(x.obstacle_id for x in sc.obstacles),
            "problems": sorted(pps.planning_problem_dict) if pps is not None else []}


def read_back(path, fmt):
    """('ok', ids) | ('exc', name)"""
    try:
        with quiet():
            sc, pps = CommonRoadFileReader(path, FileFormat.XML if fmt == "xml" else FileFormat.PROTOBUF).open()
        return ("ok", ids_of(sc, pps))
    except Exception as e:  # noqa  (a file that cannot be read back is an observation)
        return ("exc", type(e).__name__)


# ------------------------------------------------------------------------------------ running a history
def run_history(case):
    """executes the case; returns dict(steps=[...], final={path: bytes}, refs, violations=[(signature, what)])"""
    d = tempfile.mkdtemp(prefix="c15-", dir=os.environ.get("VERIF_TMP", "/var/tmp"))
    try:
        return _run_history(case, d)
    finally:
        shutil.rmtree(d, ignore_errors=True)


def _run_history(case, d):
    world = build_world(case["scen_seed"])
    expect_ids = [ids_of(sc, pps) for sc, pps in world]
    refs = references(world, case, d)
    by_bytes = {}
    for k, v in refs.items():
        by_bytes.setdefault(v, []).append(k)
    writers, conf, wrote_before, news_since = {}, {}, {}, {}
    steps, viol = [], []
    readback_done = set()

    def bad(sig, what):
        viol.append((sig, what))

    for idx, op in enumerate(case["ops"]):
        if op[0] == "new":
            _, w, fmt, prec, si, variant = op
            writers[w] = new_writer(world, fmt, prec, si, variant)
            conf[w] = (fmt, si, prec, variant)
            wrote_before[w] = 0
            for k in news_since:
                news_since[k].append((fmt, prec))
            news_since[w] = []
            steps.append({"obs": "new"})
            continue
        kind, w, pi, mode = op
        if w not in writers:
            steps.append({"obs": "nowriter"})
            continue
        fmt, si, prec, variant = conf[w]
        path = path_of(d, fmt, pi)
        before = snapshot_dir(d)
        existed = pi in before
        if existed:
            os.utime(path, ns=(1_000_000_000, 1_000_000_000))
        try:
            call_write(writers[w], kind, path, mode)
            exc = None
        except Exception as e:  # noqa
            exc = type(e).__name__
        after = snapshot_dir(d)
        if existed:  # (re)written iff the time stamp planted above is gone
            touched = not os.path.exists(path) or os.stat(path).st_mtime_ns != 1_000_000_000
        else:
            touched = pi in after
        changed = sorted(k for k in set(before) | set(after) if before.get(k) != after.get(k))
        with_pps = kind == "write"
        must_skip = existed and mode in ("skip", "ask_n")
        desc = f"op {idx} {kind}(writer {w}: {fmt} scenario {si} precision {prec} variant {variant}, file{pi}, {mode})"
        if exc is not None:
            bad(f"{fmt}:{kind}:raises:{exc}", f"{desc} raises {exc}")
            steps.append({"obs": "other"})
            continue
        if must_skip:
            if changed or touched:
                bad(f"{fmt}:{kind}:skip:file-changed", f"{desc}: existing file was modified although the call must skip")
            steps.append({"obs": "skipped" if not touched else "other"})
            continue
        others = [k for k in changed if k != pi]
        if others:
            bad(f"{fmt}:{kind}:other-file-changed", f"{desc} changed file(s) {others}")
        if pi not in after:
            bad(f"{fmt}:{kind}:not-written", f"{desc} wrote nothing")
            steps.append({"obs": "other"})
            continue
        try:
            got = normalise(fmt, after[pi])
        except Exception:  # noqa  (not even parseable as the writer's own format)
            got = after[pi]
        want = refs[(fmt, si, prec, variant, with_pps)]
        toks = by_bytes.get(got, [])
        steps.append({"obs": "written" if touched and not others else "other", "path": pi, "toks": toks})
        if got != want:
            # classify the deviation (signature = input shape / call site)
            other_prec = [k for k in toks if k[0] == fmt and k[1] == si and k[3] == variant and k[4] == with_pps
                          and k[2] != prec]
            if not other_prec and fmt == "xml":
                # bytes of the same inputs under another precision that no writer of the case asked for?
                other_prec = [p for f2, p in news_since[w] if p != prec]
                other_prec = other_prec if _matches_other_precision(world, fmt, si, variant, with_pps, got, other_prec,
                                                                    d) else []
            if other_prec:
                bad(f"{fmt}:{kind}:precision-of-another-writer",
                    f"{desc}: content is rendered with the precision of a writer constructed later "
                    f"({other_prec[0] if not isinstance(other_prec[0], tuple) else other_prec[0][2]}), not {prec}")
            elif wrote_before[w] > 0 and fmt == "xml" and got.count(b"<lanelet ") > want.count(b"<lanelet "):
                bad(f"{fmt}:{kind}:tree-accumulates",
                    f"{desc}: write no. {wrote_before[w] + 1} of this writer holds {got.count(b'<lanelet ')} lanelet "
                    f"elements, a fresh identical writer emits {want.count(b'<lanelet ')}")
            else:
                bad(f"{fmt}:{kind}:content-differs:{'rewrite' if wrote_before[w] else 'first-write'}",
                    f"{desc}: content differs from what a fresh identical writer emits "
                    f"({len(got)} vs {len(want)} bytes)")
        wrote_before[w] += 1
        # read back once per distinct content
        key = (fmt, got)
        if key not in readback_done:
            readback_done.add(key)
            rb = read_back(path, fmt)
            exp = dict(expect_ids[si])
            if not with_pps:
                exp["problems"] = []
            if rb[0] == "exc":
                bad(f"{fmt}:{kind}:readback:raises:{rb[1]}", f"{desc}: the written file cannot be read back ({rb[1]})")
            elif rb[1] != exp:
                diff = [k for k in exp if exp[k] != rb[1][k]]
                bad(f"{fmt}:{kind}:readback:{'+'.join(diff)}", f"{desc}: the file reads back with other ids ({diff}): "
                    f"{ {k: rb[1][k] for k in diff} } instead of { {k: exp[k] for k in diff} }")
    final = snapshot_dir(d)
    final_toks = {}
    for pi, data in final.items():
        f = guess_fmt(data)
        try:
            final_toks[pi] = by_bytes.get(normalise(f, data), [])
        except Exception:  # noqa
            final_toks[pi] = []
    return {"steps": steps, "final": final_toks, "violations": viol}


def _matches_other_precision(world, fmt, si, variant, with_pps, got, precs, d):
    """does [got] equal the rendering of the same inputs under one of [precs]?  (diagnosis only, after a failure)"""
    for p in precs:
        w = new_writer(world, fmt, p, si, variant)
        path = os.path.join(d, "ref2")
        call_write(w, "write" if with_pps else "write_scenario", path, "always")
        with open(path, "rb") as f:
            data = normalise(fmt, f.read())
        os.remove(path)
        if data == got:
            return True
    return False


# ------------------------------------------------------------------------------------ generators
def rand_history(rng):
    nw = rng.randint(1, 4)
    ops = []
    n_writes = rng.randint(1, 6)
    paths = rng.randint(1, 3)
    alive = []
    fmt_bias = rng.choice(["xml", "xml", "pb", None])
    writes = 0
    while writes < n_writes:
        if not alive or (len(alive) < nw and rng.random() < 0.4) or rng.random() < 0.08:
            w = rng.choice([len(alive)] if len(alive) < nw else list(range(nw)))
            fmt = fmt_bias if fmt_bias and rng.random() < 0.7 else rng.choice(["xml", "pb"])
            ops.append(["new", w, fmt, rng.randint(1, 12), rng.randint(0, 2), rng.choice([0, 0, 1])])
            if w not in alive:
                alive.append(w)
        else:
            ops.append([rng.choice(["write", "write", "write_scenario"]), rng.choice(alive), rng.randint(0, paths - 1),
                        rng.choice(["always", "always", "always", "skip", "skip", "ask_y", "ask_n"])])
            writes += 1
    return ops


def targeted_history(rng):
    k = rng.randint(0, 5)
    fmt = rng.choice(["xml", "xml", "pb"])
    p, q = rng.sample(range(1, 13), 2)
    si, sj = rng.randint(0, 2), rng.randint(0, 2)
    if k == 0:  # same writer twice (same or other file)
        return [["new", 0, fmt, p, si, 0], ["write", 0, 0, "always"], [rng.choice(["write", "write_scenario"]), 0,
                                                                       rng.choice([0, 1]), "always"]]
    if k == 1:  # another writer with a different precision constructed in between
        return [["new", 0, fmt, p, si, 0], ["new", 1, rng.choice(["xml", "pb"]), q, sj, 0], ["write", 0, 0, "always"],
                ["write", 1, 1, "always"]]
    if k == 2:  # other format used in between
        other = "pb" if fmt == "xml" else "xml"
        return [["new", 0, fmt, p, si, 1], ["write", 0, 0, "always"], ["new", 1, other, q, si, 0],
                ["write", 1, 1, "always"], ["write", 0, 2, "always"]]
    if k == 3:  # skip on an existing / a missing file
        return [["new", 0, fmt, p, si, 0], ["write", 0, 0, rng.choice(["skip", "ask_n"])], ["new", 1, fmt, q, sj, 0],
                ["write", 1, 0, rng.choice(["skip", "ask_n"])], ["write_scenario", 1, 0, "skip"],
                ["write", 1, 1, "skip"]]
    if k == 4:  # two identical writers, interleaved
        return [["new", 0, fmt, p, si, 0], ["new", 1, fmt, p, si, 0], ["write", 0, 0, "always"],
                ["write", 1, 1, "always"], ["write", 0, 1, "always"], ["write", 1, 0, "ask_y"]]
    # scenario-only then full, then re-construction of the writer id
    return [["new", 0, fmt, p, si, 0], ["write_scenario", 0, 0, "always"], ["write", 0, 1, "always"],
            ["new", 0, fmt, q, sj, 1], ["write", 0, 0, "always"]]


def gen(rng, n):
    cases = []
    for i in range(n):
        ops = targeted_history(rng) if i % 3 == 0 else rand_history(rng)
        cases.append({"op": "history", "scen_seed": rng.randint(0, 2 ** 31), "ops": ops})
    return cases


def nontrivial(c):
    return any(op[0] != "new" for op in c["ops"])


def kind(c):
    fm = sorted({op[2] for op in c["ops"] if op[0] == "new"})
    return "+".join(fm) + f":writers={len({op[1] for op in c['ops'] if op[0] == 'new'})}"


# ------------------------------------------------------------------------------------ oracle
_CACHE = {}


def observed(c):
    k = repr((c["scen_seed"], c["ops"]))
    if k not in _CACHE:
        if len(_CACHE) > 4:
            _CACHE.clear()
        _CACHE[k] = run_history(c)
    return _CACHE[k]


def oracle(c):
    r = observed(c)
    if r["violations"]:
        return r["violations"][0]
    return None


# ------------------------------------------------------------------------------------ correspondence
def q_tok(t):
    fmt, si, prec, variant, pps = t
    return f"({'XML' if fmt == 'xml' else 'PB'}, {si * 2 + variant}, {prec}, {qb(pps)})"


def q_mode(m):
    return {"always": "Always", "skip": "Skip", "ask_y": "(Ask false)", "ask_n": "(Ask true)"}[m]


def coq_case(c, r):
    ops, obs = [], []
    for op, st in zip(c["ops"], r["steps"]):
        if op[0] == "new":
            _, w, fmt, prec, si, variant = op
            ops.append(f"New {w} {'XML' if fmt == 'xml' else 'PB'} {prec} {si * 2 + variant}")
        else:
            knd, w, pi, mode = op
            ops.append(f"{'Write' if knd == 'write' else 'WriteScenario'} {w} {pi} {q_mode(mode)}")
        o = st["obs"]
        if o == "new":
            obs.append("ObsNew")
        elif o == "skipped":
            obs.append("ObsSkipped")
        elif o == "written":
            obs.append(f"(ObsWritten {st['path']} {qlist([q_tok(t) for t in st['toks']])})")
        else:
            obs.append("ObsOther")
    files = [f"({pi}, {qlist([q_tok(t) for t in toks])})" for pi, toks in sorted(r["final"].items())]
    return "{| c_ops := %s; c_obs := %s; c_files := %s |}" % (qlist(ops), qlist(obs), qlist(files))


EXTRA_TARGETS = ["Corr/C15.vo"]


def coq_eval_retry(ctx, imports, terms, shard):
    """evaluate the cases; the compiled development is shared with concurrently running checks (a thorough run of
    another property cleans it), so a missing .vo is rebuilt once instead of being reported as a disagreement"""
    bad, errors = ctx.coq_bad_indices("corr", imports, "", terms, "check", shard=shard)
    if any("Cannot find a physical path" in e or "Compiled library" in e or "No such file" in e for e in errors):
        tier, ctx.tier = ctx.tier, "quick"
        try:
            ctx.build_props(extra_targets=EXTRA_TARGETS)
        finally:
            ctx.tier = tier
        bad, errors = ctx.coq_bad_indices("corr", imports, "", terms, "check", shard=shard)
    return bad, errors


def run(ctx):
    ctx.trusted = ["Coq 8.16.1 kernel + vm_compute (no native_compute)",
                   "axioms: none (Print Assumptions: Closed under the global context for every theorem)",
                   "hand-written model coq/Model/Writers.v of common/writer/file_writer_interface.py:10-14,32-56,142-160, "
                   "file_writer_xml.py:62-74,151-153,164-270, file_writer_protobuf.py:95,199-245, tied to the code by "
                   "coq/Corr/C15.v on every run; what a node / attribute / serialisation is stays abstract (render)",
                   "harness/props/c15.py (history generator, byte comparison modulo the date stamp, Coq term printer)",
                   "lxml / protobuf serialisation and the file system are outside the model"]
    ctx.build_props(extra_targets=EXTRA_TARGETS)
    if ctx.tier == "thorough":
        ctx.coqchk()
    n = ctx.n(600, 6000)
    cases = load_corpus(ctx.prop) + gen(ctx.rng, n)
    terms, owner = [], []

    def process(cs, with_corr=True):
        for c in cs:
            ctx.count(c, nontrivial(c), kind(c))
            r = run_history(c)
            for sig, what in r["violations"]:
                ctx.fail(sig, what, c)
            if with_corr:
                terms.append(coq_case(c, r))
                owner.append(c)

    process(cases)
    imports = ("From Coq Require Import List Bool Arith NArith.\nImport ListNotations.\n"
               "From CR Require Import Model.Writers Corr.C15.\n")
    bad, errors = coq_eval_retry(ctx, imports, terms, shard=200)
    ctx.coverage["correspondence_cases"] = len(terms)
    for e in errors:
        ctx.corr_break("Corr.C15.check (coqc failed)", e)
    for i in bad:
        ctx.corr_break("Corr.C15.check: Model/Writers.v (repaired) vs CommonRoadFileWriter histories", owner[i])
    ctx.log(f"corr cases={len(terms)} disagree={len(bad)} coq_errors={len(errors)}")
    if (ctx.proof_breaks or ctx.corr_breaks) and not ctx.failures:
        ctx.log(f"proof/correspondence broke ({len(ctx.proof_breaks)}/{len(ctx.corr_breaks)}); widening the search")
        process(gen(ctx.rng, n * 3), with_corr=False)
    return ctx.finish(RULE, assumptions=ASSUME)
