"""C12 — class registry: JSON instance specs, builder through the public constructors, read-back of the
constructor-visible attributes, generators and perturbations.

spec value language (JSON):  None | bool | int | float | str
  {"e": "EnumClass", "n": "MEMBER"}   enum member          {"a": nested list}     numpy array
  {"l": [...]}  list      {"set": [...]}  Python set, elements inserted in the listed order
  {"ids": [...]} list that the API treats as a set (built as a list in the listed order)
  {"d": [[k, v], ...]}  dict (insertion order as listed)    {"c": "Class", "kw": {param: value}}  object
"""
import copy
import enum
import inspect
import math

import numpy as np

from commonroad.common.util import AngleInterval, Interval, Time
from commonroad.geometry.shape import Circle, Polygon, Rectangle, ShapeGroup
from commonroad.planning.goal import GoalRegion
from commonroad.planning.planning_problem import PlanningProblem, PlanningProblemSet
from commonroad.prediction.prediction import Occupancy, SetBasedPrediction, TrajectoryPrediction
from commonroad.scenario.area import Area, AreaBorder, AreaType
from commonroad.scenario.intersection import Intersection, IntersectionIncomingElement
from commonroad.scenario.lanelet import (Lanelet, LaneletNetwork, LaneletType, LineMarking, MapInformation, RoadUser,
                                         StopLine)
from commonroad.scenario.obstacle import (DynamicObstacle, EnvironmentObstacle, ObstacleType, PhantomObstacle,
                                          StaticObstacle)
from commonroad.scenario.scenario import (Environment, GeoTransformation, Location, Scenario, ScenarioID, Tag, TimeOfDay,
                                          Underground, Weather)
from commonroad.scenario import state as st
from commonroad.scenario.state import MetaInformationState, SignalState
from commonroad.scenario.traffic_light import (TrafficLight, TrafficLightCycle, TrafficLightCycleElement,
                                               TrafficLightDirection, TrafficLightState)
from commonroad.scenario.traffic_sign import (TrafficSign, TrafficSignElement, TrafficSignIDGermany,
                                              TrafficSignIDZamunda)
from commonroad.scenario.trajectory import Trajectory

STATE_CLASSES = [st.InitialState, st.PMState, st.ExtendedPMState, st.KSState, st.KSTState, st.STState, st.STDState,
                 st.MBState, st.LongitudinalState, st.LateralState, st.InputState, st.PMInputState, st.LKSInputState,
                 st.CustomState]
PLAIN_CLASSES = [Interval, AngleInterval, Time, Rectangle, Circle, Polygon, ShapeGroup, MetaInformationState,
                 SignalState, Trajectory, Occupancy, SetBasedPrediction, TrajectoryPrediction, StaticObstacle,
                 DynamicObstacle, EnvironmentObstacle, PhantomObstacle, StopLine, Lanelet, MapInformation,
                 LaneletNetwork, TrafficSignElement, TrafficSign, TrafficLightCycleElement, TrafficLightCycle,
                 TrafficLight, IntersectionIncomingElement, Intersection, AreaBorder, Area, GoalRegion, PlanningProblem,
                 PlanningProblemSet, GeoTransformation, Environment, Location, ScenarioID, Scenario]
CLASSES = {c.__name__: c for c in PLAIN_CLASSES + STATE_CLASSES}
ENUMS = {c.__name__: c for c in [LineMarking, LaneletType, RoadUser, ObstacleType, Tag, TimeOfDay, Weather, Underground,
                                 TrafficLightState, TrafficLightDirection, TrafficSignIDGermany, TrafficSignIDZamunda,
                                 AreaType]}
STATE_NAMES = {c.__name__ for c in STATE_CLASSES}

# content that is not a constructor parameter but is added through the public add_* API (pseudo parameters)
EXTRA_ATTRS = {
    "LaneletNetwork": ["lanelets", "intersections", "traffic_signs", "traffic_lights", "areas"],
    "Scenario": ["lanelet_network", "static_obstacles", "dynamic_obstacles", "environment_obstacle",
                 "phantom_obstacle"],
}
# constructor parameter -> public attribute it is read back from (default: same name)
ACCESSOR = {
    ("Lanelet", "adjacent_left"): "adj_left", ("Lanelet", "adjacent_right"): "adj_right",
    ("Lanelet", "adjacent_left_same_direction"): "adj_left_same_direction",
    ("Lanelet", "adjacent_right_same_direction"): "adj_right_same_direction",
    ("GoalRegion", "state_list"): "state_list",
    ("PlanningProblem", "goal_region"): "goal",
    ("PlanningProblemSet", "planning_problem_list"): "planning_problem_dict",
    ("TrajectoryPrediction", "shape"): "shape",
    ("PhantomObstacle", "prediction"): "prediction",
    ("Area", "border"): "border",
}


def ctor_params(cls):
    """the constructor-visible attributes A_K: named parameters of __init__ (no self, no **kwargs); classes whose
    constructor only takes **kwargs: SignalState -> __slots__, CustomState -> decided per instance"""
    if cls is SignalState:
        return list(SignalState.__slots__)
    if cls is st.CustomState:
        return []
    out = []
    for n, p in inspect.signature(cls.__init__).parameters.items():
        if n == "self" or p.kind in (p.VAR_KEYWORD, p.VAR_POSITIONAL):
            continue
        out.append(n)
    return out


# ------------------------------------------------------------------------------------------------ spec helpers
def O(c, **kw):
    return {"c": c, "kw": kw}


def E(m):
    return {"e": type(m).__name__, "n": m.name}


def A(x):
    return {"a": np.asarray(x, dtype=float).tolist()}


def L(x):
    return {"l": list(x)}


def SET(x):
    return {"set": list(x)}


def IDS(x):
    return {"ids": list(x)}


def D(pairs):
    return {"d": [list(p) for p in pairs]}


def is_obj(v):
    return isinstance(v, dict) and "c" in v


# ------------------------------------------------------------------------------------------------ builder
def build(v):
    if v is None or isinstance(v, (bool, int, float, str)):
        return v
    if "e" in v:
        return ENUMS[v["e"]][v["n"]]
    if "a" in v:
        return np.array(v["a"], dtype=float)
    if "l" in v:
        return [build(x) for x in v["l"]]
    if "ids" in v:
        return [build(x) for x in v["ids"]]
    if "set" in v:
        s = set()
        for x in v["set"]:
            s.add(build(x))
        return s
    if "d" in v:
        return {build(k): build(x) for k, x in v["d"]}
    c, kw = v["c"], v["kw"]
    if c == "LaneletNetwork":
        net = LaneletNetwork(**{k: build(x) for k, x in kw.items() if k == "information"})
        for s in build(kw.get("traffic_signs", L([]))):
            net.add_traffic_sign(s, set())
        for t in build(kw.get("traffic_lights", L([]))):
            net.add_traffic_light(t, set())
        for la in build(kw.get("lanelets", L([]))):
            net.add_lanelet(la)
        for i in build(kw.get("intersections", L([]))):
            net.add_intersection(i)
        for a in build(kw.get("areas", L([]))):
            net.add_area(a, set())
        return net
    if c == "Scenario":
        extra = EXTRA_ATTRS["Scenario"]
        sc = Scenario(**{k: build(x) for k, x in kw.items() if k not in extra})
        if kw.get("lanelet_network") is not None:
            sc.add_objects(build(kw["lanelet_network"]))
        for k in extra[1:]:
            for o in build(kw.get(k, L([]))):
                sc.add_objects(o)
        return sc
    return CLASSES[c](**{k: build(x) for k, x in kw.items()})


# ------------------------------------------------------------------------------------------------ read-back
def attrs_of(obj):
    """the attributes of an instance that make up its value: A_K (+ content added through add_*)"""
    cls = type(obj)
    n = cls.__name__
    if isinstance(obj, st.State):
        return list(obj.attributes)
    if cls is SignalState:
        return [a for a in SignalState.__slots__ if hasattr(obj, a)]
    return ctor_params(cls) + EXTRA_ATTRS.get(n, [])


def readback(o):
    """structural value of what the object holds, read through public attributes:
    ('none',) ('b',x) ('i',x) ('f',x) ('s',x) ('e',name) ('a',shape,data) ('l',[..]) ('set',[..]) ('o',cls,[(a,v)..])"""
    if o is None:
        return ("none",)
    if isinstance(o, (bool, np.bool_)):
        return ("b", bool(o))
    if isinstance(o, (int, np.integer)):
        return ("i", int(o))
    if isinstance(o, (float, np.floating)):
        return ("f", float(o))
    if isinstance(o, str):
        return ("s", o)
    if isinstance(o, enum.Enum):
        return ("e", f"{type(o).__name__}.{o.name}")
    if isinstance(o, np.ndarray):
        return ("a", list(o.shape), [float(x) for x in o.astype(float).ravel()])
    if isinstance(o, (list, tuple)):
        return ("l", [readback(x) for x in o])
    if isinstance(o, (set, frozenset)):
        return ("set", [readback(x) for x in o])
    if isinstance(o, dict):
        return ("set", [("l", [readback(k), readback(v)]) for k, v in o.items()])
    n = type(o).__name__
    if n not in CLASSES:
        raise TypeError(f"C12 read-back: unregistered type {n}")
    fs = []
    for a in attrs_of(o):
        fs.append((a, readback(getattr(o, ACCESSOR.get((n, a), a)))))
    return ("o", n, fs)


TH = 1e-10


RANK = {"same": 0, "sub": 1, "unspec": 2, "diff": 3}


def worst(rs):
    w = "same"
    for x in rs:
        if RANK[x] > RANK[w]:
            w = x
    return w


def rb_diff(x, y, setlike=False):
    """compare two read-back values under the admissible-domain semantics (DESIGN 2.7):
    'same' | 'sub' (only real differences <= 1e-10 / below the guard) | 'unspec' (None vs empty collection: the
    contract says nothing) | 'diff' (a value changed)"""
    nx, ny = x[0] in ("b", "i", "f"), y[0] in ("b", "i", "f")
    if nx and ny:
        if x[0] != "f" and y[0] != "f":
            return "same" if x[1] == y[1] else "diff"
        d = abs(float(x[1]) - float(y[1]))
        return "same" if d == 0 else "diff" if d > 1.5 * TH else "sub"
    if x[0] == "none" or y[0] == "none":
        if x[0] == y[0]:
            return "same"
        other = y if x[0] == "none" else x
        if other[0] in ("l", "set") and len(other[1]) == 0:
            return "unspec"
        return "diff"
    if x[0] != y[0]:
        return "diff"
    t = x[0]
    if t in ("s", "e"):
        return "same" if x[1] == y[1] else "diff"
    if t == "a":
        if x[1] != y[1]:
            return "diff"
        w = "same"
        for p, q in zip(x[2], y[2]):
            d = abs(p - q)
            if d > 1.5 * TH:
                return "diff"
            if d > 0:
                w = "sub"
        return w
    if t == "l" and not setlike:
        if len(x[1]) != len(y[1]):
            return "diff"
        return worst(rb_diff(p, q) for p, q in zip(x[1], y[1]))
    if t in ("set", "l"):
        # as sets: every element must have a partner
        def incl(a, b):
            w = "same"
            for p in a:
                rs = [rb_diff(p, q) for q in b]
                best = min(rs, key=lambda k: RANK[k]) if rs else "diff"
                w = worst([w, best])
            return w
        w = worst([incl(x[1], y[1]), incl(y[1], x[1])])
        if w == "same" and setlike == "keyed" and (len(x[1]) != len(y[1]) or
                                                    worst(rb_diff(p, q) for p, q in zip(x[1], y[1])) != "same"):
            return "unspec"  # same objects registered in another order: the contract speaks of id sets only
        return w
    if t == "o":
        if x[1] != y[1]:
            return "diff"
        dx, dy = dict(x[2]), dict(y[2])
        if set(dx) != set(dy):
            return "diff"
        return worst(rb_diff(dx[a], dy[a], setlike_kind(x[1], a)) for a in dx)
    raise TypeError(t)


# list-valued attributes that the API treats as sets of ids / names
# (or keeps in a dict keyed by id, so that the order of insertion is not part of the value)
SETLIKE_LISTS = {("Lanelet", "predecessor"), ("Lanelet", "successor"), ("TrafficSignElement", "additional_values"),
                 ("TrafficSign", "traffic_sign_elements"), ("Intersection", "incomings"),
                 ("LaneletNetwork", "lanelets"), ("LaneletNetwork", "intersections"),
                 ("LaneletNetwork", "traffic_signs"), ("LaneletNetwork", "traffic_lights"), ("LaneletNetwork", "areas"),
                 ("Scenario", "static_obstacles"), ("Scenario", "dynamic_obstacles"),
                 ("Scenario", "environment_obstacle"), ("Scenario", "phantom_obstacle")}

ID_LISTS = {("Lanelet", "predecessor"), ("Lanelet", "successor"), ("TrafficSignElement", "additional_values")}


def setlike_kind(cls, a):
    """False: ordered list; True: list of ids/names treated as a set; 'keyed': objects registered by id"""
    if (cls, a) in ID_LISTS:
        return True
    return "keyed" if (cls, a) in SETLIKE_LISTS else False


# ------------------------------------------------------------------------------------------------ generators
ID_POOL = [0, 8, 16, 1, 9, 3, 11, 24, 5, 13, 2, 10, 32, 40]  # many collide modulo the set table size 8


def grid(r, lo, hi, nd=None):
    """a float on a decimal grid (<= 6 digits), so that 1e-10 roundings are never near a tie"""
    nd = r.choice([0, 1, 3, 6]) if nd is None else nd
    return float(round(r.uniform(lo, hi), nd))


def real(r, lo, hi):
    k = r.random()
    if k < 0.15:
        return r.randint(max(0, int(math.ceil(lo))), int(math.floor(hi))) if 0 <= math.floor(hi) else grid(r, lo, hi)
    return grid(r, lo, hi)


def some_ids(r, lo=0, hi=3):
    return r.sample(ID_POOL, r.randint(lo, hi))


def opt(r, f, p=0.5):
    return f() if r.random() < p else None


def pick(r, en, sub=None):
    return E(r.choice(sub or list(en)))


def pt(r, big=False):
    if big or r.random() < 0.15:
        return A([grid(r, 1000, 9000, 3), grid(r, -3, 3, 3)])  # mixed magnitudes
    p = [grid(r, -30, 30), grid(r, -10, 10)]
    if r.random() < 0.12:
        p[r.randrange(2)] = 0.0     # a coordinate exactly on an axis: tiny perturbations then change its sign
    return A(p)


def polyline(r, n=None, x0=0.0, y0=0.0):
    n = n or r.randint(2, 5)
    return [[round(x0 + 2.5 * i, 3), round(y0 + 0.01 * i * i, 4)] for i in range(n)]


def g_Interval(r):
    if r.random() < 0.3:
        a = r.randint(0, 20)
        return O("Interval", start=a, end=a + r.randint(0, 9))
    a = grid(r, -10, 10)
    return O("Interval", start=a, end=a + grid(r, 0, 5))


def g_AngleInterval(r):
    a = grid(r, -3, 1.5)
    return O("AngleInterval", start=a, end=a + grid(r, 0.001, 1.5))


def g_Time(r):
    kw = dict(hours=r.randint(0, 23), minutes=r.randint(0, 59))
    if r.random() < 0.6:
        kw.update(day=r.randint(1, 28), month=r.randint(1, 12), year=r.randint(1990, 2030))
    return O("Time", **kw)


def g_Rectangle(r, centred=False):
    kw = dict(length=grid(r, 0.5, 6), width=grid(r, 0.5, 3))
    if not centred and r.random() < 0.8:
        kw["center"] = pt(r)
    if not centred and r.random() < 0.7:
        kw["orientation"] = grid(r, -3, 3)
    return O("Rectangle", **kw)


def g_Circle(r, centred=False):
    kw = dict(radius=grid(r, 0.3, 3))
    if not centred and r.random() < 0.8:
        kw["center"] = pt(r)
    return O("Circle", **kw)


def g_Polygon(r, n=None):
    n = n or (r.randint(3, 6) if r.random() < 0.985 else 510)
    cx, cy = (grid(r, -20, 20, 3), grid(r, -10, 10, 3)) if r.random() < 0.85 else (grid(r, 2000, 9000, 3), 1.0)
    rad = grid(r, 1.0, 3.0, 3) if n < 50 else 40.0
    ph = r.uniform(0, 1)
    return O("Polygon", vertices=A([[round(cx + rad * math.cos(-2 * math.pi * (i + ph) / n), 6),
                                     round(cy + rad * math.sin(-2 * math.pi * (i + ph) / n), 6)] for i in range(n)]))


def g_Shape(r, group=True, centred=False):
    k = r.random()
    if k < 0.4:
        return g_Rectangle(r, centred)
    if k < 0.65:
        return g_Circle(r, centred)
    if k < 0.9 or not group:
        return g_Polygon(r, n=r.randint(3, 5))
    return g_ShapeGroup(r)


def g_ShapeGroup(r):
    return O("ShapeGroup", shapes=L([g_Shape(r, group=False) for _ in range(r.randint(1, 3))]))


def g_MetaInformationState(r):
    kw = {}
    if r.random() < 0.7:
        kw["meta_data_str"] = D([[k, r.choice(["a", "b", "xyz"])] for k in r.sample(["s1", "s2", "s3"], r.randint(1, 2))])
    if r.random() < 0.6:
        kw["meta_data_int"] = D([[k, r.randint(0, 9)] for k in r.sample(["i1", "i2", "i3"], r.randint(1, 3))])
    if r.random() < 0.5:
        kw["meta_data_float"] = D([[k, grid(r, 0, 9)] for k in r.sample(["f1", "f2"], r.randint(1, 2))])
    if r.random() < 0.5:
        kw["meta_data_bool"] = D([[k, r.random() < 0.5] for k in r.sample(["b1", "b2"], r.randint(1, 2))])
    return O("MetaInformationState", **kw)


def g_SignalState(r, t=None):
    kw = {"time_step": r.randint(0, 30) if t is None else t}
    for a in SignalState.__slots__[:-1]:
        if r.random() < 0.75:
            kw[a] = r.random() < 0.5
    return O("SignalState", **kw)


STATE_FIELDS = {c.__name__: [n for n in inspect.signature(c.__init__).parameters if n != "self"]
                for c in STATE_CLASSES if c is not st.CustomState}
ANGLE_FIELDS = {"orientation", "hitch_angle"}


def state_value(r, a, uncertain):
    if a == "position":
        if uncertain and r.random() < 0.5:
            return g_Shape(r, group=False)
        return pt(r)
    if a in ANGLE_FIELDS:
        if uncertain and r.random() < 0.5:
            return g_AngleInterval(r)
        return grid(r, -3.1, 3.1)
    if uncertain and r.random() < 0.3:
        x = g_Interval(r)
        return x
    return real(r, -5, 20)


def g_State(r, cls=None, t=None, uncertain=None, fields=None, full=False):
    cls = cls or r.choice([c.__name__ for c in STATE_CLASSES])
    uncertain = r.random() < 0.3 if uncertain is None else uncertain
    t = r.randint(0, 40) if t is None else t
    if cls == "CustomState":
        fields = fields if fields is not None else r.sample(["position", "orientation", "velocity", "acceleration",
                                                             "my_attr", "slip_angle"], r.randint(0, 4))
        kw = {"time_step": t}
        for a in fields:
            kw[a] = state_value(r, a, uncertain)
        return O(cls, **kw)
    names = STATE_FIELDS[cls]
    kw = {}
    for a in names:
        if a == "time_step":
            if fields is None and not full and r.random() < 0.05:
                continue
            kw[a] = t
        elif (fields is not None and a in fields) or (fields is None and (full or r.random() < 0.8)):
            kw[a] = state_value(r, a, uncertain)
    return O(cls, **kw)


def g_goal_state(r):
    kw = {"time_step": O("Interval", start=r.randint(0, 5), end=r.randint(5, 40))}
    if r.random() < 0.7:
        kw["position"] = g_Shape(r)
    if r.random() < 0.6:
        kw["orientation"] = g_AngleInterval(r)
    if r.random() < 0.6:
        kw["velocity"] = g_Interval(r)
    return O("CustomState", **kw)


def g_InitialState(r, t=0, uncertain=False):
    """initial state of an obstacle: position and orientation are required by the occupancy computation"""
    extra = [a for a in ("velocity", "acceleration", "yaw_rate", "slip_angle") if r.random() < 0.7]
    return g_State(r, "InitialState", t, uncertain, fields=["position", "orientation"] + extra)


def g_Trajectory(r, t0=None, n=None):
    t0 = r.randint(0, 5) if t0 is None else t0
    n = n or r.randint(1, 4)
    cls = r.choice(["KSState", "PMState", "STState", "CustomState", "InitialState", "KSTState", "MBState"])
    unc = r.random() < 0.2
    if cls == "CustomState":
        fields = r.sample(["position", "orientation", "velocity", "acceleration"], r.randint(1, 3))
    else:
        fields = [a for a in STATE_FIELDS[cls] if a != "time_step" and r.random() < 0.85]
    return O("Trajectory", initial_time_step=t0, state_list=L([g_State(r, cls, t0 + i, unc, fields) for i in range(n)]))


def g_Occupancy(r, t=None):
    if t is None:
        t = r.randint(0, 20) if r.random() < 0.8 else O("Interval", start=r.randint(0, 4), end=r.randint(4, 9))
    return O("Occupancy", time_step=t, shape=g_Shape(r))


def g_SetBasedPrediction(r, t0=None):
    t0 = r.randint(0, 5) if t0 is None else t0
    return O("SetBasedPrediction", initial_time_step=t0,
             occupancy_set=L([g_Occupancy(r, t0 + i) for i in range(r.randint(1, 3))]))


def g_assignment(r, t0, n):
    return D([[t0 + i, SET(some_ids(r, 0, 3))] for i in range(n) if r.random() < 0.8])


def g_TrajectoryPrediction(r, t0=None):
    tr = g_Trajectory(r, t0)
    if not any("position" in s["kw"] for s in tr["kw"]["state_list"]["l"]) or \
            not all("orientation" in s["kw"] or "velocity_y" in s["kw"] for s in tr["kw"]["state_list"]["l"]):
        t = tr["kw"]["initial_time_step"]
        n = len(tr["kw"]["state_list"]["l"])
        tr = O("Trajectory", initial_time_step=t,
               state_list=L([g_State(r, "KSState", t + i, False, ["position", "orientation", "velocity"])
                             for i in range(n)]))
    n = len(tr["kw"]["state_list"]["l"])
    t0 = tr["kw"]["initial_time_step"]
    kw = dict(trajectory=tr, shape=g_Shape(r, group=False, centred=True))
    if r.random() < 0.5:
        kw["center_lanelet_assignment"] = g_assignment(r, t0, n)
    if r.random() < 0.5:
        kw["shape_lanelet_assignment"] = g_assignment(r, t0, n)
    return O("TrajectoryPrediction", **kw)


def obstacle_common(r, kw, t0):
    if r.random() < 0.5:
        kw["initial_center_lanelet_ids"] = SET(some_ids(r, 0, 3))
    if r.random() < 0.5:
        kw["initial_shape_lanelet_ids"] = SET(some_ids(r, 0, 4))
    if r.random() < 0.4:
        kw["initial_signal_state"] = g_SignalState(r, t0)
    if r.random() < 0.4:
        kw["signal_series"] = L([g_SignalState(r, t0 + 1 + i) for i in range(r.randint(0, 3))])


def restrict_ids(r, spec, lanelet_ids):
    """inside a scenario the lanelet ids an obstacle refers to must exist (add_objects registers the obstacle there)"""
    if lanelet_ids is None:
        return spec

    def f(v):
        if isinstance(v, dict):
            if "set" in v and all(isinstance(x, int) for x in v["set"]):
                return SET(r.sample(lanelet_ids, min(len(lanelet_ids), len(v["set"]))))
            if "l" in v:
                return {"l": [f(x) for x in v["l"]]}
            if "d" in v:
                return {"d": [[k, f(x)] for k, x in v["d"]]}
            if "c" in v:
                return {"c": v["c"], "kw": {k: f(x) for k, x in v["kw"].items()}}
        return v
    return f(spec)


def g_StaticObstacle(r, oid=None, lanelet_ids=None):
    kw = dict(obstacle_id=r.choice(ID_POOL) + 100 if oid is None else oid,
              obstacle_type=pick(r, ObstacleType, [ObstacleType.PARKED_VEHICLE, ObstacleType.CONSTRUCTION_ZONE,
                                                   ObstacleType.ROAD_BOUNDARY, ObstacleType.UNKNOWN]),
              obstacle_shape=g_Shape(r, centred=True))
    kw["initial_state"] = g_InitialState(r, 0, r.random() < 0.2 and kw["obstacle_shape"]["c"] != "ShapeGroup")
    obstacle_common(r, kw, 0)
    return restrict_ids(r, O("StaticObstacle", **kw), lanelet_ids)


def g_DynamicObstacle(r, oid=None, lanelet_ids=None):
    t0 = r.choice([0, 0, 2])
    kw = dict(obstacle_id=r.choice(ID_POOL) + 200 if oid is None else oid,
              obstacle_type=pick(r, ObstacleType, [ObstacleType.CAR, ObstacleType.TRUCK, ObstacleType.BICYCLE,
                                                   ObstacleType.PEDESTRIAN, ObstacleType.BUS]),
              obstacle_shape=g_Shape(r, group=False, centred=True),
              initial_state=g_InitialState(r, t0, r.random() < 0.2))
    k = r.random()
    if k < 0.45:
        kw["prediction"] = g_TrajectoryPrediction(r, t0 + 1)
    elif k < 0.7:
        kw["prediction"] = g_SetBasedPrediction(r, t0 + 1)
    obstacle_common(r, kw, t0)
    if r.random() < 0.3:
        kw["initial_meta_information_state"] = g_MetaInformationState(r)
    if r.random() < 0.3:
        kw["meta_information_series"] = L([g_MetaInformationState(r) for _ in range(r.randint(0, 2))])
    if r.random() < 0.3:
        kw["external_dataset_id"] = r.randint(0, 99)
    if r.random() < 0.3:
        kw["history"] = L([g_State(r, "KSState", i, False, ["position", "orientation"]) for i in
                           range(r.randint(0, 2))])
    if r.random() < 0.3:
        kw["signal_history"] = L([g_SignalState(r, i) for i in range(r.randint(0, 2))])
    if r.random() < 0.3:
        kw["center_lanelet_ids_history"] = L([SET(some_ids(r, 0, 3)) for _ in range(r.randint(0, 2))])
    if r.random() < 0.3:
        kw["shape_lanelet_ids_history"] = L([SET(some_ids(r, 0, 3)) for _ in range(r.randint(0, 2))])
    return restrict_ids(r, O("DynamicObstacle", **kw), lanelet_ids)


def g_EnvironmentObstacle(r, oid=None):
    return O("EnvironmentObstacle", obstacle_id=r.choice(ID_POOL) + 300 if oid is None else oid,
             obstacle_type=pick(r, ObstacleType, [ObstacleType.BUILDING, ObstacleType.PILLAR,
                                                  ObstacleType.MEDIAN_STRIP]),
             obstacle_shape=g_Shape(r, group=False))


def g_PhantomObstacle(r, oid=None):
    kw = dict(obstacle_id=r.choice(ID_POOL) + 400 if oid is None else oid)
    if r.random() < 0.8:
        kw["prediction"] = g_SetBasedPrediction(r)
    return O("PhantomObstacle", **kw)


def g_StopLine(r):
    kw = dict(start=pt(r), end=pt(r), line_marking=pick(r, LineMarking))
    if r.random() < 0.5:
        kw["traffic_sign_ref"] = SET(some_ids(r, 1, 3))
    if r.random() < 0.5:
        kw["traffic_light_ref"] = SET(some_ids(r, 1, 3))
    return O("StopLine", **kw)


def g_Lanelet(r, lid=None, n=None, minimal=None):
    n = n or (r.randint(2, 5) if r.random() < 0.98 else 502)
    x0, y0 = (grid(r, -50, 50, 3), grid(r, -20, 20, 3)) if r.random() < 0.85 else (grid(r, 2000, 9000, 3), 0.5)
    right = polyline(r, n, x0, y0)
    left = [[p[0], round(p[1] + 3.0, 4)] for p in right]
    center = [[p[0], round(p[1] + 1.5, 4)] for p in right]
    kw = dict(left_vertices=A(left), center_vertices=A(center), right_vertices=A(right),
              lanelet_id=r.choice(ID_POOL) + 1000 if lid is None else lid)
    if minimal if minimal is not None else r.random() < 0.15:
        return O("Lanelet", **kw)
    if r.random() < 0.7:
        kw["predecessor"] = IDS(some_ids(r, 0, 3))
    if r.random() < 0.7:
        kw["successor"] = IDS(some_ids(r, 0, 3))
    if r.random() < 0.5:
        kw["adjacent_left"] = r.choice(ID_POOL)
        kw["adjacent_left_same_direction"] = r.random() < 0.5
    if r.random() < 0.5:
        kw["adjacent_right"] = r.choice(ID_POOL)
        kw["adjacent_right_same_direction"] = r.random() < 0.5
    if r.random() < 0.7:
        kw["line_marking_left_vertices"] = pick(r, LineMarking)
    if r.random() < 0.7:
        kw["line_marking_right_vertices"] = pick(r, LineMarking)
    if r.random() < 0.4:
        kw["stop_line"] = g_StopLine(r)
    if r.random() < 0.7:
        kw["lanelet_type"] = SET([E(m) for m in r.sample(list(LaneletType), r.randint(0, 3))])
    if r.random() < 0.6:
        kw["user_one_way"] = SET([E(m) for m in r.sample(list(RoadUser), r.randint(0, 3))])
    if r.random() < 0.4:
        kw["user_bidirectional"] = SET([E(m) for m in r.sample(list(RoadUser), r.randint(0, 2))])
    if r.random() < 0.5:
        kw["traffic_signs"] = SET(some_ids(r, 0, 3))
    if r.random() < 0.5:
        kw["traffic_lights"] = SET(some_ids(r, 0, 3))
    if r.random() < 0.4:
        kw["adjacent_areas"] = SET(some_ids(r, 0, 2))
    return O("Lanelet", **kw)


def g_MapInformation(r):
    kw = {}
    for a, vals in [("commonroad_version", ["2023a", "2020a"]), ("map_id", ["DEU_A-1", "ZAM_Test-3"]),
                    ("author", ["A. B.", "nobody"]), ("affiliation", ["TUM", "x"]), ("source", ["osm", "hand"]),
                    ("licence_name", ["BSD", "CC"]), ("licence_text", ["text", ""])]:
        if r.random() < 0.6:
            kw[a] = r.choice(vals)
    kw["date"] = g_Time(r)  # the default is "now": two instances built at different minutes would differ
    return O("MapInformation", **kw)


def g_TrafficSignElement(r):
    m = r.choice([TrafficSignIDGermany.MAX_SPEED, TrafficSignIDGermany.STOP, TrafficSignIDGermany.YIELD,
                  TrafficSignIDZamunda.MAX_SPEED, TrafficSignIDGermany.PRIORITY, TrafficSignIDGermany.MIN_SPEED])
    kw = dict(traffic_sign_element_id=E(m))
    if "SPEED" in m.name:
        kw["additional_values"] = IDS(r.sample(["30", "50", "13.9", "8.3"], r.randint(1, 2)))
    elif r.random() < 0.5:
        kw["additional_values"] = IDS([])
    return O("TrafficSignElement", **kw)


def g_TrafficSign(r, sid=None):
    els, seen = [], set()
    for _ in range(r.randint(1, 3)):
        e = g_TrafficSignElement(r)
        k = (e["kw"]["traffic_sign_element_id"]["e"], e["kw"]["traffic_sign_element_id"]["n"])
        if k in seen and r.random() < 0.7:
            continue
        seen.add(k)
        els.append(e)
    speed = [e for e in els if "additional_values" in e["kw"] and e["kw"]["additional_values"]["ids"]]
    if speed and r.random() < 0.4:
        # a second element with the same element id and other values (two speed limits on one post)
        e = copy.deepcopy(r.choice(speed))
        e["kw"]["additional_values"] = IDS([r.choice(["60", "70", "27.8"])])
        els.insert(r.randrange(len(els) + 1), e)
    kw = dict(traffic_sign_id=r.choice(ID_POOL) + 2000 if sid is None else sid, traffic_sign_elements=L(els),
              first_occurrence=SET(some_ids(r, 0, 3)), position=pt(r))
    if r.random() < 0.6:
        kw["virtual"] = r.random() < 0.5
    return O("TrafficSign", **kw)


def g_TrafficLightCycleElement(r):
    return O("TrafficLightCycleElement", state=pick(r, TrafficLightState), duration=r.randint(1, 30))


def g_TrafficLightCycle(r):
    kw = {}
    if r.random() < 0.85:
        kw["cycle_elements"] = L([g_TrafficLightCycleElement(r) for _ in range(r.randint(1, 4))])
    if r.random() < 0.6:
        kw["time_offset"] = r.randint(0, 9)
    if r.random() < 0.5:
        kw["active"] = r.random() < 0.6
    return O("TrafficLightCycle", **kw)


def g_TrafficLight(r, tid=None):
    kw = dict(traffic_light_id=r.choice(ID_POOL) + 3000 if tid is None else tid, position=pt(r))
    if r.random() < 0.8:
        kw["traffic_light_cycle"] = g_TrafficLightCycle(r)
    if r.random() < 0.5:
        kw["color"] = L([E(m) for m in r.sample([TrafficLightState.RED, TrafficLightState.YELLOW,
                                                 TrafficLightState.GREEN], r.randint(1, 3))])
    if r.random() < 0.6:
        kw["active"] = r.random() < 0.6
    if r.random() < 0.6:
        kw["direction"] = pick(r, TrafficLightDirection)
    if r.random() < 0.3:
        kw["shape"] = g_Rectangle(r)
    return O("TrafficLight", **kw)


def g_IntersectionIncomingElement(r, iid=None):
    kw = dict(incoming_id=r.choice(ID_POOL) + 4000 if iid is None else iid)
    for a in ("incoming_lanelets", "successors_right", "successors_straight", "successors_left"):
        if r.random() < 0.7:
            kw[a] = SET(some_ids(r, 1 if a == "incoming_lanelets" else 0, 3))
    if r.random() < 0.4:
        kw["left_of"] = r.choice(ID_POOL) + 4000
    return O("IntersectionIncomingElement", **kw)


def g_Intersection(r, iid=None):
    base = r.choice([4000, 4100])
    incs = [g_IntersectionIncomingElement(r, base + k) for k in r.sample(ID_POOL, r.randint(1, 3))]
    kw = dict(intersection_id=r.choice(ID_POOL) + 5000 if iid is None else iid, incomings=L(incs))
    if r.random() < 0.6:
        kw["crossings"] = SET(some_ids(r, 0, 3))
    return O("Intersection", **kw)


def g_AreaBorder(r, bid=None):
    kw = dict(area_border_id=r.choice(ID_POOL) + 6000 if bid is None else bid,
              border_vertices=A(polyline(r, None, grid(r, -20, 20, 3), grid(r, -5, 5, 3))))
    if r.random() < 0.6:
        kw["adjacent"] = L(some_ids(r, 0, 3))
    if r.random() < 0.6:
        kw["line_marking"] = pick(r, LineMarking)
    return O("AreaBorder", **kw)


def g_Area(r, aid=None):
    kw = dict(area_id=r.choice(ID_POOL) + 7000 if aid is None else aid)
    if r.random() < 0.8:
        kw["border"] = L([g_AreaBorder(r, 6000 + i) for i in range(r.randint(0, 3))])
    if r.random() < 0.7:
        kw["area_types"] = SET([E(m) for m in r.sample(list(AreaType), r.randint(0, 3))])
    return O("Area", **kw)


def g_LaneletNetwork(r, small=False):
    kw = {"information": g_MapInformation(r)}
    n = r.randint(0, 2 if small else 4)
    ids = r.sample(ID_POOL, n)
    kw["lanelets"] = L([g_Lanelet(r, 1000 + i, n=r.randint(2, 3)) for i in ids])
    # references inside a network need not resolve for == / hash; add_* only registers objects by id
    kw["traffic_signs"] = L([g_TrafficSign(r, 2000 + i) for i in r.sample(ID_POOL, r.randint(0, 2))])
    kw["traffic_lights"] = L([g_TrafficLight(r, 3000 + i) for i in r.sample(ID_POOL, r.randint(0, 2))])
    kw["intersections"] = L([g_Intersection(r, 5000 + i) for i in r.sample(ID_POOL, r.randint(0, 1))])
    kw["areas"] = L([g_Area(r, 7000 + i) for i in r.sample(ID_POOL, r.randint(0, 1))])
    return O("LaneletNetwork", **kw)


def g_GoalRegion(r):
    n = r.randint(1, 3)
    kw = dict(state_list=L([g_goal_state(r) for _ in range(n)]))
    if r.random() < 0.5:
        kw["lanelets_of_goal_position"] = D([[i, L(some_ids(r, 1, 2))] for i in range(n) if r.random() < 0.7])
    return O("GoalRegion", **kw)


def g_PlanningProblem(r, pid=None):
    return O("PlanningProblem", planning_problem_id=r.choice(ID_POOL) + 8000 if pid is None else pid,
             initial_state=g_State(r, "InitialState", 0, False, full=True), goal_region=g_GoalRegion(r))


def g_PlanningProblemSet(r):
    if r.random() < 0.1:
        return O("PlanningProblemSet")
    return O("PlanningProblemSet",
             planning_problem_list=L([g_PlanningProblem(r, 8000 + i) for i in r.sample(ID_POOL, r.randint(0, 3))]))


def g_GeoTransformation(r):
    kw = {}
    if r.random() < 0.6:
        kw["geo_reference"] = r.choice(["+proj=utm +zone=32", "EPSG:4326"])
    for a in ("x_translation", "y_translation", "z_rotation", "scaling"):
        if r.random() < 0.6:
            kw[a] = real(r, -5, 5)
    return O("GeoTransformation", **kw)


def g_Environment(r):
    kw = {}
    if r.random() < 0.6:
        kw["time"] = g_Time(r)
    if r.random() < 0.6:
        kw["time_of_day"] = pick(r, TimeOfDay)
    if r.random() < 0.6:
        kw["weather"] = pick(r, Weather)
    if r.random() < 0.6:
        kw["underground"] = pick(r, Underground)
    return O("Environment", **kw)


def g_Location(r):
    kw = {}
    if r.random() < 0.6:
        kw["geo_name_id"] = r.randint(0, 99999)
    if r.random() < 0.6:
        kw["gps_latitude"] = grid(r, -90, 90)
    if r.random() < 0.6:
        kw["gps_longitude"] = grid(r, -180, 180)
    if r.random() < 0.5:
        kw["geo_transformation"] = g_GeoTransformation(r)
    if r.random() < 0.5:
        kw["environment"] = g_Environment(r)
    return O("Location", **kw)


def g_ScenarioID(r):
    kw = {}
    if r.random() < 0.5:
        kw["cooperative"] = r.random() < 0.5
    if r.random() < 0.7:
        kw["country_id"] = r.choice(["ZAM", "DEU", "USA"])
    if r.random() < 0.7:
        kw["map_name"] = r.choice(["Test", "Muc", "Lanker"])
    if r.random() < 0.7:
        kw["map_id"] = r.randint(1, 30)
    if r.random() < 0.7:
        kw["configuration_id"] = r.randint(1, 30)
        if r.random() < 0.8:
            kw["obstacle_behavior"] = r.choice(["T", "S", "I"])
            k = r.random()
            if k < 0.4:
                kw["prediction_id"] = r.randint(1, 9)
            elif k < 0.8:
                kw["prediction_id"] = L(r.sample(range(1, 9), r.randint(1, 3)))
    if r.random() < 0.5:
        kw["scenario_version"] = r.choice(["2020a", "2018b"])
    return O("ScenarioID", **kw)


def g_Scenario(r):
    kw = {"dt": r.choice([0.1, 0.04, 0.2, 0.5, 1])}
    if r.random() < 0.8:
        kw["scenario_id"] = g_ScenarioID(r)
    if r.random() < 0.5:
        kw["author"] = r.choice(["A", "B C"])
    if r.random() < 0.6:
        kw["tags"] = SET([E(m) for m in r.sample(list(Tag), r.randint(0, 3))])
    if r.random() < 0.5:
        kw["affiliation"] = r.choice(["TUM", "X"])
    if r.random() < 0.5:
        kw["source"] = r.choice(["s1", "s2"])
    if r.random() < 0.5:
        kw["location"] = g_Location(r)
    if r.random() < 0.85:
        kw["lanelet_network"] = g_LaneletNetwork(r, small=True)
        ids = r.sample(ID_POOL, 6)
        lids = [la["kw"]["lanelet_id"] for la in kw["lanelet_network"]["kw"]["lanelets"]["l"]]
        kw["static_obstacles"] = L([g_StaticObstacle(r, 100 + i, lids) for i in ids[:r.randint(0, 2)]])
        kw["dynamic_obstacles"] = L([g_DynamicObstacle(r, 200 + i, lids) for i in ids[:r.randint(0, 2)]])
        kw["environment_obstacle"] = L([g_EnvironmentObstacle(r, 300 + i) for i in ids[:r.randint(0, 1)]])
        kw["phantom_obstacle"] = L([g_PhantomObstacle(r, 400 + i) for i in ids[:r.randint(0, 1)]])
    return O("Scenario", **kw)


GEN = {n: globals()["g_" + n] for n in [c.__name__ for c in PLAIN_CLASSES]}
for _c in STATE_CLASSES:
    GEN[_c.__name__] = (lambda nm: (lambda r: g_State(r, nm)))(_c.__name__)


def minimal_spec(cname, r):
    """an instance built with every optional argument left at its default"""
    s = GEN[cname](r)
    cls = CLASSES[cname]
    if cname in STATE_NAMES or cname == "SignalState":
        return O(cname, time_step=s["kw"].get("time_step", 0)) if cname in ("CustomState", "SignalState") \
            else O(cname)
    sig = inspect.signature(cls.__init__).parameters
    keep = {k: v for k, v in s["kw"].items() if k in sig and sig[k].default is inspect.Parameter.empty}
    return O(cname, **keep)


# ------------------------------------------------------------------------------------------------ perturbations
DELTAS = [3e-10, 1e-7, 0.25]
SUB = 2e-11


def fresh_id(r, present):
    c = [i for i in ID_POOL + [48, 56, 7] if i not in present]
    return r.choice(c)


_HOLDS_INTS = {}


def holds_ints(cname, attr):
    k = (cname, attr)
    if k not in _HOLDS_INTS:
        _HOLDS_INTS[k] = _holds_ints(cname, attr)
    return _HOLDS_INTS[k]


def _holds_ints(cname, attr):
    """may the collection-valued parameter [attr] of class [cname] hold ints (ids)?  Decides what can be added to an
    EMPTY collection (from the constructor's type annotation; unannotated: no)"""
    import typing
    cls = CLASSES.get(cname)
    if cls is None or cname in EXTRA_ATTRS and attr in EXTRA_ATTRS[cname]:
        return False
    try:
        t = typing.get_type_hints(cls.__init__).get(attr)
    except Exception:  # noqa
        return False

    def has_int(t):
        return t is int or any(has_int(a) for a in typing.get_args(t))
    return t is not None and has_int(t)


def local_variants(r, v, sub=False, setlike=False, ints=True):
    """value-changing variants of a spec value: list of (new value, description); [ints]: an empty collection may
    receive an int"""
    out = []
    if v is None:
        return out
    if isinstance(v, bool):
        return [(not v, "flip")]
    if isinstance(v, int):
        return [(v + 1, "+1")]
    if isinstance(v, float):
        if sub:
            return [(v + sg * SUB, f"{'+' if sg > 0 else '-'}{SUB}") for sg in r.sample([1, -1], 2)]
        return [(v + d * r.choice([1, -1]), f"+-{d}") for d in DELTAS]
    if isinstance(v, str):
        return [(v + "x", "str+x")]
    if "e" in v:
        ms = [m for m in ENUMS[v["e"]] if m.name != v["n"]]
        return [(E(r.choice(ms)), "other member")]
    if "a" in v:
        arr = np.array(v["a"], dtype=float)
        flat = arr.ravel()
        n = flat.size
        if n == 0:
            return out
        for idx in sorted({0, n // 2, n - 1, r.randrange(n)}):
            for d in ([SUB * r.choice([1, -1])] if sub else [r.choice(DELTAS)]):
                b = flat.copy()
                b[idx] += d
                out.append((A(b.reshape(arr.shape)), f"[{idx}]+{d}"))
        if sub:
            zeros = [i for i in range(n) if flat[i] == 0.0]
            if zeros:   # a coordinate on an axis moved below zero by less than the rounding step: rounds to -0.0
                b = flat.copy()
                b[r.choice(zeros)] = -SUB / r.choice([1, 20])
                out.insert(0, (A(b.reshape(arr.shape)), "[axis]-tiny"))
        if arr.ndim == 2 and arr.shape[0] > 3 and not sub:
            out.append((A(arr[:-1]), "drop last row"))
        if arr.ndim == 2 and arr.shape[0] >= 3 and not sub and not np.array_equal(arr[0], arr[-1]):
            # the same points, the list started at another one (for a ring: the same region, other vertex data)
            out.append((A(np.roll(arr, -r.choice([1, 2]), axis=0)), "rows rolled"))
        return out
    if "set" in v or "ids" in v:
        key = "set" if "set" in v else "ids"
        el = v[key]
        if sub:
            return out
        if all(isinstance(x, int) for x in el) and (el or ints):
            out.append(({key: el + [fresh_id(r, el)]}, "add id"))
            if el:
                i = r.randrange(len(el))
                out.append(({key: el[:i] + el[i + 1:]}, "remove id"))
                out.append(({key: el[:i] + [fresh_id(r, el)] + el[i + 1:]}, "replace id"))
        elif el and all(isinstance(x, dict) and "e" in x for x in el):
            en = ENUMS[el[0]["e"]]
            ms = [m for m in en if m.name not in {x["n"] for x in el}]
            if ms:
                out.append(({key: el + [E(r.choice(ms))]}, "add member"))
            out.append(({key: el[1:]}, "remove member"))
        elif el and all(isinstance(x, str) for x in el):
            out.append(({key: el + [el[0] + "1"]}, "add str"))
            out.append(({key: el[1:]}, "remove str"))
        return out
    if "l" in v:
        el = v["l"]
        if el:
            i = r.randrange(len(el))
            for nv, d in local_variants(r, el[i], sub, ints=ints)[:2]:
                out.append(({"l": el[:i] + [nv] + el[i + 1:]}, f"[{i}].{d}"))
            if not sub:
                out.append(({"l": el[:-1]}, "drop last"))
                if len(el) > 1 and el[0] != el[-1]:
                    out.append(({"l": el[1:] + el[:1]}, "rotate"))
        return out
    if "d" in v:
        el = v["d"]
        if el:
            i = r.randrange(len(el))
            for nv, d in local_variants(r, el[i][1], sub, ints=ints)[:2]:
                out.append(({"d": el[:i] + [[el[i][0], nv]] + el[i + 1:]}, f"[{el[i][0]}].{d}"))
            if not sub:
                out.append(({"d": el[:-1]}, "drop key"))
        return out
    if "c" in v:
        kw = v["kw"]
        if kw:
            for a in r.sample(sorted(kw), min(2, len(kw))):
                for nv, d in local_variants(r, kw[a], sub, ints=holds_ints(v["c"], a))[:1]:
                    out.append(({"c": v["c"], "kw": dict(kw, **{a: nv})}, f"{v['c']}.{a}.{d}"))
        return out
    return out


def try_build(spec):
    try:
        return build(spec), None
    except Exception as e:  # noqa - an invalid perturbation
        return None, type(e).__name__


def perturbations(r, spec, attr, n_donor=2):
    """spec variants differing in constructor parameter [attr] only: local changes of the current value and values
    taken from freshly generated instances of the same class"""
    cname, kw = spec["c"], spec["kw"]
    out = []
    if attr in kw:
        ints = holds_ints(cname, attr)
        for nv, d in local_variants(r, kw[attr], ints=ints):
            out.append((dict(spec, kw=dict(kw, **{attr: nv})), "local:" + d))
        for nv, d in local_variants(r, kw[attr], sub=True, ints=ints)[:2]:
            out.append((dict(spec, kw=dict(kw, **{attr: nv})), "sub:" + d))
    for _ in range(n_donor):
        for _try in range(6):
            donor = GEN[cname](r)["kw"]
            if attr in donor and donor[attr] != kw.get(attr, "<absent>"):
                out.append((dict(spec, kw=dict(kw, **{attr: donor[attr]})), "donor"))
                break
            if attr not in donor and attr in kw and _try >= 3:
                nk = dict(kw)
                del nk[attr]
                out.append((dict(spec, kw=nk), "default"))
                break
    # an absent / None collection against the EMPTY collection of the kind other instances hold there (whether the two
    # compare equal is not demanded - that equal objects hash alike is)
    if kw.get(attr) is None:
        for _try in range(8):
            dv = GEN[cname](r)["kw"].get(attr)
            kind = next((k for k in ("d", "l", "set", "ids") if isinstance(dv, dict) and k in dv), None)
            if kind is not None:
                out.append((dict(spec, kw=dict(kw, **{attr: {kind: []}})), "local:empty collection instead of None"))
                break
    return out


def set_paths(v, path=()):
    """paths of all set-like collections with >= 2 elements in a spec"""
    out = []
    if isinstance(v, dict):
        if ("set" in v or "ids" in v):
            if len(v.get("set", v.get("ids"))) >= 2:
                out.append(path)
        elif "l" in v:
            for i, x in enumerate(v["l"]):
                out += set_paths(x, path + (("l", i),))
        elif "d" in v:
            for i, (k, x) in enumerate(v["d"]):
                out += set_paths(x, path + (("d", i),))
        elif "c" in v:
            for a, x in v["kw"].items():
                out += set_paths(x, path + (("kw", a),))
    return out


def map_at(v, path, f):
    if not path:
        return f(v)
    (k, i), rest = path[0], path[1:]
    v = copy.copy(v)
    if k == "l":
        v["l"] = list(v["l"])
        v["l"][i] = map_at(v["l"][i], rest, f)
    elif k == "d":
        v["d"] = [list(p) for p in v["d"]]
        v["d"][i][1] = map_at(v["d"][i][1], rest, f)
    else:
        v["kw"] = dict(v["kw"])
        v["kw"][i] = map_at(v["kw"][i], rest, f)
    return v


def permuted(r, spec, mode):
    """the same value with the insertion order of every set-like collection changed"""
    paths = set_paths(spec)
    if not paths:
        return None

    def perm(c):
        key = "set" if "set" in c else "ids"
        el = list(c[key])
        if mode == "reverse":
            el.reverse()
        elif mode == "rotate":
            el = el[1:] + el[:1]
        else:
            r.shuffle(el)
        return {key: el}

    out = spec
    for p in paths:
        out = map_at(out, p, perm)
    return out if out != spec else None
