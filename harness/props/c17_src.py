"""C17 translator tie: TrafficLightCycle.cycle_init_timesteps / get_state_at_time_step and TrafficLight.
get_state_at_time_step of commonroad/scenario/traffic_light.py are translated to Gallina on every run
(coq/Gen/Src_traffic_light.v); Proofs/SrcTrafficLight.v proves the translated functions equal to the hand-written model
the C17 theorems are about.  numpy's cumsum / insert(., 0, .) / argmax over a boolean array / broadcasting and Python
list indexing are primitives with the Gallina meaning given in Model/TrafficLight.v (cumsum_from, argmax, pyindex)."""
import os

from vlib.core import COQ, REPO
from vlib.py2coq import Module, TranslationError, Translator, emit_file, write_if_changed

HEADER = ("From Coq Require Import ZArith List Bool.\nImport ListNotations.\n"
          "From CR Require Import Model.Interval Model.TrafficLight.\nOpen Scope Z_scope.")


def np_cumsum(t, a, n):
    if len(a) != 1 or a[0][0] != "L" or a[0][1] != "Z":
        raise TranslationError("np.cumsum of something else than a list of integers")
    return ("L", "Z", f"(cumsum_from 0 {a[0][2]})")


def np_insert(t, a, n):
    if len(a) != 3 or a[0][0] != "L" or a[0][1] != "Z" or a[1] != ("num", 0):
        raise TranslationError("np.insert form")
    return ("L", "Z", f"({t.toZ(a[2])[1]} :: {a[0][2]})")


def np_argmax(t, a, n):
    if len(a) != 1 or a[0][0] != "L" or a[0][1] != "B":
        raise TranslationError("np.argmax of something else than a boolean array")
    return ("Z", f"(argmax {a[0][2]})")


C = ("c", "obj", "TrafficLightCycle")
JOBS = [
    ("src_init_steps", ("getter", "TrafficLightCycle", "cycle_init_timesteps"), [C], "list Z", "TrafficLightCycle.cycle_init_timesteps"),
    ("src_state_at", ("method", "TrafficLightCycle", "get_state_at_time_step"), [C, ("t", "Z")], "Z",
     "TrafficLightCycle.get_state_at_time_step"),
    ("src_light_state_at", ("method", "TrafficLight", "get_state_at_time_step"), [("l", "obj", "TrafficLight"), ("t", "Z")], "Z",
     "TrafficLight.get_state_at_time_step"),
]


def text():
    tr = Translator([Module("traffic_light", os.path.join(REPO, "commonroad", "scenario", "traffic_light.py"))], consts={},
                    records={"TrafficLightCycleElement": ("element", [("_state", "colour", "Z"), ("_duration", "duration", "Z")]),
                             "TrafficLightCycle": ("cycle", [("_cycle_elements", "c_elements",
                                                              ("list", ("obj", "TrafficLightCycleElement"))),
                                                             ("_time_offset", "c_offset", "Z")]),
                             "TrafficLight": ("light", [("_traffic_light_cycle", "l_cycle", ("obj", "TrafficLightCycle"))])},
                    prims={"np.cumsum": np_cumsum, "np.insert": np_insert, "np.argmax": np_argmax})
    return emit_file(tr, HEADER, JOBS)


def generate():
    return write_if_changed(os.path.join(COQ, "Gen", "Src_traffic_light.v"), text())


if __name__ == "__main__":
    print(text())
