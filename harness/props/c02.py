"""C02 — protobuf write -> read is lossless.
oracle: generated scenarios (enum members restricted to names present in the .proto) written by the real protobuf
        writer, read by the real reader; canonical content compared, every real bit-identical (tolerance 0)
corr:   enum transport by name (Model/EnumName.v on the GENERATED tables) vs pb Enum.Value / Enum.Name + Python
        enum lookup, exhaustive over all members of all enums of the format"""
import importlib
import pkgutil

import gen_tables
from props import codec_run
from vlib.core import qopt, qstr, qz
from vlib.flow import load_corpus

RULE = ("scenarios + planning-problem sets generated from one seed each as for C01 (props/codec_gen.py, fmt=pb: enum "
        "members and state attributes restricted to those the .proto knows; static obstacles with and without signal "
        "series; point-mass trajectories included); 40% with the edge stream of magnitudes. distinct = distinct seeds; "
        "non-trivial = at least one obstacle / sign / light. Enum correspondence exhaustive over all members.")
ASSUME = ["protobuf ParseFromString . SerializeToString is the identity on messages",
          "the object <-> message mapping of writer / reader is not modelled: decided by the oracle only"]


def gen(rng, n):
    return codec_run.gen_cases(rng, n, "pb")


def oracle(case):
    return codec_run.oracle_roundtrip(case)


def enum_cases():
    """(enum name, member name, pb number | None, member name read back | None) for all Python enums of the format"""
    import enum as _enum
    import commonroad.scenario_definition.protobuf_format.generated_scripts as gs
    pbe = {}

    def walk(m):
        for e in m.enum_types:
            pbe[e.name] = e
        for n in m.nested_types:
            walk(n)
    for mi in pkgutil.iter_modules(gs.__path__):
        mod = importlib.import_module(gs.__name__ + "." + mi.name)
        for e in mod.DESCRIPTOR.enum_types_by_name.values():
            pbe[e.name] = e
        for m in mod.DESCRIPTOR.message_types_by_name.values():
            walk(m)
    out = []
    for modname in ("commonroad.scenario.lanelet", "commonroad.scenario.obstacle", "commonroad.scenario.scenario",
                    "commonroad.scenario.traffic_light", "commonroad.scenario.traffic_sign",
                    "commonroad.common.common_lanelet"):
        mod = importlib.import_module(modname)
        for k, v in vars(mod).items():
            if isinstance(v, type) and issubclass(v, _enum.Enum) and k in pbe and v.__module__ == modname:
                desc = pbe[k]
                for m in v:
                    num = desc.values_by_name[m.name].number if m.name in desc.values_by_name else None
                    back = None
                    if num is not None:
                        try:
                            back = v[desc.values_by_number[num].name].name
                        except KeyError:
                            back = None
                    out.append((k, m.name, num, back))
    return out


def corr(ctx):
    cs = enum_cases()
    terms = [f"CEnum {qstr(e)} {qstr(m)} {qopt(n, qz)} {qopt(b, qstr)}" for e, m, n, b in cs]
    imports = ("From Coq Require Import ZArith String List Bool NArith.\nImport ListNotations.\n"
               "From CR Require Import Model.EnumName Gen.PbEnums Corr.C02.\nOpen Scope string_scope.\n")
    bad, errors = ctx.coq_bad_indices("enum", imports, "", terms, "check", shard=300)
    ctx.coverage["enum_members_checked"] = len(terms)
    ctx.coverage["exhaustive_enum_members"] = True
    for e in errors:
        ctx.corr_break("Corr.C02.check (coqc failed)", e)
    for i in bad:
        ctx.corr_break("Corr.C02: enum transport by name", {"enum": cs[i][0], "member": cs[i][1], "observed": cs[i][2:]})
    ctx.log(f"corr enum members={len(terms)} disagree={len(bad)} coq_errors={len(errors)}")


def run(ctx):
    ctx.trusted = ["Coq 8.16.1 kernel + vm_compute (no native_compute)",
                   "axioms: none (Print Assumptions: Closed under the global context)",
                   "translator harness/gen_tables.py:gen_pbenums (protobuf enum tables from the *_pb2 descriptors, Python "
                   "enum member names), regenerated on every run",
                   "harness/vlib/canon.py + props/codec_gen.py (generator, canonical comparison, tolerance 0)",
                   "google.protobuf runtime"]
    changed = gen_tables.main(["PbEnums.v"])
    if changed:
        ctx.notes.append(f"regenerated {changed} from /repo")
    ctx.build_props()
    if ctx.tier == "thorough":
        ctx.coqchk()
    n = ctx.n(150, 4000)
    cases = load_corpus("C02") + gen(ctx.rng, n)

    def run_oracle(cs):
        for c in cs:
            d = codec_run.describe(c)
            ctx.count(c, d["static"] + d["dynamic"] + d["phantom"] + d["environment"] + d["signs"] + d["lights"] > 0,
                      "pb scenario" + (" (edge magnitudes)" if c.get("edge") else ""))
            for k in ("lanelets", "static", "dynamic", "phantom", "environment", "signs", "lights", "intersections"):
                ctx.dist["total " + k] = ctx.dist.get("total " + k, 0) + d[k]
            for r in codec_run.oracle_roundtrip_all(c):
                ctx.fail(r[0], r[1], c)

    run_oracle(cases)
    corr(ctx)
    if (ctx.proof_breaks or ctx.corr_breaks) and not ctx.failures:
        ctx.log("proof/correspondence broke; widening the search")
        run_oracle(gen(ctx.rng, n * 5))
    return ctx.finish(RULE, assumptions=ASSUME)
