"""C02 — protobuf write -> read is lossless.
oracle: generated scenarios (enum members restricted to names present in the .proto) written by the real protobuf
        writer, read by the real reader; canonical content compared, every real bit-identical (tolerance 0)
tables: ONE description of the protobuf format (props/c02_pbfmt.py) -> coq/Gen/PbFmt.v (tables W / R, descriptor
        table), value extraction, cross-check against the *_pb2 descriptors; presence discipline of every field
        re-derived from the writer / reader source (props/c02_scan.py) - all on every run, fail-closed
corr:   A / B: generic codec of Model/Codec.v on the GENERATED tables vs the message the real writer serialised and
        the objects the real reader built (props/c02_corr.py, Corr/C02.v), exact, inside Coq;
        E: enum transport by name (Model/EnumName.v on the GENERATED enum tables) vs pb Enum.Value / Enum.Name +
        Python enum lookup, exhaustive over all members of all enums of the format"""
import importlib
import pkgutil

import gen_tables
from props import codec_run
from vlib.core import qopt, qstr, qz
from vlib.flow import load_corpus

RULE = ("scenarios + planning-problem sets generated from one seed each as for C01 (props/codec_gen.py, fmt=pb: enum "
        "members and state attributes restricted to those the .proto knows; static obstacles with and without signal "
        "series; point-mass trajectories included); 40% with the edge stream of magnitudes; plus n/3 variants of such "
        "scenarios (props/c02_gen.py): 'defaults' = objects rebuilt through the public constructors with only their "
        "mandatory arguments (absent optional data), lights with independent active flags; 'twins' = added occupancies "
        "/ obstacles / goal regions whose shapes are last-bit twins (numpy.nextafter, signed zero) of shapes already "
        "in the scenario. Comparison: canonical content with tolerance 0, then every float by its 8 bytes. distinct = "
        "distinct (seed, variant); non-trivial = at least one obstacle / sign / light. Relations A / B on 40 (quick) / "
        "400 (thorough) of the scenarios (3/4 plain, 1/4 variants); enum correspondence exhaustive over all members.")
ASSUME = ["protobuf ParseFromString . SerializeToString is the identity on messages; ListFields / HasField report the "
          "fields a message holds (the message -> tree conversion uses nothing else)",
          "sets are compared as sets (repeated scalar fields the API holds as sets are sorted on both sides)",
          "the header date (writer's wall clock, discarded by the reader) is outside the tables"]


def build(case):
    from props import c02_gen
    return c02_gen.build(case)


def gen(rng, n):
    from props import c02_gen
    base = codec_run.gen_cases(rng, n, "pb")
    return base + c02_gen.gen_cases(rng, max(1, n // 3))


def roundtrip_results(case):
    from props import c02_gen
    return c02_gen.oracle_all(case)


def oracle(case):
    rs = roundtrip_results(case)
    return rs[0] if rs else None


def enum_cases():
    """(enum name, member name, pb number | None, member name read back | None) for all Python enums of the format"""
    import enum as _enum
    import commonroad.scenario_definition.protobuf_format.generated_scripts as gs
    pbe = {}

    def walk(m):
        for e in m.enum_types:
            pbe[e.name] = e
        for n in m.nested_types:
            walk(n)
    for mi in pkgutil.iter_modules(gs.__path__):
        mod = importlib.import_module(gs.__name__ + "." + mi.name)
        for e in mod.DESCRIPTOR.enum_types_by_name.values():
            pbe[e.name] = e
        for m in mod.DESCRIPTOR.message_types_by_name.values():
            walk(m)
    out = []
    for modname in ("commonroad.scenario.lanelet", "commonroad.scenario.obstacle", "commonroad.scenario.scenario",
                    "commonroad.scenario.traffic_light", "commonroad.scenario.traffic_sign",
                    "commonroad.common.common_lanelet"):
        mod = importlib.import_module(modname)
        for k, v in vars(mod).items():
            if isinstance(v, type) and issubclass(v, _enum.Enum) and k in pbe and v.__module__ == modname:
                desc = pbe[k]
                for m in v:
                    num = desc.values_by_name[m.name].number if m.name in desc.values_by_name else None
                    back = None
                    if num is not None:
                        try:
                            back = v[desc.values_by_number[num].name].name
                        except KeyError:
                            back = None
                    out.append((k, m.name, num, back))
    return out


def corr_enums(ctx):
    from props import c02_corr
    cs = enum_cases()
    terms = [f"CEnum {qstr(e)} {qstr(m)} {qopt(n, qz)} {qopt(b, qstr)}" for e, m, n, b in cs]
    bad, errors = ctx.coq_bad_indices("enum", c02_corr.IMPORTS, "", terms, "check", shard=300)
    ctx.coverage["enum_members_checked"] = len(terms)
    ctx.coverage["exhaustive_enum_members"] = True
    for e in errors:
        ctx.corr_break("Corr.C02.check (coqc failed)", e)
    for i in bad:
        ctx.corr_break("Corr.C02 E: enum transport by name", {"enum": cs[i][0], "member": cs[i][1], "observed": cs[i][2:]})
    ctx.log(f"corr enum members={len(terms)} disagree={len(bad)} coq_errors={len(errors)}")


def tables(ctx):
    """regenerate Gen/PbEnums.v and Gen/PbFmt.v from the source of this run; a description that no longer matches the
    descriptors or the writer / reader source is a broken obligation (fail closed)"""
    from props import c02_pbfmt, c02_scan
    changed = gen_tables.main(["PbEnums.v"])
    try:
        uncovered = c02_pbfmt.check_descriptors()
        problems, deviations, summary = c02_scan.apply()
        if gen_tables.write_if_changed("PbFmt.v", c02_pbfmt.coq_table()):
            changed.append("PbFmt.v")
    except Exception as e:  # noqa  (fail closed: the description does not fit the shipped definition any more)
        ctx.proof_breaks.append({"theorem": "format description vs *_pb2 descriptors", "where": "props/c02_pbfmt.py",
                                 "log": f"{type(e).__name__}: {e}"})
        ctx.log(f"proof_broken format description: {type(e).__name__}: {e}")
        return
    ctx.coverage["proto_fields_not_in_tables"] = uncovered
    ctx.coverage["source_scan"] = summary
    ctx.coverage["table_deviations"] = deviations
    for p in problems:
        ctx.proof_breaks.append({"theorem": "format description vs writer / reader source", "where": "props/c02_scan.py",
                                 "log": p})
        ctx.log(f"proof_broken source scan: {p}")
    for d in deviations:
        ctx.log(f"table deviation: {d}")
    if changed:
        ctx.notes.append(f"regenerated {changed} from the repository")


def run(ctx):
    from props import c02_corr
    ctx.trusted = ["Coq 8.16.1 kernel + vm_compute (no native_compute)",
                   "axioms: none (Print Assumptions: Closed under the global context)",
                   "translator harness/props/c02_pbfmt.py: ONE format description generates coq/Gen/PbFmt.v (tables W, R, "
                   "descriptor table read from the *_pb2 modules), extracts values from the Python objects; State "
                   "attributes and country enums read from the descriptors; regenerated on every run",
                   "harness/props/c02_scan.py (ast scan of file_writer_protobuf.py / file_reader_protobuf.py: which "
                   "fields are set unconditionally / guarded / appended, read with / without HasField)",
                   "translator harness/gen_tables.py:gen_pbenums (protobuf enum tables from the *_pb2 descriptors)",
                   "correspondence relations coq/Corr/C02.v (A: written message = write W; B: read-back = read R; E: enums)",
                   "harness/vlib/canon.py + props/codec_gen.py + props/c02_gen.py (generator, canonical comparison, tolerance 0)",
                   "google.protobuf runtime (serialisation, ListFields, HasField, descriptors)"]
    tables(ctx)
    if not ctx.build_props():
        _build_corr(ctx)
    if ctx.tier == "thorough":
        ctx.coqchk()
    n = ctx.n(150, 4000)
    cases = load_corpus("C02") + gen(ctx.rng, n)

    def run_oracle(cs):
        for c in cs:
            sc, pps, meta = build(c)
            d = {"lanelets": len(sc.lanelet_network.lanelets), "signs": len(sc.lanelet_network.traffic_signs),
                 "lights": len(sc.lanelet_network.traffic_lights), "intersections": len(sc.lanelet_network.intersections),
                 "static": len(sc.static_obstacles), "dynamic": len(sc.dynamic_obstacles),
                 "phantom": len(sc.phantom_obstacle), "environment": len(sc.environment_obstacle)}
            ctx.count(c, d["static"] + d["dynamic"] + d["phantom"] + d["environment"] + d["signs"] + d["lights"] > 0,
                      "pb scenario" + (f" ({c['variant']})" if c.get("variant") else "")
                      + (" (edge magnitudes)" if c.get("edge") else ""))
            for k in d:
                ctx.dist["total " + k] = ctx.dist.get("total " + k, 0) + d[k]
            for r in roundtrip_results(c):
                ctx.fail(r[0], r[1], c)

    run_oracle(cases)
    n_corr = ctx.n(40, 400)
    half = n_corr * 3 // 4
    plain = [c for c in cases if not c.get("variant")][:half]
    dflt = [c for c in cases if c.get("variant")][:n_corr - half]
    if _tables_built():
        c02_corr.run(ctx, plain + dflt, n_corr, build)
    else:
        ctx.log("Gen/PbFmt.v / Corr/C02.v did not build: relations A / B not evaluated")
    corr_enums(ctx)
    if (ctx.proof_breaks or ctx.corr_breaks) and not ctx.failures:
        ctx.log("proof/correspondence broke; widening the search")
        run_oracle([b["case"] for b in ctx.corr_breaks if isinstance(b.get("case"), dict) and "seed" in b["case"]])
        if not ctx.failures:
            run_oracle(gen(ctx.rng, n * 5))
    return ctx.finish(RULE, assumptions=ASSUME)


def _tables_built():
    import os
    from vlib.core import COQ
    return all(os.path.exists(os.path.join(COQ, d, f)) and
               os.path.getmtime(os.path.join(COQ, d, f)) >= os.path.getmtime(os.path.join(COQ, "Gen", "PbFmt.v"))
               for d, f in (("Gen", "PbFmt.vo"), ("Corr", "C02.vo")))


def _build_corr(ctx):
    """a theorem about the tables no longer checks: the correspondence relation itself (Corr/C02.v needs the generated
    tables only, not the proofs) is still built, so that relations A / B can localise the disagreement"""
    import subprocess
    from vlib.core import COQ
    lock = ctx._lock()
    try:
        subprocess.run(["timeout", "600", "make", "-f", "Makefile.coq", "-k", "Corr/C02.vo"], cwd=COQ, capture_output=True)
    finally:
        lock.close()
