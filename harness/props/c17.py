"""C17 — traffic-light state follows the cycle definition.
oracle: linear scan over one period (the property statement) vs TrafficLightCycle / TrafficLight
corr:   Model/TrafficLight.v (cumsum + modulo + argmax as coded) evaluated by vm_compute (Corr/C17.v)"""
import copy
import pickle

import numpy as np

from vlib.core import qlist, qopt, qz
from vlib.flow import standard_run

from commonroad.scenario.traffic_light import (TrafficLight, TrafficLightCycle, TrafficLightCycleElement,
                                               TrafficLightDirection, TrafficLightState)

COLOURS = list(TrafficLightState)
CODE = {c.name: i + 1 for i, c in enumerate(COLOURS)}

RULE = ("cycles of 1..8 elements (durations 1..50, also 1, 10^6), offsets 0..200 (also 10^5), time steps from -3D to "
        "50D incl. every phase boundary -1/0/+1, t < offset, many periods later; int and numpy int time steps; "
        "TrafficLight built by constructor, by the cycle setter, by deepcopy and by pickle; cycle built by constructor or "
        "through its time_offset / cycle_elements setters before the first query. distinct = distinct case "
        "dicts; all cases are non-trivial (every one decides a window)")
ASSUME = ["Python/numpy integer arithmetic is exact (model over Z)"]
ROUTES = ["ctor", "setter", "deepcopy", "pickle", "kw_order", "requery"]
# how the cycle itself comes into being (all before the first query; staleness after a query is C11)
CYCLE_ROUTES = ["ctor", "ctor", "offset_setter", "elements_setter", "both_setters", "copy", "sibling", "late_elements",
                "default_fill"]


def gen(rng, n):
    cases = []
    while len(cases) < n:
        k = rng.choice([1, 1, 2, 3, 3, 4, 5, 8])
        els = []
        for _ in range(k):
            d = rng.choice([1, 1, 2, 3, 5, rng.randint(1, 50), rng.randint(1, 50), 10**6 if rng.random() < 0.05 else 7])
            els.append([rng.choice(COLOURS).name, d])
        o = rng.choice([0, 0, 1, 2, rng.randint(0, 200), rng.randint(0, 200), 10**5 if rng.random() < 0.1 else 3])
        D = sum(d for _, d in els)
        # every phase boundary and its neighbours, in a random period
        bounds, acc = [], 0
        for _, d in els:
            bounds += [acc - 1, acc, acc + 1]
            acc += d
        bounds += [acc - 1, acc, acc + 1]
        ts = set()
        for _ in range(6):
            ts.add(o + rng.choice(bounds) + rng.choice([-3, -2, -1, 0, 0, 1, 2, 7, 50]) * D)
        ts.add(rng.randint(-3 * D, 50 * D))
        ts.add(rng.randint(0, max(1, o)))
        ts.add(0)
        dtype = None
        if rng.random() < 0.2:
            fits = [dt for dt, hi in (("int8", 127), ("int16", 32767), ("int32", 2**31 - 1), ("int64", 2**62))
                    if max(d for _, d in els) <= hi]       # every single duration fits; their sum need not
            dtype = rng.choice(fits)
        for t in ts:
            c = {"op": "state", "els": els, "o": o, "t": int(t), "tt": rng.choice(["int", "int", "np.int64"]),
                 "route": rng.choice(ROUTES), "croute": rng.choice(CYCLE_ROUTES)}
            if dtype:
                c["dtype"] = dtype
            cases.append(c)
    return cases[:n]


def build(c):
    dt = c.get("dtype")      # durations handed over as numpy integer scalars (e.g. taken from a signal-plan array)
    els = [TrafficLightCycleElement(TrafficLightState[n], d if dt is None else getattr(np, dt)(d)) for n, d in c["els"]]
    cr = c.get("croute", "ctor")
    if cr == "late_elements":
        # the phase lengths are filled in after the light was put together, before anybody asked for a state
        els = [TrafficLightCycleElement(TrafficLightState[n], d + 1 + i) for i, (n, d) in enumerate(c["els"])]
    if cr == "offset_setter":
        cyc = TrafficLightCycle(els)
        cyc.time_offset = c["o"]
    elif cr == "elements_setter":
        cyc = TrafficLightCycle([TrafficLightCycleElement(TrafficLightState.RED, 1)], time_offset=c["o"])
        cyc.cycle_elements = els
    elif cr == "default_fill":
        # cycles constructed without an element list and filled through the list they hand out, before anybody asked
        # for a state; another cycle made the same way exists beside this one (seed C17-14: a shared default list)
        other = TrafficLightCycle()
        other.cycle_elements.append(TrafficLightCycleElement(TrafficLightState.RED, 2))
        cyc = TrafficLightCycle(time_offset=c["o"])
        for e in els:
            cyc.cycle_elements.append(e)
    elif cr == "both_setters":
        cyc = TrafficLightCycle()
        cyc.cycle_elements = els
        cyc.time_offset = c["o"]
    else:
        cyc = TrafficLightCycle(els, time_offset=c["o"])
    if cr == "copy":
        cyc = copy.deepcopy(cyc)
    if cr == "sibling":
        # the same phases with another offset, the way it is usually made: a shallow copy of a cycle that has already
        # answered a query, then the offset assigned on the copy; the original keeps its offset and its answers
        cyc.get_state_at_time_step(0)
        sib = copy.copy(cyc)
        sib.time_offset = c["o"] + 1 + sum(d for _, d in c["els"]) // 2
        sib.get_state_at_time_step(3)
    pos = np.array([1.0, 2.0])
    r = c["route"]
    if r == "setter":
        light = TrafficLight(7, pos)
        light.traffic_light_cycle = cyc
    elif r == "kw_order":
        light = TrafficLight(traffic_light_id=7, position=pos, direction=TrafficLightDirection.LEFT, active=False,
                             traffic_light_cycle=cyc)
    else:
        light = TrafficLight(7, pos, cyc)
    if r == "deepcopy":
        light = copy.deepcopy(light)
    if r == "pickle":
        light = pickle.loads(pickle.dumps(light))
    out_cyc = light.traffic_light_cycle if r in ("deepcopy", "pickle") else cyc
    if r == "requery" and cr not in ("sibling",):
        # the light has answered for this very time step while its cycle had another offset; the held cycle is then
        # corrected in place through its public setter, and the same time step is asked again (seed C17-15)
        t = int(c["t"]) if c["tt"] == "int" else np.int64(c["t"])
        want = out_cyc.time_offset
        out_cyc.time_offset = want + 1
        try:
            light.get_state_at_time_step(t)
        except Exception:  # noqa - judged by the query that follows
            pass
        out_cyc.time_offset = want
    if cr == "late_elements":
        for el, (n, d) in zip(out_cyc.cycle_elements, c["els"]):
            el.duration = d if dt is None else getattr(np, dt)(d)
    return out_cyc, light


def observe(c):
    t = int(c["t"]) if c["tt"] == "int" else np.int64(c["t"])
    out = []
    cyc, light = build(c)
    for obj in (cyc, light):
        try:
            out.append(obj.get_state_at_time_step(t).name)
        except Exception as e:  # noqa
            out.append("exc:" + type(e).__name__)
    return out


def expected(c):
    D = sum(d for _, d in c["els"])
    r = (c["t"] - c["o"]) % D
    acc = 0
    for name, d in c["els"]:
        if acc <= r < acc + d:
            return name
        acc += d
    raise AssertionError("unreachable")


def oracle(c):
    exp = expected(c)
    oc, ol = observe(c)
    if oc != exp:
        return (f"cycle:{c.get('croute', 'ctor')}:" + ("raises" if oc.startswith("exc") else "wrong state"),
                f"cycle {c['els']} offset {c['o']} t={c['t']}: expected {exp}, got {oc}")
    if ol != oc:
        return (f"light:{c['route']}:disagrees with its cycle",
                f"TrafficLight({c['route']}) reports {ol}, its cycle {oc} for t={c['t']}")
    return None


def corr(ctx, cases):
    terms, use = [], []
    for c in cases:
        oc, ol = observe(c)

        def code(x):
            return None if x.startswith("exc") else CODE[x]
        els = qlist([f"({qz(CODE[n])}, {qz(d)})" for n, d in c["els"]])
        terms.append(f"CState {els} {qz(c['o'])} {qz(c['t'])} {qopt(code(oc), qz)} {qopt(code(ol), qz)}")
        use.append((c, oc, ol))
    imports = ("From Coq Require Import ZArith List Bool NArith.\nImport ListNotations.\n"
               "From CR Require Import Model.TrafficLight Corr.C17.\nOpen Scope Z_scope.\n")
    bad, errors = ctx.coq_bad_indices("corr", imports, "", terms, "check")
    ctx.coverage["correspondence_cases"] = len(terms)
    for e in errors:
        ctx.corr_break("Corr.C17.check (coqc failed)", e)
    for i in bad:
        c, oc, ol = use[i]
        ctx.corr_break("Corr.C17.check: Model/TrafficLight.v vs traffic_light.py", dict(c, observed=[oc, ol]))
    ctx.log(f"corr cases={len(terms)} disagree={len(bad)} coq_errors={len(errors)}")


def run(ctx):
    ctx.trusted = ["Coq 8.16.1 kernel + vm_compute (no native_compute)",
                   "axioms: none (Print Assumptions: Closed under the global context)",
                   "hand-written model coq/Model/TrafficLight.v of traffic_light.py:165-178,367-368, tied to the code "
                   "by the correspondence relation coq/Corr/C17.v on every run",
                   "harness/props/c17.py (generator, linear-scan oracle, Coq term printer)",
                   "numpy cumsum/insert/argmax semantics as modelled (first True, 0 if none; negative index wraps)"]
    ctx.trusted.insert(3, "harness/vlib/py2coq.py + harness/props/c17_src.py: translator (symbolic execution, fail-closed) of "
                          "traffic_light.py TrafficLightCycle.cycle_init_timesteps / get_state_at_time_step, TrafficLight."
                          "get_state_at_time_step into coq/Gen/Src_traffic_light.v on every run; C17_model_is_source proves "
                          "the hand-written model equal to that text")
    from props import c17_src
    from vlib.py2coq import TranslationError
    try:
        changed = c17_src.generate()
        ctx.notes.append(f"Gen/Src_traffic_light.v regenerated from the source ({'changed' if changed else 'unchanged'})")
    except (TranslationError, SyntaxError, OSError, AssertionError) as e:
        ctx.proof_breaks.append({"theorem": "translator:Gen/Src_traffic_light.v (C17_model_is_source)",
                                 "where": "harness/props/c17_src.py", "log": str(e)})
        ctx.log(f"translator failed: {e}")
    return standard_run(ctx, __import__("props.c17", fromlist=["x"]), 1200, 40000, RULE, ASSUME)
