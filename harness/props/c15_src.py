"""C15 source tie: the bodies of XMLFileWriter.write_to_file / write_scenario_to_file and ProtobufFileWriter.write_to_file /
write_scenario_to_file are parsed on every run into the step language of coq/Model/WritersSrc.v (coq/Gen/Src_writers.v);
FileWriter._handle_file_path and the precision assignment of FileWriter.__init__ are compared with their expected text.
Proofs/SrcWriters.v proves that the parsed step lists compute [step repaired] of Model/Writers.v.

Fail-closed: a statement outside the shapes listed in Model/WritersSrc.v raises SourceShapeError (a broken obligation).

Trusted: this parser and the reading of the accepted shapes (each helper does what Model/Writers.v says of it:
_write_header sets attributes / fills the header, _add_all_* append, tree.write / _serialize_write_msg serialise what
the writer holds; these helpers are exercised by the correspondence)."""
import ast
import copy
import hashlib
import os

from vlib.core import COQ, REPO
from vlib.py2coq import write_if_changed
from vlib import astnorm as N

W = os.path.join("commonroad", "common", "writer")
FILES = {"xml": os.path.join(W, "file_writer_xml.py"), "pb": os.path.join(W, "file_writer_protobuf.py"),
         "iface": os.path.join(W, "file_writer_interface.py")}


class SourceShapeError(Exception):
    pass


def bad(node, why):
    raise SourceShapeError(f"line {getattr(node, 'lineno', '?')}: {why}: {ast.unparse(node)[:150]}")


def body_of(fn):
    return [s for s in fn.body if not (isinstance(s, ast.Expr) and isinstance(s.value, ast.Constant)
                                       and isinstance(s.value.value, str))]


def method(tree, cls, name):
    for c in tree.body:
        if isinstance(c, ast.ClassDef) and c.name == cls:
            hits = [f for f in c.body if isinstance(f, ast.FunctionDef) and f.name == name]
            if len(hits) == 1:
                return hits[0]
    raise SourceShapeError(f"{cls}.{name} not found (or defined twice)")


class _Strip(ast.NodeTransformer):
    """print(...) statements and the texts of input(...) prompts do not matter"""

    def visit_Expr(self, n):
        if isinstance(n.value, ast.Call) and ast.unparse(n.value.func) == "print":
            return None
        return n

    def visit_Call(self, n):
        self.generic_visit(n)
        if ast.unparse(n.func) == "input":
            return ast.Call(func=n.func, args=[], keywords=[])
        return n


def norm(stmts):
    out = []
    for s in stmts:
        s = _Strip().visit(copy.deepcopy(s))
        if s is not None:
            ast.fix_missing_locations(s)
            out.append(ast.unparse(s))
    return "\n".join(out)


def ref(src):
    return norm(ast.parse(src).body)


KEEP = ("_write_header", "_add_all_objects_from_scenario", "_add_all_planning_problems_from_planning_problem_set",
        "_handle_file_path", "check_validity_of_commonroad_file", "_dump", "_get_suffix", "_serialize_write_msg")

POLICY_SRC = '''
def _handle_file_path(self, filename, overwrite_existing_file):
    if filename is None:
        filename = DEFAULT
    if pathlib.Path(filename).is_file():
        if overwrite_existing_file is OverwriteExistingFile.ASK_USER_INPUT:
            overwrite = input()
        elif overwrite_existing_file is OverwriteExistingFile.SKIP:
            overwrite = 'n'
        else:
            overwrite = 'y'
        if overwrite == 'n':
            return RET_SKIP
    RET_GO
'''


class _NoPrint(ast.NodeTransformer):
    def visit_Expr(self, n):
        if isinstance(n.value, ast.Call) and ast.unparse(n.value.func) == "print":
            return ast.Pass()
        return n

    def visit_Call(self, n):
        self.generic_visit(n)
        if ast.unparse(n.func) == "input":
            return ast.Call(func=n.func, args=[], keywords=[])
        return n


def policy_text(fn, methods=None):
    """the overwrite policy as a decision tree (vlib/astnorm.py), prints and prompt texts dropped"""
    fn = _NoPrint().visit(copy.deepcopy(fn))
    ast.fix_missing_locations(fn)
    return N.alpha_text(N.normal(fn, methods or {}, KEEP))


def policy_ref(default, ret_skip, ret_go):
    src = POLICY_SRC.replace("DEFAULT", default).replace("RET_SKIP", ret_skip).replace("RET_GO", ret_go)
    return policy_text(ast.parse(src).body[0])


def fold(stmts):
    """`if True / False:` left by inlining a helper with a constant argument"""
    out = []
    for s in stmts:
        if isinstance(s, ast.If) and isinstance(s.test, ast.Constant) and isinstance(s.test.value, bool):
            out.extend(fold(s.body if s.test.value else s.orelse))
        else:
            out.append(s)
    return out


def norm_policy(stmts):
    """the policy written out inside a write method: the statements as a function of their own"""
    fn = ast.parse("def _handle_file_path(self, filename, overwrite_existing_file):\n    pass").body[0]
    fn.body = [copy.deepcopy(s) for s in stmts] + [ast.parse("GO()").body[0]]
    return policy_text(fn)


def parse_write(fn, fmt, with_validate, methods):
    self_ = fn.args.args[0].arg
    body = fold(body_of(N.inline(fn, methods, 0, KEEP)))
    steps, i = [], 0
    reset = {"xml": f"{self_}._root_node = etree.Element('commonRoad')",
             "pb": f"{self_}._commonroad_msg = commonroad_pb2.CommonRoad()"}[fmt]
    calls = {f"{self_}._write_header()": "WHeader", f"{self_}._add_all_objects_from_scenario()": "WObjects",
             f"{self_}._add_all_planning_problems_from_planning_problem_set()": "WProblems"}
    while i < len(body):
        s = body[i]
        u = ast.unparse(s)
        if u == f"filename = {self_}._handle_file_path(filename, overwrite_existing_file)":
            if i + 1 >= len(body) or ast.unparse(body[i + 1]) != "if not filename:\n    return":
                bad(s, "the result of _handle_file_path is not tested with `if not filename: return`")
            steps.append("WPolicy")
            i += 2
            continue
        if u.startswith("if filename is None:"):
            # the policy written out in the method (XML write_scenario_to_file)
            if i + 1 >= len(body) or norm_policy(body[i:i + 2]) != policy_ref(f"str({self_}.scenario.scenario_id)",
                                                                              "", "GO()"):
                bad(s, "inline overwrite policy differs from the expected one")
            steps.append("WPolicy")
            i += 2
            continue
        if u == reset:
            steps.append("WReset")
        elif u == f"precision.decimals = {self_}._decimal_precision":
            steps.append("WSetPrec")
        elif u in calls:
            steps.append(calls[u])
        elif isinstance(s, ast.If) and ast.unparse(s.test) == "check_validity" and not s.orelse and with_validate:
            for n in ast.walk(s):
                if isinstance(n, (ast.Assign, ast.AugAssign, ast.AnnAssign, ast.Delete, ast.Return)):
                    bad(s, "the validity branch does more than read")
            steps.append("WValidate")
        elif fmt == "xml" and u == f"tree = etree.ElementTree({self_}._root_node)":
            if i + 1 >= len(body) or not ast.unparse(body[i + 1]).startswith("tree.write(filename"):
                bad(s, "the tree is not written to the file right after it is wrapped")
            steps.append("WEmit")
            i += 2
            continue
        elif fmt == "pb" and u == f"{self_}._serialize_write_msg(filename)":
            steps.append("WEmit")
        else:
            bad(s, "statement outside the accepted shapes")
        i += 1
    return "[" + "; ".join(steps) + "]"


def text():
    trees, sha = {}, {}
    for k, rel in FILES.items():
        raw = open(os.path.join(REPO, rel), "rb").read()
        trees[k], sha[k] = ast.parse(raw), hashlib.sha1(raw).hexdigest()
    hp = method(trees["iface"], "FileWriter", "_handle_file_path")
    want = policy_ref("str(self.scenario.scenario_id) + self._get_suffix()", "''", "return filename")
    if policy_text(hp, N.class_methods(trees["iface"], "FileWriter")) != want:
        raise SourceShapeError("FileWriter._handle_file_path is not the expected text:\n"
                               + policy_text(hp, N.class_methods(trees["iface"], "FileWriter")) + "\n-- expected --\n" + want)
    init = method(trees["iface"], "FileWriter", "__init__")
    texts = [ast.unparse(s) for s in body_of(init)]
    if "precision.decimals = decimal_precision" not in texts or "self._decimal_precision = decimal_precision" not in texts:
        raise SourceShapeError("FileWriter.__init__ does not store and apply decimal_precision as expected")
    xm, pm = N.class_methods(trees["xml"], "XMLFileWriter"), N.class_methods(trees["pb"], "ProtobufFileWriter")
    out = ["(* GENERATED on every run by harness/props/c15_src.py from the syntax trees of the write methods of XMLFileWriter "
           "and ProtobufFileWriter.  Do not edit.",
           "   sources: " + ", ".join(f"{FILES[k]} sha1={sha[k]}" for k in sorted(FILES)) + " *)",
           "From Coq Require Import List.", "From CR Require Import Model.WritersSrc.", "Import ListNotations.", "",
           f"Definition src_xml_write : list wstep := {parse_write(method(trees['xml'], 'XMLFileWriter', 'write_to_file'), 'xml', True, xm)}.",
           f"Definition src_xml_write_scenario : list wstep := "
           f"{parse_write(method(trees['xml'], 'XMLFileWriter', 'write_scenario_to_file'), 'xml', False, xm)}.",
           f"Definition src_pb_write : list wstep := {parse_write(method(trees['pb'], 'ProtobufFileWriter', 'write_to_file'), 'pb', True, pm)}.",
           f"Definition src_pb_write_scenario : list wstep := "
           f"{parse_write(method(trees['pb'], 'ProtobufFileWriter', 'write_scenario_to_file'), 'pb', False, pm)}.",
           "Definition src_init : init_form := InitSetsPrecision.",
           "Definition src_policy : policy_form := PolicyStd.", ""]
    return "\n".join(out)


def generate():
    return write_if_changed(os.path.join(COQ, "Gen", "Src_writers.v"), text())


if __name__ == "__main__":
    print(text())
