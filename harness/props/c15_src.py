"""C15 source tie: the bodies of XMLFileWriter.write_to_file / write_scenario_to_file and ProtobufFileWriter.write_to_file /
write_scenario_to_file are parsed on every run into the step language of coq/Model/WritersSrc.v (coq/Gen/Src_writers.v);
FileWriter._handle_file_path and the precision assignment of FileWriter.__init__ are compared with their expected text.
Proofs/SrcWriters.v proves that the parsed step lists compute [step repaired] of Model/Writers.v.

Fail-closed: a statement outside the shapes listed in Model/WritersSrc.v raises SourceShapeError (a broken obligation).

Trusted: this parser and the reading of the accepted shapes (each helper does what Model/Writers.v says of it:
_write_header sets attributes / fills the header, _add_all_* append, tree.write / _serialize_write_msg serialise what
the writer holds; these helpers are exercised by the correspondence)."""
import ast
import copy
import hashlib
import os

from vlib.core import COQ, REPO
from vlib.py2coq import write_if_changed

W = os.path.join("commonroad", "common", "writer")
FILES = {"xml": os.path.join(W, "file_writer_xml.py"), "pb": os.path.join(W, "file_writer_protobuf.py"),
         "iface": os.path.join(W, "file_writer_interface.py")}


class SourceShapeError(Exception):
    pass


def bad(node, why):
    raise SourceShapeError(f"line {getattr(node, 'lineno', '?')}: {why}: {ast.unparse(node)[:150]}")


def body_of(fn):
    return [s for s in fn.body if not (isinstance(s, ast.Expr) and isinstance(s.value, ast.Constant)
                                       and isinstance(s.value.value, str))]


def method(tree, cls, name):
    for c in tree.body:
        if isinstance(c, ast.ClassDef) and c.name == cls:
            hits = [f for f in c.body if isinstance(f, ast.FunctionDef) and f.name == name]
            if len(hits) == 1:
                return hits[0]
    raise SourceShapeError(f"{cls}.{name} not found (or defined twice)")


class _Strip(ast.NodeTransformer):
    """print(...) statements and the texts of input(...) prompts do not matter"""

    def visit_Expr(self, n):
        if isinstance(n.value, ast.Call) and ast.unparse(n.value.func) == "print":
            return None
        return n

    def visit_Call(self, n):
        self.generic_visit(n)
        if ast.unparse(n.func) == "input":
            return ast.Call(func=n.func, args=[], keywords=[])
        return n


def norm(stmts):
    out = []
    for s in stmts:
        s = _Strip().visit(copy.deepcopy(s))
        if s is not None:
            ast.fix_missing_locations(s)
            out.append(ast.unparse(s))
    return "\n".join(out)


def ref(src):
    return norm(ast.parse(src).body)


POLICY_CORE = '''
if pathlib.Path(filename).is_file():
    if overwrite_existing_file is OverwriteExistingFile.ASK_USER_INPUT:
        overwrite = input()
    elif overwrite_existing_file is OverwriteExistingFile.SKIP:
        overwrite = 'n'
    else:
        overwrite = 'y'
    if overwrite == 'n':
        return RET
    else:
        pass
'''


def policy_ref(default_name, ret):
    src = f"if filename is None:\n    filename = {default_name}\n" + POLICY_CORE.replace("RET", ret)
    return ref(src)


def norm_policy(stmts):
    out = []
    for s in stmts:
        s = copy.deepcopy(s)
        # replace print-only branches by pass before stripping
        for n in ast.walk(s):
            for fld in ("body", "orelse"):
                lst = getattr(n, fld, None)
                if isinstance(lst, list) and lst and all(isinstance(x, ast.Expr) and isinstance(x.value, ast.Call)
                                                         and ast.unparse(x.value.func) == "print" for x in lst):
                    setattr(n, fld, [ast.Pass()])
        out.append(s)
    return norm(out)


def parse_write(fn, fmt, with_validate):
    self_ = fn.args.args[0].arg
    body = body_of(fn)
    steps, i = [], 0
    reset = {"xml": f"{self_}._root_node = etree.Element('commonRoad')",
             "pb": f"{self_}._commonroad_msg = commonroad_pb2.CommonRoad()"}[fmt]
    calls = {f"{self_}._write_header()": "WHeader", f"{self_}._add_all_objects_from_scenario()": "WObjects",
             f"{self_}._add_all_planning_problems_from_planning_problem_set()": "WProblems"}
    while i < len(body):
        s = body[i]
        u = ast.unparse(s)
        if u == f"filename = {self_}._handle_file_path(filename, overwrite_existing_file)":
            if i + 1 >= len(body) or ast.unparse(body[i + 1]) != "if not filename:\n    return":
                bad(s, "the result of _handle_file_path is not tested with `if not filename: return`")
            steps.append("WPolicy")
            i += 2
            continue
        if u.startswith("if filename is None:"):
            # the policy written out in the method (XML write_scenario_to_file)
            if i + 1 >= len(body) or norm_policy(body[i:i + 2]) != policy_ref(f"str({self_}.scenario.scenario_id)", ""):
                bad(s, "inline overwrite policy differs from the expected one")
            steps.append("WPolicy")
            i += 2
            continue
        if u == reset:
            steps.append("WReset")
        elif u == f"precision.decimals = {self_}._decimal_precision":
            steps.append("WSetPrec")
        elif u in calls:
            steps.append(calls[u])
        elif isinstance(s, ast.If) and ast.unparse(s.test) == "check_validity" and not s.orelse and with_validate:
            for n in ast.walk(s):
                if isinstance(n, (ast.Assign, ast.AugAssign, ast.AnnAssign, ast.Delete, ast.Return)):
                    bad(s, "the validity branch does more than read")
            steps.append("WValidate")
        elif fmt == "xml" and u == f"tree = etree.ElementTree({self_}._root_node)":
            if i + 1 >= len(body) or not ast.unparse(body[i + 1]).startswith("tree.write(filename"):
                bad(s, "the tree is not written to the file right after it is wrapped")
            steps.append("WEmit")
            i += 2
            continue
        elif fmt == "pb" and u == f"{self_}._serialize_write_msg(filename)":
            steps.append("WEmit")
        else:
            bad(s, "statement outside the accepted shapes")
        i += 1
    return "[" + "; ".join(steps) + "]"


def text():
    trees, sha = {}, {}
    for k, rel in FILES.items():
        raw = open(os.path.join(REPO, rel), "rb").read()
        trees[k], sha[k] = ast.parse(raw), hashlib.sha1(raw).hexdigest()
    hp = method(trees["iface"], "FileWriter", "_handle_file_path")
    if norm_policy(body_of(hp)) != policy_ref("str(self.scenario.scenario_id) + self._get_suffix()", "''") + "\nreturn filename":
        raise SourceShapeError("FileWriter._handle_file_path is not the expected text:\n" + norm_policy(body_of(hp)))
    init = method(trees["iface"], "FileWriter", "__init__")
    texts = [ast.unparse(s) for s in body_of(init)]
    if "precision.decimals = decimal_precision" not in texts or "self._decimal_precision = decimal_precision" not in texts:
        raise SourceShapeError("FileWriter.__init__ does not store and apply decimal_precision as expected")
    out = ["(* GENERATED on every run by harness/props/c15_src.py from the syntax trees of the write methods of XMLFileWriter "
           "and ProtobufFileWriter.  Do not edit.",
           "   sources: " + ", ".join(f"{FILES[k]} sha1={sha[k]}" for k in sorted(FILES)) + " *)",
           "From Coq Require Import List.", "From CR Require Import Model.WritersSrc.", "Import ListNotations.", "",
           f"Definition src_xml_write : list wstep := {parse_write(method(trees['xml'], 'XMLFileWriter', 'write_to_file'), 'xml', True)}.",
           f"Definition src_xml_write_scenario : list wstep := "
           f"{parse_write(method(trees['xml'], 'XMLFileWriter', 'write_scenario_to_file'), 'xml', False)}.",
           f"Definition src_pb_write : list wstep := {parse_write(method(trees['pb'], 'ProtobufFileWriter', 'write_to_file'), 'pb', True)}.",
           f"Definition src_pb_write_scenario : list wstep := "
           f"{parse_write(method(trees['pb'], 'ProtobufFileWriter', 'write_scenario_to_file'), 'pb', False)}.",
           "Definition src_init : init_form := InitSetsPrecision.",
           "Definition src_policy : policy_form := PolicyStd.", ""]
    return "\n".join(out)


def generate():
    return write_if_changed(os.path.join(COQ, "Gen", "Src_writers.v"), text())


if __name__ == "__main__":
    print(text())
